package ollama

// Tie-1 tables for C09, regenerated on every run by executing the REAL code over a whole finite
// domain (no randomness):
//
//	send.txt    sendRequest (the helper every request of Registry.Pull/Push goes through): for every
//	            status 100..599 answered WITHOUT a Location header, does the caller get a response
//	            (1) or an error (0)?  Consumed by Tie.C09.sendRequest_accepts_exactly_2xx
//	            (the model's `is2xx` / `exchangeOk`).
//	follow.txt  net/http's client as used by the registry client: for every method × body kind ×
//	            status (all of 300..308 and some others) × Location?, the method of the next request
//	            the client sends ("-": the answer is handed to the caller).  And for two hops
//	            (first answer 301/302/303/307/308 + Location, second answer one of those + Location)
//	            the method of the THIRD request.  Consumed by Tie.C09.follow_matches_nethttp and
//	            follow2_matches_nethttp (the model's `follow`, incl. "the body kind of the ORIGINAL
//	            request decides").
//
//	begin.txt   the decisions at the start of a layer (`c.Get` size shortcut, `c.Chunked` pre-validated Chunker or
//	            O_CREATE) over every blob file length (none, 0..3) × manifest size 0..3.  Consumed by
//	            Tie.C09.beginLayer_matches_model (the model's `shortcut`, `prevalidated`, `ensureFile`).
//	verify.txt  the real verifyLayer on every relation between the blob file and the manifest entry (exact,
//	            short, oversized with the right prefix, wrong content, empty, missing): passes? file kept?
//	            Consumed by Tie.C09.verifyLayer_matches_model (the model's `verifyPass`).
//	variant.txt the tree's variant flags (probes of the real code): verify-before-Link, staged chunk
//	            files, Link's same-size shortcut, Push offers the config blob.
//
// Added to the package with `go test -overlay` (together with zz_verif_c09_test.go, whose probes it
// calls); never committed to /repo.

import (
	"bytes"
	"context"
	"fmt"
	"io"
	"net/http"
	"os"
	"path/filepath"
	"strings"
	"testing"

	"github.com/ollama/ollama/server/internal/cache/blob"
)

type c09TabRT struct {
	answers []c09TabAns // answer to the i-th physical request; beyond: 200
	methods []string
}

type c09TabAns struct {
	status int
	loc    bool
}

func (r *c09TabRT) RoundTrip(req *http.Request) (*http.Response, error) {
	i := len(r.methods)
	r.methods = append(r.methods, req.Method)
	if req.Body != nil {
		io.Copy(io.Discard, req.Body)
		req.Body.Close()
	}
	a := c09TabAns{status: 200}
	if i < len(r.answers) {
		a = r.answers[i]
	}
	h := http.Header{}
	if a.loc {
		h.Set("Location", fmt.Sprintf("http://tab.example/hop%d", i+1))
	}
	return &http.Response{
		StatusCode: a.status, Status: fmt.Sprintf("%d x", a.status), Proto: "HTTP/1.1", ProtoMajor: 1, ProtoMinor: 1,
		Header: h, Body: io.NopCloser(strings.NewReader("")), Request: req, ContentLength: 0,
	}, nil
}

// c09TabBody builds the request body of one kind: "none"; "rewindable" (bytes.Reader: net/http sets
// GetBody); "stream" (an *os.File, as Registry.Push sends a blob: no GetBody).
func c09TabBody(t *testing.T, kind, dir string) io.Reader {
	switch kind {
	case "none":
		return nil
	case "rewindable":
		return bytes.NewReader([]byte("body"))
	default:
		p := filepath.Join(dir, "blob")
		if err := os.WriteFile(p, []byte("body"), 0o644); err != nil {
			t.Fatal(err)
		}
		f, err := os.Open(p)
		if err != nil {
			t.Fatal(err)
		}
		t.Cleanup(func() { f.Close() })
		return f
	}
}

func b2i0(b bool) int {
	if b {
		return 1
	}
	return 0
}

func TestVerifC09Tables(t *testing.T) {
	outdir := os.Getenv("VERIF_OUT")
	if outdir == "" {
		t.Skip("VERIF_OUT not set")
	}
	dir := t.TempDir()
	r := &Registry{}

	// ---- send.txt
	var send []string
	for st := 100; st <= 599; st++ {
		rt := &c09TabRT{answers: []c09TabAns{{st, false}}}
		req, err := r.newRequest(context.Background(), "GET", "http://tab.example/x", nil)
		if err != nil {
			t.Fatal(err)
		}
		res, err := sendRequest(&http.Client{Transport: rt}, req)
		ok := 0
		if err == nil {
			ok = 1
			res.Body.Close()
		}
		if len(rt.methods) != 1 {
			t.Fatalf("status %d without Location: %d requests", st, len(rt.methods))
		}
		send = append(send, fmt.Sprintf("%d %d", st, ok))
	}
	if err := os.WriteFile(filepath.Join(outdir, "send.txt"), []byte(strings.Join(send, "\n")+"\n"), 0o644); err != nil {
		t.Fatal(err)
	}

	// ---- follow.txt
	methods := []string{"GET", "HEAD", "POST", "PUT", "PATCH"}
	bodies := []string{"none", "rewindable", "stream"}
	statuses := []int{100, 199, 200, 201, 204, 206, 300, 301, 302, 303, 304, 305, 306, 307, 308, 399, 400, 404, 500}
	hops := []int{301, 302, 303, 307, 308}
	next := func(m, b string, answers []c09TabAns, idx int) string {
		rt := &c09TabRT{answers: answers}
		req, err := r.newRequest(context.Background(), m, "http://tab.example/x", c09TabBody(t, b, dir))
		if err != nil {
			t.Fatal(err)
		}
		res, err := (&http.Client{Transport: rt}).Do(req)
		if err == nil {
			res.Body.Close()
		}
		if len(rt.methods) > idx {
			return rt.methods[idx]
		}
		return "-"
	}
	var follow []string
	for _, m := range methods {
		for _, b := range bodies {
			for _, st := range statuses {
				for _, loc := range []bool{false, true} {
					l := 0
					if loc {
						l = 1
					}
					follow = append(follow, fmt.Sprintf("1 %s %s %d %d 0 %s", m, b, st, l, next(m, b, []c09TabAns{{st, loc}}, 1)))
				}
			}
			for _, s1 := range hops {
				for _, s2 := range hops {
					follow = append(follow, fmt.Sprintf("2 %s %s %d 1 %d %s", m, b, s1, s2, next(m, b, []c09TabAns{{s1, true}, {s2, true}}, 2)))
				}
			}
		}
	}
	if err := os.WriteFile(filepath.Join(outdir, "follow.txt"), []byte(strings.Join(follow, "\n")+"\n"), 0o644); err != nil {
		t.Fatal(err)
	}

	// ---- verify.txt: the real verifyLayer (the last check before Link) on every relation between the blob
	// file and the manifest entry (layer "abcdef", size 6): does it pass, is the file still there afterwards
	var vlines []string
	for _, sc := range []struct {
		name string
		data []byte // nil: no file
	}{{"exact", []byte("abcdef")}, {"short", []byte("abc")}, {"oversized-good-prefix", []byte("abcdefx")},
		{"wrong-content", []byte("abcdeX")}, {"empty", []byte{}}, {"missing", nil}} {
		c, err := blob.Open(t.TempDir())
		if err != nil {
			t.Fatal(err)
		}
		d := c09Dig([]byte("abcdef"))
		if sc.data != nil {
			if err := os.WriteFile(c.GetFile(d), sc.data, 0o644); err != nil {
				t.Fatal(err)
			}
		}
		verr := verifyLayer(c, &Layer{Digest: d, Size: 6})
		_, serr := os.Stat(c.GetFile(d))
		vlines = append(vlines, fmt.Sprintf("%s %d %d", sc.name, b2i0(verr == nil), b2i0(serr == nil)))
	}
	if err := os.WriteFile(filepath.Join(outdir, "verify.txt"), []byte(strings.Join(vlines, "\n")+"\n"), 0o644); err != nil {
		t.Fatal(err)
	}

	// ---- begin.txt: what Pull decides at the start of a layer, over every (blob file length | no file) × manifest
	// size in 0..3: the size shortcut (`c.Get` succeeds with that size), else whether `c.Chunked` hands out the
	// file-less pre-validated Chunker (its Close fails on the nil file), and whether a blob file exists afterwards
	var blines []string
	for flen := -1; flen <= 3; flen++ {
		for size := 0; size <= 3; size++ {
			c, err := blob.Open(t.TempDir())
			if err != nil {
				t.Fatal(err)
			}
			d := c09Dig([]byte("begin"))
			if flen >= 0 {
				if err := os.WriteFile(c.GetFile(d), make([]byte, flen), 0o644); err != nil {
					t.Fatal(err)
				}
			}
			info, gerr := c.Get(d)
			shortcut := gerr == nil && info.Size == int64(size)
			pre := false
			if !shortcut {
				ch, cerr := c.Chunked(d, int64(size))
				if cerr != nil {
					t.Fatal(cerr)
				}
				pre = ch.Close() != nil
			}
			_, serr := os.Stat(c.GetFile(d))
			blines = append(blines, fmt.Sprintf("%d %d %d %d %d", flen, size, b2i0(shortcut), b2i0(pre), b2i0(serr == nil)))
		}
	}
	if err := os.WriteFile(filepath.Join(outdir, "begin.txt"), []byte(strings.Join(blines, "\n")+"\n"), 0o644); err != nil {
		t.Fatal(err)
	}

	// ---- variant.txt: which tree this is, by the same probes of the real code that select the
	// model's variant flags for L1 (zz_verif_c09_test.go).  Consumed by Tie.C09.tree_verifies and the
	// tree-instantiated corollaries.
	b2i := func(b bool) int {
		if b {
			return 1
		}
		return 0
	}
	variant := fmt.Sprintf("verify %d\nstaged %d\nlinkShortcut %d\npushConfig %d\n",
		b2i(c09ProbeVerifyBeforeLink(t)), b2i(c09ProbeStaged(t)), b2i(c09ProbeLinkShortcut(t)), b2i(c09ProbePushConfig(t)))
	if err := os.WriteFile(filepath.Join(outdir, "variant.txt"), []byte(variant), 0o644); err != nil {
		t.Fatal(err)
	}
}
