package ollama

// C09 driver for the chunksums response parser (Registry.chunksums: bufio.ScanWords, blob.ParseDigest,
// parseChunk).  L1: the entries the REAL iterator yields for a generated response body, and how the
// stream of entries ends, against the Lean model `Registry.Chunksums.parseBody` (oracle command
// `csparse <hex of the body>`).  Bodies are ASCII (the model's scope): mostly well-formed lines with
// every kind of separator, plus mutated digests and ranges and broken tails.
// Added to the package with `go test -overlay`; never committed to /repo.

import (
	"context"
	"fmt"
	"io"
	"net/http"
	"os"
	"strings"
	"testing"

	"github.com/ollama/ollama/server/internal/cache/blob"
	"github.com/ollama/ollama/zzverif"
)

type c09CsRT struct{ body string }

func (r c09CsRT) RoundTrip(req *http.Request) (*http.Response, error) {
	h := http.Header{}
	h.Set("Content-Location", "http://blob.example/b")
	return &http.Response{StatusCode: 200, Status: "200 OK", Header: h, Body: io.NopCloser(strings.NewReader(r.body)),
		Request: req, ProtoMajor: 1, ProtoMinor: 1, ContentLength: int64(len(r.body))}, nil
}

func c09CsHex(rng *zzverif.Rng, n int) string {
	const lower, upper = "0123456789abcdef", "0123456789ABCDEF"
	alpha := lower
	if rng.Chance(1, 6) {
		alpha = upper
	}
	var sb strings.Builder
	for i := 0; i < n; i++ {
		sb.WriteByte(alpha[rng.Intn(16)])
	}
	return sb.String()
}

func c09CsDigest(rng *zzverif.Rng, out *zzverif.Out, bad bool) string {
	if !bad {
		sep := ":"
		if rng.Chance(1, 5) {
			sep = "-"
			out.Count("cs_digest_dash_form")
		}
		return "sha256" + sep + c09CsHex(rng, 64)
	}
	out.Count("cs_digest_mutated")
	switch rng.Intn(8) {
	case 0:
		return "sha256:" + c09CsHex(rng, 63)
	case 1:
		return "sha256:" + c09CsHex(rng, 65)
	case 2:
		return "sha256:" + c09CsHex(rng, 63) + "g"
	case 3:
		return "sha25:" + c09CsHex(rng, 64)
	case 4:
		return "sha256" + c09CsHex(rng, 64)
	case 5:
		return "md5:" + c09CsHex(rng, 32)
	case 6:
		return "sha256:" + c09CsHex(rng, 32) + ":" + c09CsHex(rng, 31)
	default:
		return "SHA256:" + c09CsHex(rng, 64)
	}
}

func c09CsRange(rng *zzverif.Rng, out *zzverif.Out, bad bool) string {
	a := rng.Intn(50)
	b := a + rng.Intn(50)
	if !bad {
		switch rng.Intn(8) {
		case 0:
			out.Count("cs_range_plus_sign")
			return fmt.Sprintf("+%d-%d", a, b)
		case 1:
			out.Count("cs_range_plus_sign")
			return fmt.Sprintf("%d-+%d", a, b)
		case 2:
			out.Count("cs_range_leading_zeros")
			return fmt.Sprintf("00%d-0%d", a, b)
		case 3:
			out.Count("cs_range_int64_max")
			return fmt.Sprintf("%d-9223372036854775807", a)
		}
		return fmt.Sprintf("%d-%d", a, b)
	}
	out.Count("cs_range_mutated")
	return zzverif.Pick(rng, []string{
		fmt.Sprintf("%d-%d", b+1, a), fmt.Sprintf("%d", a), fmt.Sprintf("%d-", a), fmt.Sprintf("-%d", b),
		fmt.Sprintf("%d--%d", a, b), fmt.Sprintf("-%d-%d", a, b), fmt.Sprintf("x%d-%d", a, b), fmt.Sprintf("%d-%dx", a, b),
		fmt.Sprintf("%d-9223372036854775808", a), "99999999999999999999-99999999999999999999", fmt.Sprintf("%d_0-%d_0", a, b),
		fmt.Sprintf("0x%d-0x%d", a, b), "-", "+-+", fmt.Sprintf("%d:%d", a, b), fmt.Sprintf("%d-%d-%d", a, b, b+1), "+" + fmt.Sprint(a) + "-+",
	})
}

func TestVerifC09Chunksums(t *testing.T) {
	out := zzverif.NewOut()
	defer out.Close()
	n := zzverif.EnvInt("VERIF_NCS", 1500)
	root := zzverif.NewRng(zzverif.Seed())
	seps := []string{" ", " ", "\t", "\n", "\r\n", "  ", " \t ", "\v", "\f", "\n\n"}
	// --replay: regenerate only the reported case (`… kind=chunksums idx=<i> :: …`)
	only := -1
	if path := os.Getenv("VERIF_REPLAY"); path != "" {
		if b, err := os.ReadFile(path); err == nil {
			if k := strings.Index(string(b), "idx="); k >= 0 {
				fmt.Sscanf(string(b)[k:], "idx=%d", &only)
			}
		}
	}
	for i := 0; i < n; i++ {
		rng := root.Fork()
		if only >= 0 && i != only {
			if i > only {
				break
			}
			continue
		}
		var sb strings.Builder
		if rng.Chance(1, 10) {
			sb.WriteString(zzverif.Pick(rng, seps))
		}
		lines := rng.Intn(6)
		faulty := rng.Chance(1, 2)
		for j := 0; j < lines; j++ {
			sb.WriteString(c09CsDigest(rng, out, faulty && rng.Chance(1, 6)))
			sb.WriteString(zzverif.Pick(rng, seps))
			sb.WriteString(c09CsRange(rng, out, faulty && rng.Chance(1, 5)))
			sb.WriteString(zzverif.Pick(rng, seps))
		}
		switch {
		case faulty && rng.Chance(1, 4):
			sb.WriteString(c09CsDigest(rng, out, false)) // a digest without its range: the stream was cut
			out.Count("cs_tail_lone_digest")
		case faulty && rng.Chance(1, 6):
			sb.WriteString("garbage")
			out.Count("cs_tail_garbage")
		}
		body := sb.String()
		r := &Registry{HTTPClient: &http.Client{Transport: c09CsRT{body}}, ChunkingThreshold: 2}
		l := &Layer{Digest: blob.DigestFromBytes("layer"), Size: 100}
		var got []string
		ending := "clean"
		for cs, err := range r.chunksums(context.Background(), "http://example.com/library/x", l) {
			if err != nil {
				switch {
				case strings.HasPrefix(err.Error(), "invalid digest"):
					ending = "invalidDigest"
				case strings.HasPrefix(err.Error(), "missing chunk range"):
					ending = "missingRange"
				case strings.HasPrefix(err.Error(), "invalid chunk range"):
					ending = "invalidRange"
				default:
					ending = "other:" + err.Error()
				}
				break
			}
			got = append(got, fmt.Sprintf("%s:%d:%d", strings.TrimPrefix(cs.Digest.String(), "sha256:"), cs.Chunk.Start, cs.Chunk.End))
			// L2, on the real code alone: what the client takes from a chunksums body is a range
			if cs.Chunk.Start < 0 || cs.Chunk.End < cs.Chunk.Start || cs.URL != "http://blob.example/b" {
				out.L2("chunksums-entry-malformed", fmt.Sprintf("seed=%d kind=chunksums idx=%d :: csparse %s", zzverif.Seed(), i, zzverif.Hex([]byte(body))),
					fmt.Sprintf("start=%d end=%d url=%q", cs.Chunk.Start, cs.Chunk.End, cs.URL))
			}
		}
		out.Count("cs_ending_" + strings.SplitN(ending, ":", 2)[0])
		k := len(got)
		if k > 5 {
			k = 5
		}
		out.Count(fmt.Sprintf("cs_entries_%d", k))
		out.Count("chunksums_cases")
		out.Case("csparse "+zzverif.Hex([]byte(body)), fmt.Sprintf("%s end=%s", strings.Join(got, " "), ending))
		if f, err := os.OpenFile(os.Getenv("VERIF_OUT")+"/tags.txt", os.O_APPEND|os.O_CREATE|os.O_WRONLY, 0o644); err == nil {
			fmt.Fprintf(f, "seed=%d kind=chunksums idx=%d\n", zzverif.Seed(), i)
			f.Close()
		}
	}
}
