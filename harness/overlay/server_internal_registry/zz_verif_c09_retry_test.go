package registry

// Verification driver for C09, Tie 1: the retry decision of Local.handlePull (canRetry + the
// backoff loop) is executed end to end, once per error class of the Lean model: the first Pull
// attempt fails with that class (produced by the REAL client against an in-memory registry), every
// later attempt would succeed; the number of attempts handlePull makes (1 = not retried,
// 2 = retried) is written to table.txt and regenerated into Lean
// (OllamaVerif/Generated/C09_RetryTable.lean), where `canRetry` must agree by `decide`.
// Runs in a testing/synctest bubble (backoff sleeps and the read timeout are fake time).
// Added to the package at build time with `go test -overlay`; never committed to /repo.

import (
	"context"
	"errors"
	"fmt"
	"io"
	"log/slog"
	"net/http"
	"net/http/httptest"
	"os"
	"path/filepath"
	"strings"
	"sync"
	"testing"
	"testing/synctest"
	"time"

	"github.com/ollama/ollama/server/internal/cache/blob"
	"github.com/ollama/ollama/server/internal/client/ollama"
)

type c09RetryReg struct {
	mu       sync.Mutex
	class    string
	attempts int // manifest requests seen = Pull attempts
	cancel   context.CancelFunc
}

type c09RetryBody struct {
	data []byte
	err  error
}

func (b *c09RetryBody) Read(p []byte) (int, error) {
	if len(b.data) == 0 {
		if b.err != nil {
			return 0, b.err
		}
		return 0, io.EOF
	}
	n := copy(p, b.data)
	b.data = b.data[n:]
	return n, nil
}
func (b *c09RetryBody) Close() error { return nil }

func c09RetryResp(req *http.Request, status int, body io.ReadCloser, hdr map[string]string) *http.Response {
	h := http.Header{}
	for k, v := range hdr {
		h.Set(k, v)
	}
	return &http.Response{StatusCode: status, Status: fmt.Sprint(status), Header: h, Body: body, Request: req,
		ProtoMajor: 1, ProtoMinor: 1, ContentLength: -1}
}

func (r *c09RetryReg) RoundTrip(req *http.Request) (*http.Response, error) {
	if err := req.Context().Err(); err != nil {
		return nil, context.Cause(req.Context())
	}
	abcd := []byte("abcd")
	d := blob.DigestFromBytes(abcd)
	str := func(s string) io.ReadCloser { return io.NopCloser(strings.NewReader(s)) }
	r.mu.Lock()
	first := r.attempts <= 1
	class := r.class
	if strings.Contains(req.URL.Path, "/manifests/") {
		r.attempts++
		first = r.attempts <= 1
	}
	r.mu.Unlock()
	if !first {
		class = "ok"
	}
	switch {
	case strings.Contains(req.URL.Path, "/manifests/"):
		switch class {
		case "status5xx":
			return c09RetryResp(req, 503, str(`{"errors":[{"code":"X","message":"scripted"}]}`), nil), nil
		case "status4xx":
			return c09RetryResp(req, 403, str(`{"errors":[{"code":"X","message":"scripted"}]}`), nil), nil
		case "notFound":
			return c09RetryResp(req, 404, str(`{"errors":[{"code":"MANIFEST_UNKNOWN","message":"x"}]}`), nil), nil
		case "transport":
			return nil, errors.New("verif: dial tcp: transport failure")
		case "invalidManifest":
			return c09RetryResp(req, 200, str(`{"layers":`), nil), nil
		}
		return c09RetryResp(req, 200, str(fmt.Sprintf(`{"layers":[{"digest":"%s","size":4}]}`, d)), nil), nil
	case strings.Contains(req.URL.Path, "/chunksums/"):
		body := fmt.Sprintf("%s 0-1\n%s 2-3\n", blob.DigestFromBytes(abcd[:2]), blob.DigestFromBytes(abcd[2:]))
		if class == "incomplete" {
			body = fmt.Sprintf("%s 0-1\n", blob.DigestFromBytes(abcd[:2]))
		}
		return c09RetryResp(req, 200, str(body), map[string]string{"Content-Location": "http://blobs.example.com/v2/library/x/blobs/" + d.String()}), nil
	}
	// chunk GET
	var s, e int
	fmt.Sscanf(req.Header.Get("Range"), "bytes=%d-%d", &s, &e)
	data := append([]byte{}, abcd[s:e+1]...)
	if s == 0 {
		return c09RetryResp(req, 200, &c09RetryBody{data: data}, nil), nil
	}
	switch class {
	case "digest":
		data[0] ^= 0xff
	case "eof":
		data = data[:1]
	case "readErr":
		return c09RetryResp(req, 200, &c09RetryBody{data: data[:1], err: errors.New("verif: read tcp: connection reset by peer")}, nil), nil
	case "deadline":
		<-req.Context().Done() // silent until the client's ReadTimeout fires
		return nil, context.Cause(req.Context())
	case "canceled":
		r.cancel() // the API client goes away
		<-req.Context().Done()
		return nil, context.Cause(req.Context())
	}
	return c09RetryResp(req, 200, &c09RetryBody{data: data}, nil), nil
}

func TestVerifC09RetryTable(t *testing.T) {
	outdir := os.Getenv("VERIF_OUT")
	if outdir == "" {
		t.Skip("VERIF_OUT not set")
	}
	classes := []string{"ok", "status4xx", "status5xx", "notFound", "transport", "canceled", "eof", "readErr",
		"digest", "incomplete", "invalidManifest", "deadline"}
	var lines []string
	for _, class := range classes {
		dir := t.TempDir()
		var attempts int
		var body string
		synctest.Test(t, func(t *testing.T) {
			c, err := blob.Open(dir)
			if err != nil {
				t.Fatal(err)
			}
			ctx, cancel := context.WithCancel(context.Background())
			defer cancel()
			reg := &c09RetryReg{class: class, cancel: cancel}
			s := &Local{
				Client: &ollama.Registry{Cache: c, HTTPClient: &http.Client{Transport: reg}, MaxStreams: 1,
					ChunkingThreshold: 2, ReadTimeout: 10 * time.Second},
				Logger: slog.New(slog.NewTextHandler(io.Discard, nil)),
			}
			req := httptest.NewRequest("POST", "/api/pull", strings.NewReader(`{"model":"http://example.com/library/r"}`)).WithContext(ctx)
			rec := httptest.NewRecorder()
			done := make(chan struct{})
			go func() { defer close(done); s.ServeHTTP(rec, req) }()
			select {
			case <-done:
			case <-time.After(10 * time.Minute): // fake time: far beyond any backoff
				cancel()
				<-done
				t.Errorf("class %s: handlePull still retrying after 10 fake minutes", class)
			}
			attempts = reg.attempts
			body = rec.Body.String()
		})
		success := strings.Contains(body, `"success"`)
		// consistency of the observation itself: retried iff a second attempt was made, and the
		// second attempt (which the registry lets succeed) ends the request successfully
		if attempts > 2 || (attempts == 2) != (success && class != "ok") && class != "ok" {
			t.Errorf("class %s: attempts=%d success=%v body=%q", class, attempts, success, body)
		}
		_, linkErr := os.Stat(filepath.Join(dir, "manifests", "example.com", "library", "r", "latest"))
		if (linkErr == nil) != success {
			t.Errorf("class %s: linked=%v but success=%v", class, linkErr == nil, success)
		}
		lines = append(lines, fmt.Sprintf("%s %d", class, attempts))
	}
	if err := os.WriteFile(filepath.Join(outdir, "table.txt"), []byte(strings.Join(lines, "\n")+"\n"), 0o644); err != nil {
		t.Fatal(err)
	}
}
