package registry

// Verification driver for C09, Tie 1: the retry decision of Local.handlePull (canRetry + the
// backoff loop) is executed end to end, once per error class of the Lean model: the first Pull
// attempt fails with that class (produced by the REAL client against an in-memory registry), every
// later attempt would succeed; the number of attempts handlePull makes (1 = not retried,
// 2 = retried) is written to table.txt and regenerated into Lean
// (OllamaVerif/Generated/C09_RetryTable.lean), where `canRetry` must agree by `decide`.
// Runs in a testing/synctest bubble (backoff sleeps and the read timeout are fake time).
// Added to the package at build time with `go test -overlay`; never committed to /repo.

import (
	"context"
	"encoding/json"
	"errors"
	"fmt"
	"io"
	"log/slog"
	"net/http"
	"net/http/httptest"
	"os"
	"path/filepath"
	"strings"
	"sync"
	"testing"
	"testing/synctest"
	"time"

	"github.com/ollama/ollama/server/internal/cache/blob"
	"github.com/ollama/ollama/server/internal/client/ollama"
	"github.com/ollama/ollama/zzverif"
)

// c09LockedWriter serialises writes to the recorder.  handlePull writes its first status line from
// the handler goroutine while the trace callback (start → flushProgress) may write and flush from
// the goroutine that runs Pull; httptest.ResponseRecorder is not safe for that (a run of this driver
// died in "concurrent map writes").  The race is in /repo (robustness, outside C09); the driver only
// needs the final stream.
type c09LockedWriter struct {
	mu  sync.Mutex
	rec *httptest.ResponseRecorder
}

func (w *c09LockedWriter) Header() http.Header {
	w.mu.Lock()
	defer w.mu.Unlock()
	return w.rec.Header()
}
func (w *c09LockedWriter) Write(b []byte) (int, error) {
	w.mu.Lock()
	defer w.mu.Unlock()
	return w.rec.Write(b)
}
func (w *c09LockedWriter) WriteHeader(c int) { w.mu.Lock(); defer w.mu.Unlock(); w.rec.WriteHeader(c) }
func (w *c09LockedWriter) Flush()            { w.mu.Lock(); defer w.mu.Unlock(); w.rec.Flush() }

type c09RetryReg struct {
	mu       sync.Mutex
	class    string
	attempts int // manifest requests seen = Pull attempts
	cancel   context.CancelFunc
}

type c09RetryBody struct {
	data []byte
	err  error
}

func (b *c09RetryBody) Read(p []byte) (int, error) {
	if len(b.data) == 0 {
		if b.err != nil {
			return 0, b.err
		}
		return 0, io.EOF
	}
	n := copy(p, b.data)
	b.data = b.data[n:]
	return n, nil
}
func (b *c09RetryBody) Close() error { return nil }

func c09RetryResp(req *http.Request, status int, body io.ReadCloser, hdr map[string]string) *http.Response {
	h := http.Header{}
	for k, v := range hdr {
		h.Set(k, v)
	}
	return &http.Response{StatusCode: status, Status: fmt.Sprint(status), Header: h, Body: body, Request: req,
		ProtoMajor: 1, ProtoMinor: 1, ContentLength: -1}
}

func (r *c09RetryReg) RoundTrip(req *http.Request) (*http.Response, error) {
	if err := req.Context().Err(); err != nil {
		return nil, context.Cause(req.Context())
	}
	abcd := []byte("abcd")
	d := blob.DigestFromBytes(abcd)
	str := func(s string) io.ReadCloser { return io.NopCloser(strings.NewReader(s)) }
	r.mu.Lock()
	first := r.attempts <= 1
	class := r.class
	if strings.Contains(req.URL.Path, "/manifests/") {
		r.attempts++
		first = r.attempts <= 1
	}
	r.mu.Unlock()
	if !first {
		class = "ok"
	}
	switch {
	case strings.Contains(req.URL.Path, "/manifests/"):
		switch class {
		case "status5xx":
			return c09RetryResp(req, 503, str(`{"errors":[{"code":"X","message":"scripted"}]}`), nil), nil
		case "status4xx":
			return c09RetryResp(req, 403, str(`{"errors":[{"code":"X","message":"scripted"}]}`), nil), nil
		case "notFound":
			return c09RetryResp(req, 404, str(`{"errors":[{"code":"MANIFEST_UNKNOWN","message":"x"}]}`), nil), nil
		case "transport":
			return nil, errors.New("verif: dial tcp: transport failure")
		case "invalidManifest":
			return c09RetryResp(req, 200, str(`{"layers":`), nil), nil
		}
		return c09RetryResp(req, 200, str(fmt.Sprintf(`{"layers":[{"digest":"%s","size":4}]}`, d)), nil), nil
	case strings.Contains(req.URL.Path, "/chunksums/"):
		body := fmt.Sprintf("%s 0-1\n%s 2-3\n", blob.DigestFromBytes(abcd[:2]), blob.DigestFromBytes(abcd[2:]))
		if class == "incomplete" {
			body = fmt.Sprintf("%s 0-1\n", blob.DigestFromBytes(abcd[:2]))
		}
		return c09RetryResp(req, 200, str(body), map[string]string{"Content-Location": "http://blobs.example.com/v2/library/x/blobs/" + d.String()}), nil
	}
	// chunk GET
	var s, e int
	fmt.Sscanf(req.Header.Get("Range"), "bytes=%d-%d", &s, &e)
	data := append([]byte{}, abcd[s:e+1]...)
	if s == 0 {
		return c09RetryResp(req, 200, &c09RetryBody{data: data}, nil), nil
	}
	switch class {
	case "digest":
		data[0] ^= 0xff
	case "eof":
		data = data[:1]
	case "readErr":
		return c09RetryResp(req, 200, &c09RetryBody{data: data[:1], err: errors.New("verif: read tcp: connection reset by peer")}, nil), nil
	case "deadline":
		<-req.Context().Done() // silent until the client's ReadTimeout fires
		return nil, context.Cause(req.Context())
	case "canceled":
		r.cancel() // the API client goes away
		<-req.Context().Done()
		return nil, context.Cause(req.Context())
	}
	return c09RetryResp(req, 200, &c09RetryBody{data: data}, nil), nil
}

func TestVerifC09RetryTable(t *testing.T) {
	outdir := os.Getenv("VERIF_OUT")
	if outdir == "" {
		t.Skip("VERIF_OUT not set")
	}
	classes := []string{"ok", "status4xx", "status5xx", "notFound", "transport", "canceled", "eof", "readErr",
		"digest", "incomplete", "invalidManifest", "deadline"}
	var lines []string
	for _, class := range classes {
		dir := t.TempDir()
		var attempts int
		var body string
		synctest.Test(t, func(t *testing.T) {
			c, err := blob.Open(dir)
			if err != nil {
				t.Fatal(err)
			}
			ctx, cancel := context.WithCancel(context.Background())
			defer cancel()
			reg := &c09RetryReg{class: class, cancel: cancel}
			s := &Local{
				Client: &ollama.Registry{Cache: c, HTTPClient: &http.Client{Transport: reg}, MaxStreams: 1,
					ChunkingThreshold: 2, ReadTimeout: 10 * time.Second},
				Logger: slog.New(slog.NewTextHandler(io.Discard, nil)),
			}
			req := httptest.NewRequest("POST", "/api/pull", strings.NewReader(`{"model":"http://example.com/library/r"}`)).WithContext(ctx)
			rec := httptest.NewRecorder()
			done := make(chan struct{})
			go func() { defer close(done); s.ServeHTTP(&c09LockedWriter{rec: rec}, req) }()
			select {
			case <-done:
			case <-time.After(10 * time.Minute): // fake time: far beyond any backoff
				cancel()
				<-done
				t.Errorf("class %s: handlePull still retrying after 10 fake minutes", class)
			}
			attempts = reg.attempts
			body = rec.Body.String()
		})
		success := strings.Contains(body, `"success"`)
		// consistency of the observation itself: retried iff a second attempt was made, and the
		// second attempt (which the registry lets succeed) ends the request successfully
		if attempts > 2 || (attempts == 2) != (success && class != "ok") && class != "ok" {
			t.Errorf("class %s: attempts=%d success=%v body=%q", class, attempts, success, body)
		}
		_, linkErr := os.Stat(filepath.Join(dir, "manifests", "example.com", "library", "r", "latest"))
		if (linkErr == nil) != success {
			t.Errorf("class %s: linked=%v but success=%v", class, linkErr == nil, success)
		}
		lines = append(lines, fmt.Sprintf("%s %d", class, attempts))
	}
	if err := os.WriteFile(filepath.Join(outdir, "table.txt"), []byte(strings.Join(lines, "\n")+"\n"), 0o644); err != nil {
		t.Fatal(err)
	}
}

// ---------------------------------------------------------------------------------------------
// Histories through the real HTTP handler: a run of temporary failures (as many as 10 in a row),
// then success, a permanent error, or the API client going away.  L1: what the handler reports
// (success or not), how many Pull attempts it made and whether the name is linked, against the
// Lean model of the loop (oracle command `hpull`).  L2: the stream ends with "success" ⇒ the name
// resolves and every layer of its manifest is in the cache with the manifest's size and SHA-256;
// no success ⇒ the name is not linked.

type c09HistReg struct {
	mu       sync.Mutex
	script   []string // behaviour of attempt i (see c09HistBehaviours); beyond the script: the client goes away
	attempt  int      // index of the current attempt (manifest requests seen - 1)
	steps    [][]string
	planGap  []bool
	cancel   context.CancelFunc
	withCfg  bool
	answered int // manifest requests answered from the script
}

var (
	c09HistABCD = []byte("abcd")
	c09HistCfg  = []byte("z")
)

func (r *c09HistReg) manifestJSON() string {
	d := blob.DigestFromBytes(c09HistABCD)
	if r.withCfg {
		return fmt.Sprintf(`{"layers":[{"digest":"%s","size":4}],"config":{"digest":"%s","size":1}}`, d, blob.DigestFromBytes(c09HistCfg))
	}
	return fmt.Sprintf(`{"layers":[{"digest":"%s","size":4}]}`, d)
}

func (r *c09HistReg) RoundTrip(req *http.Request) (*http.Response, error) {
	if err := req.Context().Err(); err != nil {
		return nil, context.Cause(req.Context())
	}
	str := func(s string) io.ReadCloser { return io.NopCloser(strings.NewReader(s)) }
	d := blob.DigestFromBytes(c09HistABCD)
	r.mu.Lock()
	if strings.Contains(req.URL.Path, "/manifests/") {
		r.attempt++
		if r.attempt >= len(r.script) {
			r.mu.Unlock()
			r.cancel() // the script is over and the handler still retries: the API client goes away
			return nil, context.Canceled
		}
		r.answered++
	}
	b := r.script[r.attempt]
	at := r.attempt
	step := func(s string) { r.steps[at] = append(r.steps[at], s) }
	defer r.mu.Unlock()
	errBody := `{"errors":[{"code":"X","message":"scripted"}]}`
	switch {
	case strings.Contains(req.URL.Path, "/manifests/"):
		switch b {
		case "m5xx":
			return c09RetryResp(req, 502, str(errBody), nil), nil
		case "m4xx":
			return c09RetryResp(req, 403, str(errBody), nil), nil
		case "mNotFound":
			return c09RetryResp(req, 404, str(`{"errors":[{"code":"MANIFEST_UNKNOWN","message":"x"}]}`), nil), nil
		case "mTransport":
			return nil, errors.New("verif: dial tcp: transport failure")
		case "mBadJSON":
			return c09RetryResp(req, 200, str(`{"layers":`), nil), nil
		}
		return c09RetryResp(req, 200, str(r.manifestJSON()), nil), nil
	case strings.Contains(req.URL.Path, "/chunksums/"):
		body := fmt.Sprintf("%s 0-1\n%s 2-3\n", blob.DigestFromBytes(c09HistABCD[:2]), blob.DigestFromBytes(c09HistABCD[2:]))
		if b == "gap" {
			body = fmt.Sprintf("%s 0-1\n", blob.DigestFromBytes(c09HistABCD[:2]))
			r.planGap[at] = true
		}
		return c09RetryResp(req, 200, str(body), map[string]string{"Content-Location": "http://blobs.example.com/v2/library/x/blobs/" + d.String()}), nil
	}
	// chunk GET
	var s, e int
	fmt.Sscanf(req.Header.Get("Range"), "bytes=%d-%d", &s, &e)
	if strings.HasSuffix(req.URL.Path, blob.DigestFromBytes(c09HistCfg).String()) {
		step("rel 0 body 1 " + fmt.Sprintf("%x", c09HistCfg) + " eof")
		return c09RetryResp(req, 200, &c09RetryBody{data: append([]byte{}, c09HistCfg...)}, nil), nil
	}
	data := append([]byte{}, c09HistABCD[s:e+1]...)
	if s == 0 {
		step(fmt.Sprintf("rel 0 body 1 %x eof", data))
		return c09RetryResp(req, 200, &c09RetryBody{data: data}, nil), nil
	}
	switch b {
	case "c5xx":
		step("rel 0 fail status5xx")
		return c09RetryResp(req, 500, str(errBody), nil), nil
	case "c4xx":
		step("rel 0 fail status4xx")
		return c09RetryResp(req, 410, str(errBody), nil), nil
	case "reset":
		step(fmt.Sprintf("rel 0 body 1 %x err", data[:1]))
		return c09RetryResp(req, 200, &c09RetryBody{data: data[:1], err: errors.New("verif: read tcp: connection reset by peer")}, nil), nil
	case "corrupt":
		data[0] ^= 0x55
		step(fmt.Sprintf("rel 0 body 1 %x eof", data))
		return c09RetryResp(req, 200, &c09RetryBody{data: data}, nil), nil
	case "short":
		step(fmt.Sprintf("rel 0 body 1 %x eof", data[:1]))
		return c09RetryResp(req, 200, &c09RetryBody{data: data[:1]}, nil), nil
	case "silent":
		step("timeout")
		r.mu.Unlock()
		<-req.Context().Done() // until the client's ReadTimeout fires
		r.mu.Lock()
		return nil, context.Cause(req.Context())
	}
	step(fmt.Sprintf("rel 0 body 1 %x eof", data))
	return c09RetryResp(req, 200, &c09RetryBody{data: data}, nil), nil
}

func TestVerifC09Handler(t *testing.T) {
	out := zzverif.NewOut()
	defer out.Close()
	seed := zzverif.Seed()
	n := zzverif.EnvInt("VERIF_N", 200)
	ridx := -1
	if p := os.Getenv("VERIF_REPLAY"); p != "" {
		raw, err := os.ReadFile(p)
		if err != nil {
			t.Fatal(err)
		}
		var k string
		if _, err := fmt.Sscanf(string(raw), "seed=%d kind=%s idx=%d", &seed, &k, &ridx); err != nil || k != "handler" {
			t.Fatalf("VERIF_REPLAY: not a handler case header: %q", raw)
		}
	}
	root := zzverif.NewRng(seed).Fork().Fork().Fork()
	temporary := []string{"m5xx", "c5xx", "reset", "silent", "m5xx", "reset"}
	permanent := []string{"m4xx", "mNotFound", "mTransport", "mBadJSON", "c4xx", "corrupt", "short", "gap"}
	cls := map[string]string{"m5xx": "status5xx", "m4xx": "status4xx", "mNotFound": "notFound", "mTransport": "transport",
		"mBadJSON": "invalidManifest"}
	for i := 0; i < n; i++ {
		rng := root.Fork()
		if ridx >= 0 && i != ridx {
			continue
		}
		tag := fmt.Sprintf("seed=%d kind=handler idx=%d", seed, i)
		// how many temporary failures in a row: the whole range 0..10, half of the cases >= 5
		k := rng.Intn(11)
		if rng.Bool() {
			k = rng.Range(5, 10)
		}
		var script []string
		for j := 0; j < k; j++ {
			script = append(script, zzverif.Pick(rng, temporary))
		}
		ending := zzverif.Pick(rng, []string{"ok", "ok", "permanent", "gone"})
		stream := !rng.Chance(1, 8)
		if !stream { // non-streaming requests make exactly one attempt
			script = script[:0]
			if rng.Bool() {
				script = append(script, zzverif.Pick(rng, temporary))
				ending = "none"
			}
			if ending == "gone" {
				ending = "ok"
			}
		}
		switch ending {
		case "ok":
			script = append(script, "good")
		case "permanent":
			script = append(script, zzverif.Pick(rng, permanent))
		}
		out.Count(fmt.Sprintf("handler_temporary_failures_in_a_row_%d", k))
		out.Count("handler_ending_" + ending)
		if !stream {
			out.Count("handler_non_streaming")
		}
		dir := t.TempDir()
		reg := &c09HistReg{script: script, attempt: -1, steps: make([][]string, len(script)+1), planGap: make([]bool, len(script)+1),
			withCfg: rng.Chance(1, 3)}
		var body string
		synctest.Test(t, func(t *testing.T) {
			c, err := blob.Open(dir)
			if err != nil {
				t.Fatal(err)
			}
			ctx, cancel := context.WithCancel(context.Background())
			defer cancel()
			reg.cancel = cancel
			s := &Local{
				Client: &ollama.Registry{Cache: c, HTTPClient: &http.Client{Transport: reg}, MaxStreams: 1,
					ChunkingThreshold: 2, ReadTimeout: 10 * time.Second},
				Logger: slog.New(slog.NewTextHandler(io.Discard, nil)),
			}
			reqBody := `{"model":"http://example.com/library/h"}`
			if !stream {
				reqBody = `{"model":"http://example.com/library/h","stream":false}`
			}
			req := httptest.NewRequest("POST", "/api/pull", strings.NewReader(reqBody)).WithContext(ctx)
			rec := httptest.NewRecorder()
			done := make(chan struct{})
			go func() { defer close(done); s.ServeHTTP(&c09LockedWriter{rec: rec}, req) }()
			select {
			case <-done:
			case <-time.After(time.Hour): // fake time, far beyond every backoff
				cancel()
				<-done
				out.L2("handler-does-not-end", tag, "handlePull still running after one fake hour")
			}
			body = rec.Body.String()
		})
		// what the API client sees last
		lines := strings.Split(strings.TrimSpace(body), "\n")
		last := lines[len(lines)-1]
		success := strings.Contains(last, `"status":"success"`)
		linkFile := filepath.Join(dir, "manifests", "example.com", "library", "h", "latest")
		linkData, linkErr := os.ReadFile(linkFile)
		link := "none"
		if linkErr == nil {
			link = "1"
		}
		// ---- op line
		var sb strings.Builder
		nat := len(script)
		fmt.Fprintf(&sb, "hpull 2 1 1 1 0 %d", nat)
		mj := reg.manifestJSON()
		for a := 0; a < nat; a++ {
			if c, ok := cls[script[a]]; ok {
				fmt.Fprintf(&sb, " 0 manerr %s", c)
			} else if reg.withCfg {
				fmt.Fprintf(&sb, " 0 man 1 %d 1 %x 4 1 %x 1", len(mj), c09HistABCD, c09HistCfg)
			} else {
				fmt.Fprintf(&sb, " 0 man 1 %d 1 %x 4 0", len(mj), c09HistABCD)
			}
			plan := fmt.Sprintf("plist 2 %x 0 2 %x 2 2", c09HistABCD[:2], c09HistABCD[2:])
			if reg.planGap[a] || script[a] == "gap" {
				plan = fmt.Sprintf("plist 1 %x 0 2", c09HistABCD[:2])
			}
			fmt.Fprintf(&sb, " 2 %s pfail", plan)
			fmt.Fprintf(&sb, " %d", len(reg.steps[a]))
			for _, s := range reg.steps[a] {
				sb.WriteString(" " + s)
			}
		}
		op := sb.String()
		out.Case(op, fmt.Sprintf("res=? success=%v attempts=%d link=%s", success, reg.answered, link))
		if f, err := os.OpenFile(filepath.Join(zzverif.OutDir(), "tags.txt"), os.O_APPEND|os.O_CREATE|os.O_WRONLY, 0o644); err == nil {
			fmt.Fprintln(f, tag)
			f.Close()
		}
		// ---- L2, independent of the model
		caseLine := tag + " :: " + op
		if success {
			if linkErr != nil {
				out.L2("handler-success-without-model", caseLine, fmt.Sprintf("stream ends with %q but the name does not resolve (attempts=%d)", last, reg.answered))
			} else {
				var m ollama.Manifest
				if err := json.Unmarshal(linkData, &m); err != nil {
					out.L2("handler-success-without-model", caseLine, "linked manifest unreadable: "+err.Error())
				}
				ls := append([]*ollama.Layer{}, m.Layers...)
				if m.Config != nil && m.Config.Digest.IsValid() {
					ls = append(ls, m.Config)
				}
				for _, l := range ls {
					b, err := os.ReadFile(filepath.Join(dir, "blobs", strings.Replace(l.Digest.String(), ":", "-", 1)))
					if err != nil || int64(len(b)) != l.Size || blob.DigestFromBytes(b) != l.Digest {
						out.L2("handler-success-without-model", caseLine, fmt.Sprintf("stream ends with success but layer %s is not in the cache with size %d and its digest (have %d bytes, err=%v)", l.Digest.Short(), l.Size, len(b), err))
					}
				}
			}
		} else if linkErr == nil {
			out.L2("handler-error-but-linked", caseLine, fmt.Sprintf("stream ends with %q but the name is linked", last))
		}
		if ending == "ok" && !success {
			out.Count("handler_good_ending_not_reached") // not a property failure; tells about the generator
		}
		out.Count("cases")
		out.Count("handler_cases")
	}
}
