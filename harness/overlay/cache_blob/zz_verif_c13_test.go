package blob

// C13 driver for server/internal/cache/blob: ParseDigest, Digest.String, DiskCache.GetFile,
// nameToPath and DiskCache.manifestPath (with real link files on disk).

import (
	"encoding/hex"
	"fmt"
	"os"
	"path/filepath"
	"strings"
	"testing"

	"github.com/ollama/ollama/zzverif"
)

func c13DigestCase(out *zzverif.Out, c *DiskCache, s string) {
	op := "digest " + zzverif.Hex([]byte(s))
	d, err := ParseDigest(s)
	out.Count("cases")
	if err != nil {
		out.Case(op, "err")
		out.Count("digest_rejected")
		if d != (Digest{}) {
			out.L2("digest-error-nonzero", op, "error with a non-zero digest")
		}
		return
	}
	out.Count("digest_accepted")
	out.Case(op, fmt.Sprintf("ok %s %s", zzverif.Hex(d.sum[:]), zzverif.Hex([]byte(d.String()))))
	// the blob path of an accepted digest: <dir>/blobs/sha256-<64 lower hex>
	p := c.GetFile(d)
	out.Case("getfile "+zzverif.Hex([]byte(c.dir))+" "+zzverif.Hex(d.sum[:]), zzverif.Hex([]byte(p)))
	if why := zzverif.C13Confined(c.dir, "blobs", p, 1); why != "" {
		out.L2("blob-path-escapes", op, why+" path="+zzverif.Hex([]byte(p)))
	}
	base := filepath.Base(p)
	if len(base) != 7+64 || !strings.HasPrefix(base, "sha256-") || strings.ToLower(base) != base {
		out.L2("blob-path-shape", op, "file name "+base)
	}
	if _, err := hex.DecodeString(base[7:]); err != nil {
		out.L2("blob-path-shape", op, "file name "+base)
	}
	// round trip: String() parses back to the same digest; both separator spellings and both
	// hex cases are the same digest
	if again, err := ParseDigest(d.String()); err != nil || again != d {
		out.L2("digest-roundtrip", op, "ParseDigest(String()) differs")
	}
}

type c13Cache struct {
	c     *DiskCache
	links []string
}

func c13ManifestCase(out *zzverif.Out, cc *c13Cache, s string) (string, bool) {
	c := cc.c
	np, nerr := nameToPath(s)
	if nerr != nil {
		out.Case("n2p "+zzverif.Hex([]byte(s)), "err")
	} else {
		out.Case("n2p "+zzverif.Hex([]byte(s)), "ok "+zzverif.Hex([]byte(np)))
	}
	var sb strings.Builder
	fmt.Fprintf(&sb, "mfpath %s %d", zzverif.Hex([]byte(c.dir)), len(cc.links))
	for _, l := range cc.links {
		sb.WriteString(" " + zzverif.Hex([]byte(l)))
	}
	sb.WriteString(" " + zzverif.Hex([]byte(s)))
	op := sb.String()
	p, err := c.manifestPath(s)
	out.Count("cases")
	if err != nil {
		out.Case(op, "err")
		out.Count("manifest_rejected")
		if nerr == nil {
			out.L2("manifestpath-vs-nametopath", op, "manifestPath failed for a name nameToPath accepts")
		}
		return "", false
	}
	out.Case(op, "ok "+zzverif.Hex([]byte(p)))
	out.Count("manifest_accepted")
	if why := zzverif.C13Confined(c.dir, "manifests", p, 4); why != "" {
		out.L2("manifest-path-escapes", op, why+" path="+zzverif.Hex([]byte(p)))
	}
	return p, true
}

// c13Variant returns s with the case of every letter chosen at random.
func c13Variant(r *zzverif.Rng, s string) string {
	b := []byte(s)
	for i, c := range b {
		if (c >= 'a' && c <= 'z' || c >= 'A' && c <= 'Z') && r.Bool() {
			b[i] = c ^ 0x20
		}
	}
	return string(b)
}

func c13FQName(r *zzverif.Rng) string {
	ln := func(k int) int {
		if r.Chance(1, 8) {
			return zzverif.C13PartLen(r, k)
		}
		return r.Range(1, 6)
	}
	return zzverif.C13Part(r, 0, ln(0)) + "/" + zzverif.C13Part(r, 1, ln(1)) + "/" + zzverif.C13Part(r, 2, ln(2)) + ":" + zzverif.C13Part(r, 3, ln(3))
}

func c13NewCache(t *testing.T, r *zzverif.Rng, names []string) *c13Cache {
	dir := t.TempDir()
	c, err := Open(dir)
	if err != nil {
		t.Fatal(err)
	}
	for _, n := range names {
		np, err := nameToPath(n)
		if err != nil {
			continue
		}
		p := filepath.Join(dir, "manifests", np)
		if err := os.MkdirAll(filepath.Dir(p), 0o755); err != nil {
			continue // over-long component for the file system
		}
		os.WriteFile(p, []byte("{}"), 0o644)
	}
	cc := &c13Cache{c: c}
	for l, err := range c.links() {
		if err != nil {
			t.Fatal(err)
		}
		cc.links = append(cc.links, l)
	}
	return cc
}

func TestVerifC13(t *testing.T) {
	out := zzverif.NewOut()
	defer out.Close()
	root := zzverif.NewRng(zzverif.Seed() + 2000)
	empty := c13NewCache(t, root.Fork(), nil)
	if rp := os.Getenv("VERIF_REPLAY"); rp != "" {
		b, _ := os.ReadFile(rp)
		f := strings.Fields(strings.TrimSpace(string(b)))
		switch {
		case len(f) == 2 && f[0] == "digest":
			c13DigestCase(out, empty.c, string(zzverif.Unhex(f[1])))
		case len(f) == 2 && f[0] == "n2p":
			c13ManifestCase(out, empty, string(zzverif.Unhex(f[1])))
		case len(f) >= 4 && f[0] == "mfpath":
			// rebuild the links of the recorded case in a fresh cache directory
			var names []string
			for _, l := range f[3 : len(f)-1] {
				p := strings.Split(strings.TrimPrefix(string(zzverif.Unhex(l)), "manifests/"), "/")
				if len(p) == 4 {
					names = append(names, p[0]+"/"+p[1]+"/"+p[2]+":"+p[3])
				}
			}
			c13ManifestCase(out, c13NewCache(t, root.Fork(), names), string(zzverif.Unhex(f[len(f)-1])))
		}
		return
	}
	// digests
	zzverif.C13Exhaustive(zzverif.C13Alphabet, zzverif.EnvInt("VERIF_EXH", 3), func(s string) {
		c13DigestCase(out, empty.c, s)
		c13DigestCase(out, empty.c, "sha256"+s)
		out.Count("exhaustive_digest")
	})
	n := zzverif.EnvInt("VERIF_N", 3000)
	for i := 0; i < n; i++ {
		r := root.Fork()
		class, s := zzverif.C13Digest(r)
		out.Count("digest_class_" + class)
		c13DigestCase(out, empty.c, s)
	}
	// names against an empty cache
	zzverif.C13Exhaustive(zzverif.C13Alphabet, zzverif.EnvInt("VERIF_EXH", 3), func(s string) {
		c13ManifestCase(out, empty, s)
		c13ManifestCase(out, empty, "h/n/"+s)
		out.Count("exhaustive_name")
	})
	for i := 0; i < n; i++ {
		r := root.Fork()
		class, s := zzverif.C13Name(r)
		out.Count("name_class_" + class)
		c13ManifestCase(out, empty, s)
	}
	// caches with links on disk: case twins must resolve to the same existing file
	scen := n / 100
	if scen < 8 {
		scen = 8
	}
	for i := 0; i < scen; i++ {
		r := root.Fork()
		var names []string
		for k := r.Range(1, 6); k > 0; k-- {
			nm := c13FQName(r)
			names = append(names, nm)
			if r.Chance(1, 3) { // a case twin on disk as well (case-sensitive file system)
				names = append(names, c13Variant(r, nm))
			}
			if r.Chance(1, 3) { // same model, other tag / other namespace
				names = append(names, nm+"x", "x"+nm)
			}
		}
		cc := c13NewCache(t, r, names)
		out.Add("links_on_disk", len(cc.links))
		for _, nm := range names {
			p0, ok0 := c13ManifestCase(out, cc, nm)
			for k := 0; k < 4; k++ {
				v := c13Variant(r, nm)
				p1, ok1 := c13ManifestCase(out, cc, v)
				out.Count("fold_pairs")
				if ok0 != ok1 {
					out.L2("fold-acceptance", "n2p "+zzverif.Hex([]byte(v)), "case variant accepted differently from "+nm)
					continue
				}
				if !ok0 {
					continue
				}
				// a manifest for nm (or a twin) exists on disk, so both must address that file
				_, err := os.Stat(p0)
				if err == nil && p0 != p1 {
					out.L2("fold-different-path", "n2p "+zzverif.Hex([]byte(v)), fmt.Sprintf("%q -> %s but %q -> %s", nm, p0, v, p1))
				}
				if err == nil {
					out.Count("fold_pairs_existing")
				}
			}
			// unrelated / mutated name
			c13ManifestCase(out, cc, zzverif.C13Mutate(r, nm))
		}
	}
}
