package blob

// C13 driver for server/internal/cache/blob: ParseDigest, Digest.String, DiskCache.GetFile,
// nameToPath and DiskCache.manifestPath (with real link files on disk).

import (
	"encoding/hex"
	"errors"
	"fmt"
	"os"
	"path/filepath"
	"strings"
	"testing"
	"unicode/utf8"

	"github.com/ollama/ollama/server/internal/internal/names"
	"github.com/ollama/ollama/types/model"
	"github.com/ollama/ollama/zzverif"
)

func c13DigestCase(out *zzverif.Out, c *DiskCache, s string) {
	op := "digest " + zzverif.Hex([]byte(s))
	d, err := ParseDigest(s)
	out.Count("cases")
	if err != nil {
		out.Case(op, "err")
		out.Count("digest_rejected")
		if d != (Digest{}) {
			out.L2("digest-error-nonzero", op, "error with a non-zero digest")
		}
		return
	}
	out.Count("digest_accepted")
	out.Case(op, fmt.Sprintf("ok %s %s", zzverif.Hex(d.sum[:]), zzverif.Hex([]byte(d.String()))))
	// the blob path of an accepted digest: <dir>/blobs/sha256-<64 lower hex>
	p := c.GetFile(d)
	out.Case("getfile "+zzverif.Hex([]byte(c.dir))+" "+zzverif.Hex(d.sum[:]), zzverif.Hex([]byte(p)))
	if why := zzverif.C13Confined(c.dir, "blobs", p, 1); why != "" {
		out.L2("blob-path-escapes", op, why+" path="+zzverif.Hex([]byte(p)))
	}
	base := filepath.Base(p)
	if len(base) != 7+64 || !strings.HasPrefix(base, "sha256-") || strings.ToLower(base) != base {
		out.L2("blob-path-shape", op, "file name "+base)
	}
	if _, err := hex.DecodeString(base[7:]); err != nil {
		out.L2("blob-path-shape", op, "file name "+base)
	}
	// round trip: String() parses back to the same digest; both separator spellings and both
	// hex cases are the same digest
	if again, err := ParseDigest(d.String()); err != nil || again != d {
		out.L2("digest-roundtrip", op, "ParseDigest(String()) differs")
	}
}

// c13P2NCase ties blob.pathToName (what DiskCache.Links yields for a link path) to the model.
func c13P2NCase(out *zzverif.Out, s string) string {
	nm := pathToName(s)
	out.Case("p2n "+zzverif.Hex([]byte(s)), zzverif.Hex([]byte(nm)))
	out.Count("cases")
	out.Count("p2n_cases")
	return nm
}

// c13LinksCheck: DiskCache.Links() against an independent walk of the directory: Links yields pathToName of every
// link in listing order (L2 links-vs-walk); a yielded name that is a valid name is read back to an EXISTING manifest,
// namely the canonical (first) one among its case twins (L2 links-name-dangling).
func c13LinksCheck(out *zzverif.Out, c *DiskCache, listing []string, op string) {
	var got []string
	for nm, err := range c.Links() {
		if err != nil {
			out.L2("links-vs-walk", op, "Links(): "+err.Error())
			return
		}
		got = append(got, nm)
	}
	var want []string
	for _, l := range listing {
		if !utf8.ValidString(filepath.Dir(l)) {
			out.Count("links_invalid_utf8_dir_skipped")
			continue // io/fs refuses to open a directory whose path is not valid UTF-8: fs.Glob cannot descend into it
		}
		if !utf8.ValidString(l) {
			out.Count("links_invalid_utf8_leaf") // ... but it reports such a FILE name (it never opens it)
		}
		want = append(want, c13P2NCase(out, l))
	}
	out.Count("links_checks")
	if strings.Join(got, "\x00") != strings.Join(want, "\x00") {
		out.L2("links-vs-walk", op, fmt.Sprintf("Links() = %q, walk + pathToName = %q", got, want))
		return
	}
	for _, nm := range got {
		if _, err := nameToPath(nm); err != nil {
			continue
		}
		out.Count("links_names_valid")
		p, err := c.manifestPath(nm)
		if err != nil {
			out.L2("links-name-dangling", op, fmt.Sprintf("Links() yields %q, manifestPath: %v", nm, err))
		} else if _, serr := os.Stat(p); serr != nil {
			out.L2("links-name-dangling", op, fmt.Sprintf("Links() yields %q, which addresses the missing file %s", nm, p))
		}
	}
}

type c13Cache struct {
	c     *DiskCache
	links []string
}

func c13ManifestCase(out *zzverif.Out, cc *c13Cache, s string) (string, bool) {
	c := cc.c
	np, nerr := nameToPath(s)
	if nerr != nil {
		out.Case("n2p "+zzverif.Hex([]byte(s)), "err")
	} else {
		out.Case("n2p "+zzverif.Hex([]byte(s)), "ok "+zzverif.Hex([]byte(np)))
	}
	var sb strings.Builder
	fmt.Fprintf(&sb, "mfpath %s %d", zzverif.Hex([]byte(c.dir)), len(cc.links))
	for _, l := range cc.links {
		sb.WriteString(" " + zzverif.Hex([]byte(l)))
	}
	sb.WriteString(" " + zzverif.Hex([]byte(s)))
	op := sb.String()
	p, err := c.manifestPath(s)
	out.Count("cases")
	if err != nil {
		out.Case(op, "err")
		out.Count("manifest_rejected")
		if nerr == nil {
			out.L2("manifestpath-vs-nametopath", op, "manifestPath failed for a name nameToPath accepts")
		}
		return "", false
	}
	out.Case(op, "ok "+zzverif.Hex([]byte(p)))
	out.Count("manifest_accepted")
	if why := zzverif.C13Confined(c.dir, "manifests", p, 4); why != "" {
		out.L2("manifest-path-escapes", op, why+" path="+zzverif.Hex([]byte(p)))
	}
	// a path the cache would CREATE (not an existing, possibly foreign, link) must be readable by the legacy
	// store: model.ParseNameFromFilepath gives a valid name with exactly these four parts
	rel := strings.TrimPrefix(p, filepath.Join(c.dir, "manifests")+"/")
	isLink := false
	for _, l := range cc.links {
		if l == "manifests/"+rel {
			isLink = true
		}
	}
	// the name Links() would print for this path (L1), read back to the same path when the cache itself creates it
	listed := c13P2NCase(out, "manifests/"+rel)
	if !isLink {
		if back, err := nameToPath(listed); err != nil || back != np {
			out.L2("links-name-roundtrip", "n2p "+zzverif.Hex([]byte(s)), fmt.Sprintf("nameToPath(pathToName(manifests/%s)) = %q, %v; want %q", rel, back, err, np))
		}
	}
	if !isLink {
		out.Count("reparse_checked")
		if n := model.ParseNameFromFilepath(rel); !n.IsValid() || n.Filepath() != rel {
			out.L2("manifest-path-not-reparseable", "n2p "+zzverif.Hex([]byte(s)), "model.ParseNameFromFilepath rejects "+zzverif.Hex([]byte(rel)))
		}
	}
	return p, true
}

// c13LinksArg renders the on-disk listing for the oracle.
func c13LinksArg(cc *c13Cache) string {
	var sb strings.Builder
	fmt.Fprintf(&sb, "%s %d", zzverif.Hex([]byte(cc.c.dir)), len(cc.links))
	for _, l := range cc.links {
		sb.WriteString(" " + zzverif.Hex([]byte(l)))
	}
	return sb.String()
}

// c13ResolveCase ties the addressing part of DiskCache.Resolve (splitNameDigest, then a digest or a manifest
// file) to the model and checks that what Resolve reports is consistent with it.
func c13ResolveCase(out *zzverif.Out, cc *c13Cache, s string) {
	name, digest := splitNameDigest(s)
	out.Case("snd "+zzverif.Hex([]byte(s)), zzverif.Hex([]byte(name))+" "+zzverif.Hex([]byte(digest)))
	op := "resolve " + c13LinksArg(cc) + " " + zzverif.Hex([]byte(s))
	out.Count("cases")
	d, rerr := cc.c.Resolve(s)
	if digest != "" {
		pd, err := ParseDigest(digest)
		if err != nil {
			out.Case(op, "invalid")
			if rerr == nil {
				out.L2("resolve-accepts-bad-digest", op, "Resolve succeeded")
			}
			out.Count("resolve_invalid")
			return
		}
		out.Case(op, "digest "+zzverif.Hex(pd.sum[:]))
		out.Count("resolve_digest")
		if rerr != nil || d != pd {
			out.L2("resolve-digest-differs", op, fmt.Sprint(rerr))
		}
		return
	}
	p, err := cc.c.manifestPath(name)
	if err != nil {
		out.Case(op, "invalid")
		out.Count("resolve_invalid")
		if !errors.Is(rerr, errInvalidName) {
			out.L2("resolve-accepts-invalid-name", op, fmt.Sprint(rerr))
		}
		return
	}
	out.Case(op, "manifest "+zzverif.Hex([]byte(p)))
	out.Count("resolve_manifest")
	if errors.Is(rerr, errInvalidName) {
		out.L2("resolve-rejects-valid-name", op, "manifestPath accepted it")
	}
	if why := zzverif.C13Confined(cc.c.dir, "manifests", p, 4); why != "" {
		out.L2("manifest-path-escapes", op, why+" path="+zzverif.Hex([]byte(p)))
	}
	// Resolve succeeds exactly when the addressed file exists (and then it is a file under manifests/)
	if _, serr := os.Stat(p); (serr == nil) != (rerr == nil) {
		if !(serr == nil && rerr != nil && strings.Contains(rerr.Error(), "name too long")) {
			out.L2("resolve-vs-file", op, fmt.Sprintf("stat: %v resolve: %v", serr, rerr))
		}
	}
}

var c13Mask = names.Parse("registry.ollama.ai/library/_:latest")

// c13ExtCase: an extended name the way the registry client treats it (names.Split, Merge with the mask,
// IsFullyQualified, then String() handed to the cache) must resolve inside <dir>/manifests at depth 4.
func c13ExtCase(out *zzverif.Out, cc *c13Cache, s string) {
	_, name, _ := names.Split(s)
	n := names.Merge(names.Parse(name), c13Mask)
	if !n.IsFullyQualified() {
		out.Count("ext_rejected")
		return
	}
	out.Count("ext_to_cache")
	if _, ok := c13ManifestCase(out, cc, n.String()); !ok {
		out.L2("cache-rejects-printed-name", "n2p "+zzverif.Hex([]byte(n.String())), "from extended name "+zzverif.Hex([]byte(s)))
	}
}

func c13FoldCase(out *zzverif.Out, a, l string) {
	out.Case("fold "+zzverif.Hex([]byte(a))+" "+zzverif.Hex([]byte(l)), zzverif.C13Bool(strings.EqualFold(a, l)))
	out.Count("cases")
	out.Count("fold_direct")
}

// c13Foreign returns a spelling of the relative link path l that is NOT ASCII but may still be EqualFold to it:
// k/K -> KELVIN SIGN, s/S -> LONG S, or (never fold-equal) a letter replaced by e-acute / an invalid byte.
func c13Foreign(r *zzverif.Rng, l string) string {
	var sb strings.Builder
	for i := 0; i < len(l); i++ {
		c := l[i]
		switch {
		case (c == 'k' || c == 'K') && r.Chance(2, 3):
			sb.WriteString("\u212a")
		case (c == 's' || c == 'S') && r.Chance(2, 3):
			sb.WriteString("\u017f")
		case c != '/' && r.Chance(1, 40):
			sb.WriteString(zzverif.Pick(r, []string{"\u00e9", "\xff", "\xe2\x84", "\u212b"}))
		default:
			sb.WriteByte(c)
		}
	}
	return sb.String()
}

// ---------------------------------------------------------------------------------------------
// histories: a sequence of operations on ONE DiskCache interleaved with foreign writers of the
// shared manifests directory.

type c13HOp struct{ code, arg string }

// c13Walk lists manifests/a/b/c/d below dir WITHOUT going through the cache (os.ReadDir, which sorts
// each level by entry name: the order fs.Glob produces).
func c13Walk(dir string) []string {
	var out []string
	var rec func(rel string, depth int)
	rec = func(rel string, depth int) {
		ents, err := os.ReadDir(filepath.Join(dir, rel))
		if err != nil {
			return
		}
		for _, e := range ents {
			r := rel + "/" + e.Name()
			if depth == 4 {
				out = append(out, r)
			} else if e.IsDir() {
				rec(r, depth+1)
			}
		}
	}
	rec("manifests", 1)
	return out
}

func c13HistLine(init []string, ops []c13HOp) string {
	var sb strings.Builder
	fmt.Fprintf(&sb, "hist %d", len(init))
	for _, l := range init {
		sb.WriteString(" " + zzverif.Hex([]byte(l)))
	}
	fmt.Fprintf(&sb, " %d", len(ops))
	for _, o := range ops {
		sb.WriteString(" " + o.code + " " + zzverif.Hex([]byte(o.arg)))
	}
	return sb.String()
}

// c13Spellings: the name, all-lower and all-upper, changing ASCII letters only (strings.ToUpper would turn a
// LONG S into S, which is a different name, not another spelling).
func c13Spellings(s string) []string {
	lo, up := []byte(s), []byte(s)
	for i, c := range []byte(s) {
		if c >= 'A' && c <= 'Z' {
			lo[i] = c + 32
		} else if c >= 'a' && c <= 'z' {
			up[i] = c - 32
		}
	}
	return []string{s, string(lo), string(up)}
}

// c13History runs one history on a fresh cache directory and records L1 (the path every cache call resolves
// to, whether that file existed, and the final listing) and the L2 history clauses.
func c13History(t *testing.T, out *zzverif.Out, init []string, ops []c13HOp) {
	dir := t.TempDir()
	c, err := Open(dir)
	if err != nil {
		t.Fatal(err)
	}
	op := c13HistLine(init, ops)
	foreign := map[string]bool{}
	write := func(rel, content string) {
		p := filepath.Join(dir, rel)
		if err := os.MkdirAll(filepath.Dir(p), 0o755); err == nil {
			if os.WriteFile(p, []byte(content), 0o644) == nil {
				foreign[rel] = true
			}
		}
	}
	for i, l := range init {
		write(l, fmt.Sprintf("init-%d", i))
	}
	exists := func(p string) bool { _, err := os.Stat(p); return err == nil }
	var res []string
	var pool []string
	// born: for every manifest file now on disk, at which step it appeared and whether a foreign writer made it
	type birth struct {
		step    int
		foreign bool
	}
	born := map[string]birth{}
	step := -1
	track := func(byForeign bool) []string {
		listing := c13Walk(dir)
		now := map[string]bool{}
		for _, l := range listing {
			now[l] = true
			if _, ok := born[l]; !ok {
				born[l] = birth{step, byForeign}
			}
		}
		for l := range born {
			if !now[l] {
				delete(born, l)
			}
		}
		return listing
	}
	track(true)
	record := func(p string, err error, existed bool) {
		if err != nil {
			res = append(res, "!-")
			return
		}
		rel := strings.TrimPrefix(p, dir+"/")
		if existed {
			res = append(res, zzverif.Hex([]byte(rel))+"+")
		} else {
			res = append(res, zzverif.Hex([]byte(rel))+"-")
		}
	}
	for i, o := range ops {
		out.Count("hist_op_" + o.code)
		step = i
		switch o.code {
		case "R":
			p, err := c.manifestPath(o.arg)
			existed := err == nil && exists(p)
			record(p, err, existed)
			_, rerr := c.Resolve(o.arg)
			if err == nil && (rerr == nil) != existed {
				out.L2("hist-resolve-vs-file", op, fmt.Sprintf("step %d: file exists=%v but Resolve: %v", i, existed, rerr))
			}
			pool = append(pool, o.arg)
		case "L":
			p, err := c.manifestPath(o.arg)
			existed := err == nil && exists(p)
			record(p, err, existed)
			content := fmt.Sprintf("manifest-%d", i)
			d := DigestFromBytes(content)
			if perr := PutBytes(c, d, content); perr != nil {
				t.Fatal(perr)
			}
			lerr := c.Link(o.arg, d)
			if (err == nil) != (lerr == nil) {
				out.L2("hist-link-vs-path", op, fmt.Sprintf("step %d: manifestPath err=%v Link err=%v", i, err, lerr))
			}
			if lerr == nil {
				if got, rerr := c.Resolve(o.arg); rerr != nil || got != d {
					out.L2("hist-link-not-visible", op, fmt.Sprintf("step %d: Resolve after Link: %v", i, rerr))
				}
			}
			pool = append(pool, o.arg)
		case "U":
			p, err := c.manifestPath(o.arg)
			existed := err == nil && exists(p)
			record(p, err, existed)
			ok, uerr := c.Unlink(o.arg)
			if err == nil && (uerr != nil || ok != existed) {
				out.L2("hist-unlink-vs-file", op, fmt.Sprintf("step %d: existed=%v Unlink=%v,%v", i, existed, ok, uerr))
			}
			if err == nil && ok {
				delete(foreign, strings.TrimPrefix(p, dir+"/"))
			}
			pool = append(pool, o.arg)
		case "W":
			write(o.arg, fmt.Sprintf("foreign-%d", i))
			track(true)
			continue
		case "X":
			if os.Remove(filepath.Join(dir, o.arg)) == nil {
				delete(foreign, o.arg)
			}
			track(true)
			continue
		}
		// L2 after every cache call, on the real directory (independent walk):
		listing := track(false)
		// (a) no two manifests differ only by case unless a foreign writer created the twin, i.e. the
		//     LATER of the two files must not have been created by the cache
		for a := 0; a < len(listing); a++ {
			for b := a + 1; b < len(listing); b++ {
				if !strings.EqualFold(listing[a], listing[b]) {
					continue
				}
				later := born[listing[a]]
				if bb := born[listing[b]]; bb.step > later.step {
					later = bb
				}
				out.Count("hist_twins_seen")
				if !later.foreign {
					out.L2("hist-case-twin-created", op, fmt.Sprintf("step %d: the cache created a case twin: %q and %q", i, listing[a], listing[b]))
				}
			}
		}
		// (c) Links() against the independent walk, and its names read back
		c13LinksCheck(out, c, listing, op)
		// (b) every spelling of every name used so far — the three generic ones AND every spelling that
		//     exists on disk — resolves to the same file (or none does)
		for _, nm := range pool {
			np, nerr := nameToPath(nm)
			sps := c13Spellings(nm)
			if nerr == nil {
				for _, l := range listing {
					if strings.EqualFold(l, "manifests/"+np) {
						if q := strings.Split(strings.TrimPrefix(l, "manifests/"), "/"); len(q) == 4 {
							sps = append(sps, q[0]+"/"+q[1]+"/"+q[2]+":"+q[3])
						}
					}
				}
			}
			var first string
			generic := len(c13Spellings(nm))
			for k, sp := range sps {
				if _, err := nameToPath(sp); (err == nil) != (nerr == nil) {
					if k < generic { // the name itself, its lower- and upper-case forms: ASCII case never changes acceptance
						out.L2("fold-acceptance", "n2p "+zzverif.Hex([]byte(sp)), fmt.Sprintf("step %d: %q accepted=%v but its case variant %q accepted=%v", i, nm, nerr == nil, sp, err == nil))
					}
					continue // an on-disk foreign spelling that is not itself a valid name (KELVIN SIGN …)
				}
				d, rerr := c.Resolve(sp)
				obs := "err"
				if rerr == nil {
					obs = d.String()
				} else if errors.Is(rerr, errInvalidName) {
					obs = "invalid"
				}
				if k == 0 {
					first = obs
				} else if obs != first {
					out.L2("hist-spellings-disagree", op, fmt.Sprintf("step %d: %q -> %s but %q -> %s", i, nm, first, sp, obs))
				}
			}
			out.Count("hist_spelling_checks")
		}
	}
	listing := c13Walk(dir)
	hl := make([]string, len(listing))
	for i, l := range listing {
		hl[i] = zzverif.Hex([]byte(l))
	}
	out.Case(op, strings.Join(res, ",")+" disk="+strings.Join(hl, ","))
	out.Count("cases")
	out.Count("histories")
}

// c13GenHistory draws a history over a small pool of fully qualified names in random case spellings.
func c13GenHistory(r *zzverif.Rng) (init []string, ops []c13HOp) {
	letters := "kKsSaAbBxX"
	part := func() string {
		n := r.Range(1, 3)
		b := make([]byte, n)
		for i := range b {
			b[i] = letters[r.Intn(len(letters))]
		}
		if r.Chance(1, 6) {
			b = append(b, zzverif.Pick(r, []byte{'1', '-', '_', '.'}))
			b = append(b, 'z')
		}
		return string(b)
	}
	var base []string
	for k := r.Range(1, 3); k > 0; k-- {
		base = append(base, part()+"/"+part()+"/"+part()+":"+part())
	}
	if len(base) > 1 && r.Chance(1, 3) { // same host/namespace, so directories are shared
		a := strings.SplitN(base[0], "/", 3)
		base[1] = a[0] + "/" + a[1] + "/" + part() + ":" + part()
	}
	rel := func(nm string) string {
		np, err := nameToPath(nm)
		if err != nil {
			return "manifests/x/x/x/x"
		}
		return "manifests/" + np
	}
	name := func() string {
		nm := c13Variant(r, zzverif.Pick(r, base))
		if r.Chance(1, 12) {
			nm = zzverif.C13Mutate(r, nm)
		}
		return nm
	}
	for k := r.Intn(3); k > 0; k-- {
		init = append(init, rel(c13Variant(r, zzverif.Pick(r, base))))
	}
	n := r.Range(3, 12)
	for i := 0; i < n; i++ {
		switch r.Intn(20) {
		case 0, 1, 2, 3, 4:
			ops = append(ops, c13HOp{"R", name()})
		case 5, 6, 7, 8, 9:
			ops = append(ops, c13HOp{"L", name()})
		case 10, 11, 12:
			ops = append(ops, c13HOp{"U", name()})
		case 13, 14, 15, 16, 17:
			l := rel(c13Variant(r, zzverif.Pick(r, base)))
			if r.Chance(1, 10) {
				l = c13Foreign(r, l[len("manifests/"):])
				l = "manifests/" + l
			}
			ops = append(ops, c13HOp{"W", l})
		default:
			ops = append(ops, c13HOp{"X", rel(c13Variant(r, zzverif.Pick(r, base)))})
		}
	}
	return init, ops
}

func c13ParseHistory(f []string) (init []string, ops []c13HOp, ok bool) {
	// f = ["hist", n, link*, k, {code arg}*]
	var n, k int
	if len(f) < 3 {
		return nil, nil, false
	}
	fmt.Sscan(f[1], &n)
	if len(f) < 3+n {
		return nil, nil, false
	}
	for _, l := range f[2 : 2+n] {
		init = append(init, string(zzverif.Unhex(l)))
	}
	fmt.Sscan(f[2+n], &k)
	rest := f[3+n:]
	if len(rest) != 2*k {
		return nil, nil, false
	}
	for i := 0; i < k; i++ {
		ops = append(ops, c13HOp{rest[2*i], string(zzverif.Unhex(rest[2*i+1]))})
	}
	return init, ops, true
}

// c13FoldFamily: the DIRECTED family "every string that strings.EqualFold maps onto a default part or onto a stored
// spelling": for each base part, every single-character substitution by a simple-fold partner (LONG S for s/S, KELVIN
// SIGN for k/K, the other letter case), placed in host, namespace, model and tag position of an otherwise default name,
// in fully written and in abbreviated (defaults merged in) form.  f gets the name string and its four intended parts.
func c13FoldFamily(f func(name string, parts [4]string, pos int)) {
	bases := []string{"registry.ollama.ai", "library", "latest", "mistral", "Phi-3.5k", "ks", "_sk", "K"}
	def := [4]string{"registry.ollama.ai", "library", "m", "latest"}
	seen := map[string]bool{}
	for _, b := range bases {
		var variants []string
		for i := 0; i < len(b); i++ {
			c := b[i]
			var subs []string
			switch {
			case c == 's' || c == 'S':
				subs = append(subs, "\u017f")
			case c == 'k' || c == 'K':
				subs = append(subs, "\u212a")
			}
			if c >= 'a' && c <= 'z' || c >= 'A' && c <= 'Z' {
				subs = append(subs, string([]byte{c ^ 0x20}))
			}
			for _, sub := range subs {
				variants = append(variants, b[:i]+sub+b[i+1:])
			}
		}
		variants = append(variants, b, strings.ToUpper(b))
		for _, v := range variants {
			for pos := 0; pos < 4; pos++ {
				p := def
				p[pos] = v
				full := p[0] + "/" + p[1] + "/" + p[2] + ":" + p[3]
				names := []string{full}
				switch pos { // abbreviated forms in which the other parts come from the defaults
				case 1:
					names = append(names, p[1]+"/"+p[2])
				case 2:
					names = append(names, p[2], p[2]+":"+p[3])
				case 3:
					names = append(names, p[2]+":"+p[3])
				}
				for _, nm := range names {
					if !seen[nm] {
						seen[nm] = true
						f(nm, p, pos)
					}
				}
			}
		}
	}
}

// c13Variant returns s with the case of every letter chosen at random.
func c13Variant(r *zzverif.Rng, s string) string {
	b := []byte(s)
	for i, c := range b {
		if (c >= 'a' && c <= 'z' || c >= 'A' && c <= 'Z') && r.Bool() {
			b[i] = c ^ 0x20
		}
	}
	return string(b)
}

func c13FQName(r *zzverif.Rng) string {
	ln := func(k int) int {
		if r.Chance(1, 8) {
			return zzverif.C13PartLen(r, k)
		}
		return r.Range(1, 6)
	}
	return zzverif.C13Part(r, 0, ln(0)) + "/" + zzverif.C13Part(r, 1, ln(1)) + "/" + zzverif.C13Part(r, 2, ln(2)) + ":" + zzverif.C13Part(r, 3, ln(3))
}

// c13RawLinks: relative link paths (h/n/m/t, any bytes) to create in the next c13NewCache besides the names.
var c13RawLinks []string

func c13NewCache(t *testing.T, r *zzverif.Rng, names []string) *c13Cache {
	dir := t.TempDir()
	c, err := Open(dir)
	if err != nil {
		t.Fatal(err)
	}
	for _, n := range names {
		np, err := nameToPath(n)
		if err != nil {
			continue
		}
		p := filepath.Join(dir, "manifests", np)
		if err := os.MkdirAll(filepath.Dir(p), 0o755); err != nil {
			continue // over-long component for the file system
		}
		os.WriteFile(p, []byte("{}"), 0o644)
	}
	for _, raw := range c13RawLinks {
		p := filepath.Join(dir, "manifests", raw)
		if err := os.MkdirAll(filepath.Dir(p), 0o755); err == nil {
			os.WriteFile(p, []byte("{}"), 0o644)
		}
	}
	c13RawLinks = nil
	cc := &c13Cache{c: c}
	for l, err := range c.links() {
		if err != nil {
			t.Fatal(err)
		}
		cc.links = append(cc.links, l)
	}
	return cc
}

func TestVerifC13(t *testing.T) {
	out := zzverif.NewOut()
	defer out.Close()
	root := zzverif.NewRng(zzverif.Seed() + 2000)
	empty := c13NewCache(t, root.Fork(), nil)
	if rp := os.Getenv("VERIF_REPLAY"); rp != "" {
		b, _ := os.ReadFile(rp)
		f := strings.Fields(strings.TrimSpace(string(b)))
		switch {
		case len(f) == 2 && f[0] == "digest":
			c13DigestCase(out, empty.c, string(zzverif.Unhex(f[1])))
		case len(f) == 2 && f[0] == "n2p":
			c13ManifestCase(out, empty, string(zzverif.Unhex(f[1])))
		case len(f) >= 3 && f[0] == "hist":
			if init, ops, ok := c13ParseHistory(f); ok {
				c13History(t, out, init, ops)
			}
		case len(f) == 2 && f[0] == "p2n":
			c13P2NCase(out, string(zzverif.Unhex(f[1])))
		case len(f) == 2 && f[0] == "snd":
			c13ResolveCase(out, empty, string(zzverif.Unhex(f[1])))
		case len(f) == 3 && f[0] == "fold":
			c13FoldCase(out, string(zzverif.Unhex(f[1])), string(zzverif.Unhex(f[2])))
		case len(f) >= 4 && f[0] == "resolve":
			for _, l := range f[3 : len(f)-1] {
				c13RawLinks = append(c13RawLinks, strings.TrimPrefix(string(zzverif.Unhex(l)), "manifests/"))
			}
			c13ResolveCase(out, c13NewCache(t, root.Fork(), nil), string(zzverif.Unhex(f[len(f)-1])))
		case len(f) >= 4 && f[0] == "mfpath":
			// rebuild the links of the recorded case in a fresh cache directory
			for _, l := range f[3 : len(f)-1] {
				c13RawLinks = append(c13RawLinks, strings.TrimPrefix(string(zzverif.Unhex(l)), "manifests/"))
			}
			c13ManifestCase(out, c13NewCache(t, root.Fork(), nil), string(zzverif.Unhex(f[len(f)-1])))
		}
		return
	}
	// regression corpus (histories)
	if b, err := os.ReadFile(os.Getenv("VERIF_CORPUS")); err == nil {
		for _, l := range strings.Split(string(b), "\n") {
			if f := strings.Fields(l); len(f) >= 3 && f[0] == "hist" {
				if init, ops, ok := c13ParseHistory(f); ok {
					c13History(t, out, init, ops)
					out.Count("corpus")
				}
			}
		}
	}
	// histories on one DiskCache with foreign writers
	hroot := zzverif.NewRng(zzverif.Seed() + 2500)
	for i := zzverif.EnvInt("VERIF_HIST", 300); i > 0; i-- {
		init, ops := c13GenHistory(hroot.Fork())
		c13History(t, out, init, ops)
	}
	// digests
	zzverif.C13Exhaustive(zzverif.C13Alphabet, zzverif.EnvInt("VERIF_EXH", 3), func(s string) {
		c13DigestCase(out, empty.c, s)
		c13DigestCase(out, empty.c, "sha256"+s)
		out.Count("exhaustive_digest")
	})
	n := zzverif.EnvInt("VERIF_N", 3000)
	for i := 0; i < n; i++ {
		r := root.Fork()
		class, s := zzverif.C13Digest(r)
		out.Count("digest_class_" + class)
		c13DigestCase(out, empty.c, s)
	}
	// pathToName on arbitrary strings (with and without the manifests/ prefix, multi-byte and invalid UTF-8)
	p2nAlpha := []byte{'/', ':', 'a', 'B', '.', 0x80, 0xFF, 0xC5, 0xBF, 0xE2}
	zzverif.C13Exhaustive(p2nAlpha, zzverif.EnvInt("VERIF_EXH", 3)+1, func(s string) {
		c13P2NCase(out, s)
		c13P2NCase(out, "manifests/"+s)
		c13P2NCase(out, "manifests/h/n/"+s)
		out.Count("exhaustive_p2n")
	})
	for _, pre := range []string{"", "manifests", "manifests/", "manifests//", "Manifests/", "manifests/manifests/", "/manifests/"} {
		for _, body := range []string{"", "a", "/", "a/b", "a/b/c/d", "/a", "é/b", "\xe2\x84\xaa/K/\u017f/\xc5", "\xf0\x9f\x98\x80/\xf0\x9f\x98", "\xed\xa0\x80/x", "\xe0\x80\x80/x", "\xf4\x90\x80\x80/x", "\xc0\xaf/x", "\xef\xbf\xbd/x"} {
			c13P2NCase(out, pre+body)
		}
	}
	// names against an empty cache
	zzverif.C13Exhaustive(zzverif.C13Alphabet, zzverif.EnvInt("VERIF_EXH", 3), func(s string) {
		c13ManifestCase(out, empty, s)
		c13ManifestCase(out, empty, "h/n/"+s)
		out.Count("exhaustive_name")
	})
	for i := 0; i < n; i++ {
		r := root.Fork()
		class, s := zzverif.C13Name(r)
		out.Count("name_class_" + class)
		c13ManifestCase(out, empty, s)
	}
	// directed fold family against an empty cache and against a cache that stores the plain spellings
	stored := c13NewCache(t, root.Fork(), []string{"registry.ollama.ai/library/m:latest", "registry.ollama.ai/library/mistral:latest",
		"registry.ollama.ai/library/Phi-3.5k:latest", "registry.ollama.ai/ks/m:latest"})
	c13FoldFamily(func(nm string, parts [4]string, pos int) {
		c13ManifestCase(out, empty, nm)
		c13ExtCase(out, stored, nm)
		c13ResolveCase(out, stored, nm)
		// what types/model accepts and prints, the cache must accept (same name, same path)
		if o := model.ParseName(nm); o.IsValid() {
			if _, ok := c13ManifestCase(out, stored, o.String()); !ok {
				out.L2("cache-rejects-model-name", "n2p "+zzverif.Hex([]byte(o.String())), "types/model accepts and prints it, DiskCache rejects it")
			}
		}
		out.Count("fold_family")
	})
	// valid multi-byte characters inside otherwise valid names (one code point per low byte and encoded length)
	for low := 0; low < 256; low++ {
		for _, base := range []int{0x100, 0x4E00, 0x1F600 - 0x1F600%256} {
			ch := string(rune(base + low))
			c13ManifestCase(out, empty, "h/n/"+ch+":t")
			c13ManifestCase(out, empty, "h/n/m"+ch+":t")
			out.Count("utf8_names")
		}
	}
	if b, err := os.ReadFile(os.Getenv("VERIF_WITNESS")); err == nil {
		for _, l := range strings.Split(string(b), "\n") {
			if f := strings.Fields(l); len(f) == 2 && f[0] == "n2p" {
				c13ManifestCase(out, empty, string(zzverif.Unhex(f[1])))
				out.Count("tie_witness")
			}
		}
	}
	// caches with links on disk: case twins must resolve to the same existing file
	scen := n / 100
	if scen < 8 {
		scen = 8
	}
	for i := 0; i < scen; i++ {
		r := root.Fork()
		var names []string
		for k := r.Range(1, 6); k > 0; k-- {
			nm := c13FQName(r)
			names = append(names, nm)
			if r.Chance(1, 3) { // a case twin on disk as well (case-sensitive file system)
				names = append(names, c13Variant(r, nm))
			}
			if r.Chance(1, 3) { // same model, other tag / other namespace
				names = append(names, nm+"x", "x"+nm)
			}
		}
		// foreign spellings of some of the links (KELVIN SIGN, LONG S, other non-ASCII, invalid UTF-8)
		for _, nm := range names {
			if r.Chance(1, 2) {
				if np, err := nameToPath(nm); err == nil {
					c13RawLinks = append(c13RawLinks, c13Foreign(r, c13Variant(r, np)))
					out.Count("foreign_links_requested")
				}
			}
		}
		cc := c13NewCache(t, r, names)
		out.Add("links_on_disk", len(cc.links))
		for _, l := range cc.links {
			if strings.IndexFunc(l, func(c rune) bool { return c >= 0x80 }) >= 0 {
				out.Count("links_non_ascii")
			}
		}
		for _, nm := range names {
			p0, ok0 := c13ManifestCase(out, cc, nm)
			for k := 0; k < 4; k++ {
				v := c13Variant(r, nm)
				p1, ok1 := c13ManifestCase(out, cc, v)
				out.Count("fold_pairs")
				if ok0 != ok1 {
					out.L2("fold-acceptance", "n2p "+zzverif.Hex([]byte(v)), "case variant accepted differently from "+nm)
					continue
				}
				if !ok0 {
					continue
				}
				// a manifest for nm (or a twin) exists on disk, so both must address that file
				_, err := os.Stat(p0)
				if err == nil && p0 != p1 {
					out.L2("fold-different-path", "n2p "+zzverif.Hex([]byte(v)), fmt.Sprintf("%q -> %s but %q -> %s", nm, p0, v, p1))
				}
				if err == nil {
					out.Count("fold_pairs_existing")
				}
			}
			// unrelated / mutated name
			c13ManifestCase(out, cc, zzverif.C13Mutate(r, nm))
			// Resolve: plain, with a digest, mutated
			c13ResolveCase(out, cc, c13Variant(r, nm))
			c13ResolveCase(out, cc, nm+"@"+zzverif.C13ValidDigest(r))
			c13ResolveCase(out, cc, zzverif.C13Mutate(r, nm+"@"+zzverif.C13ValidDigest(r)))
			// extended forms as the registry client accepts them
			ext := zzverif.Pick(r, []string{"", "http://", "https://", "https+insecure://", "x://"}) + c13Variant(r, nm)
			if r.Bool() {
				ext += "@" + zzverif.C13ValidDigest(r)
			}
			c13ExtCase(out, cc, ext)
			c13ExtCase(out, cc, zzverif.C13Mutate(r, ext))
		}
		for k := 0; k < 6; k++ {
			_, s := zzverif.C13Name(r)
			c13ResolveCase(out, cc, s)
			c13ExtCase(out, cc, s)
		}
	}
	// strings.EqualFold against the model, directly: ASCII left operand, arbitrary right operand
	aTok := []string{"k", "K", "s", "S", "a", "/", "1"}
	lTok := []string{"k", "K", "s", "S", "a", "A", "/", "1", "\u212a", "\u017f", "\xe2", "\x84", "\xaa", "\xc5", "\xbf", "\u00e9", "\xff"}
	var seqs func(tok []string, n int, f func(string))
	seqs = func(tok []string, n int, f func(string)) {
		f("")
		if n == 0 {
			return
		}
		for _, t := range tok {
			seqs(tok, n-1, func(rest string) { f(t + rest) })
		}
	}
	lMax := 2
	if os.Getenv("VERIF_TIER") == "thorough" {
		lMax = 3
	}
	seen := map[string]bool{}
	seqs(aTok, 2, func(a string) {
		if seen[a] {
			return
		}
		seen[a] = true
		seenL := map[string]bool{}
		seqs(lTok, lMax, func(l string) {
			if !seenL[l] {
				seenL[l] = true
				c13FoldCase(out, a, l)
			}
		})
	})
	for _, s := range []string{"a@", "@", "a@b@c", "h/n/m:t@sha256:" + strings.Repeat("0", 64), "@sha256-" + strings.Repeat("A", 64)} {
		c13ResolveCase(out, empty, s)
	}
	zzverif.C13Exhaustive(zzverif.C13Alphabet, 2, func(s string) {
		c13ResolveCase(out, empty, s)
		c13ResolveCase(out, empty, "h/n/m:t"+s)
	})
}
