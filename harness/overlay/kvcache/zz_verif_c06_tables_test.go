package kvcache

// C06 Tie 1 — decision tables regenerated from the tree on every run.
//
// The real code is executed over the whole of a small finite domain for each cell-level decision the
// property hinges on (mask bit, window eviction, Remove's per-cell outcome, CopyPrefix's owner update,
// placement by StartForward).  The check turns tables.txt into lean/OllamaVerif/Generated/C06_Tables.lean;
// Tie/C06.lean proves by `decide` that the Lean model takes the same decision on every row.  Only public
// methods are called; the cache state (cells, cellRanges) is set up directly.

import (
	"fmt"
	"math"
	"os"
	"strings"
	"testing"

	"github.com/ollama/ollama/ml"
	"github.com/ollama/ollama/model/input"
	"github.com/ollama/ollama/zzverif"
)

func vtCache(window int32, ncells int) (*Causal, *vfBackend) {
	backend := &vfBackend{cfg: ml.CacheConfig{CachePadding: 1, MaskBatchPadding: 1}, maxNodes: 8192}
	var c *Causal
	if window == math.MaxInt32 {
		c = NewCausalCache(vfShift)
	} else {
		c = NewSWACache(window, vfShift)
	}
	c.Init(backend, ml.DTypeF16, 1, ncells, 1)
	c.cells = make([]cacheCell, ncells)
	return c, backend
}

func vtSetRanges(c *Causal) {
	c.cellRanges = map[int]cellRange{}
	for i, cell := range c.cells {
		for _, s := range cell.sequences {
			r, ok := c.cellRanges[s]
			if !ok {
				r = newRange()
			}
			r.min, r.max = min(r.min, i), max(r.max, i)
			c.cellRanges[s] = r
		}
	}
}

func vtB(x bool) string {
	if x {
		return "true"
	}
	return "false"
}

func TestVerifC06Tables(t *testing.T) {
	var sb strings.Builder
	windows := []int32{math.MaxInt32, 1, 2, 3}
	wtok := func(w int32) int {
		if w == math.MaxInt32 {
			return 0
		}
		return int(w)
	}

	// mask: one cell, one query; the mask element read through the cached mask of a reserve pass
	// (no placement), after SetCausal(Except [0]) for the non-causal variant
	for _, w := range windows {
		for _, member := range []bool{false, true} {
			for _, enabled := range []bool{false, true} {
				for cp := int32(0); cp <= 5; cp++ {
					for tp := int32(0); tp <= 5; tp++ {
						c, backend := vtCache(w, 1)
						owner := 1
						if member {
							owner = 0
						}
						c.cells[0] = cacheCell{pos: cp, sequences: []int{owner}}
						vtSetRanges(c)
						ctx := backend.NewContext()
						if err := c.StartForward(ctx, input.Batch{Positions: []int32{tp}, Sequences: []int{0}}, true); err != nil {
							t.Fatal(err)
						}
						if !enabled {
							c.SetCausal(ctx, CausalOptions{Except: []int{0}})
						}
						m := c.curMask.(*vfTensor).Floats()
						if len(m) != 1 {
							t.Fatalf("mask of a 1x1 pass has %d elements", len(m))
						}
						fmt.Fprintf(&sb, "mask %d %s %s %d %d %s\n", wtok(w), vtB(member), vtB(enabled), cp, tp, vtB(m[0] == 0))
					}
				}
			}
		}
	}

	// evict: cell 0 owned by sequence 0 at position cp, cell 1 free; a one-token batch at position low
	for _, w := range windows[1:] {
		for cp := int32(0); cp <= 7; cp++ {
			for low := int32(0); low <= 7; low++ {
				c, backend := vtCache(w, 2)
				c.cells[0] = cacheCell{pos: cp, sequences: []int{0}}
				vtSetRanges(c)
				if err := c.StartForward(backend.NewContext(), input.Batch{Positions: []int32{low}, Sequences: []int{0}}, false); err != nil {
					t.Fatal(err)
				}
				// the batch token is stored at curLoc: if that is cell 0, the test cell had been freed first
				gone := c.curLoc == 0 || len(c.cells[0].sequences) == 0
				fmt.Fprintf(&sb, "evict %d %d %d %s\n", wtok(w), cp, low, vtB(gone))
			}
		}
	}

	// remove: one cell of sequence 0 (optionally shared with sequence 1); outcome 0 keep, 1 drop, 2 refuse, 3 shift
	ends := []int32{0, 1, 2, 3, 4, math.MaxInt32}
	for b := int32(0); b <= 4; b++ {
		for _, e := range ends {
			for cp := int32(0); cp <= 5; cp++ {
				for _, shared := range []bool{false, true} {
					c, _ := vtCache(math.MaxInt32, 1)
					c.cells[0] = cacheCell{pos: cp, sequences: []int{0}}
					if shared {
						c.cells[0].sequences = []int{0, 1}
					}
					vtSetRanges(c)
					err := c.Remove(0, b, e)
					outcome, np := 0, c.cells[0].pos
					switch {
					case err != nil:
						outcome = 2
					case !contains(c.cells[0].sequences, 0):
						outcome = 1
					case np != cp:
						outcome = 3
					}
					etok := int(e)
					if e == math.MaxInt32 {
						etok = -1
					}
					fmt.Fprintf(&sb, "remove %d %d %d %s %d %d\n", b, etok, cp, vtB(shared), outcome, np)
				}
			}
		}
	}

	// copy: CopyPrefix(0 -> 1, n) on one cell
	for n := int32(0); n <= 4; n++ {
		for cp := int32(0); cp <= 4; cp++ {
			for _, src := range []bool{false, true} {
				for _, dst := range []bool{false, true} {
					c, _ := vtCache(math.MaxInt32, 1)
					var owners []int
					if dst {
						owners = append(owners, 1)
					}
					if src {
						owners = append(owners, 0)
					}
					if !src && !dst {
						owners = []int{2}
					}
					c.cells[0] = cacheCell{pos: cp, sequences: owners}
					vtSetRanges(c)
					c.CopyPrefix(0, 1, n)
					var os []string
					for _, s := range c.cells[0].sequences {
						os = append(os, fmt.Sprint(s))
					}
					fmt.Fprintf(&sb, "copy %d %d %s %s [%s]\n", n, cp, vtB(src), vtB(dst), strings.Join(os, ", "))
				}
			}
		}
	}

	// place: every occupancy pattern of 5 cells x batch size 1..5; outcome = curLoc, 100 = ErrKvCacheFull, 101 = panic
	for bits := 0; bits < 32; bits++ {
		for k := 1; k <= 5; k++ {
			c, backend := vtCache(math.MaxInt32, 5)
			var occ []string
			for i := 0; i < 5; i++ {
				if bits>>i&1 == 1 {
					c.cells[i] = cacheCell{pos: int32(i), sequences: []int{0}}
				}
				occ = append(occ, vtB(bits>>i&1 == 1))
			}
			vtSetRanges(c)
			batch := input.Batch{}
			for i := 0; i < k; i++ {
				batch.Positions = append(batch.Positions, int32(10+i))
				batch.Sequences = append(batch.Sequences, 1)
			}
			outcome := func() (o int) {
				defer func() {
					if recover() != nil {
						o = 101
					}
				}()
				if err := c.StartForward(backend.NewContext(), batch, false); err != nil {
					return 100
				}
				return c.curLoc
			}()
			fmt.Fprintf(&sb, "place [%s] %d %d\n", strings.Join(occ, ", "), k, outcome)
		}
	}

	// resume: sequence 0 holds the positions of every subset of {0..4} (cell i = position i), window 1 or 2;
	// CanResume(0, pos) for pos 0..6
	for _, w := range []int32{1, 2} {
		for bits := 0; bits < 32; bits++ {
			for pos := int32(0); pos <= 6; pos++ {
				c, _ := vtCache(w, 5)
				var occ []string
				for i := 0; i < 5; i++ {
					if bits>>i&1 == 1 {
						c.cells[i] = cacheCell{pos: int32(i), sequences: []int{0}}
					}
					occ = append(occ, vtB(bits>>i&1 == 1))
				}
				vtSetRanges(c)
				fmt.Fprintf(&sb, "resume %d [%s] %d %s\n", w, strings.Join(occ, ", "), pos, vtB(c.CanResume(0, pos)))
			}
		}
	}

	// encoder: an encoder output stored at position p (reserve pass or not), then Remove(0, b, e): EncoderCached()
	for _, reserve := range []bool{false, true} {
		for p := int32(0); p <= 4; p++ {
			for b := int32(0); b <= 5; b++ {
				for _, e := range []int32{0, 1, 2, 3, 4, 5, math.MaxInt32} {
					backend := &vfBackend{maxNodes: 8192}
					ec := NewEncoderCache()
					ec.Init(backend, ml.DTypeF16, 1, 16, 8)
					ctx := backend.NewContext()
					batch := input.Batch{Positions: []int32{p}, Sequences: []int{0}, Multimodal: []input.MultimodalIndex{{Index: 0}}}
					if err := ec.StartForward(ctx, batch, reserve); err != nil {
						t.Fatal(err)
					}
					ec.SetLayer(0)
					kt, _ := ctx.FromFloatSlice(make([]float32, 6), 1, 2, 3)
					ec.Put(ctx, kt, kt)
					ctx.Compute()
					if err := ec.Remove(0, b, e); err != nil {
						t.Fatal(err)
					}
					etok := int(e)
					if e == math.MaxInt32 {
						etok = -1
					}
					fmt.Fprintf(&sb, "encoder %s %d %d %d %s\n", vtB(reserve), p, b, etok, vtB(ec.EncoderCached()))
					ec.Close()
				}
			}
		}
	}

	if err := os.WriteFile(zzverif.OutDir()+"/tables.txt", []byte(sb.String()), 0o644); err != nil {
		t.Fatal(err)
	}
}

func contains(xs []int, x int) bool {
	for _, y := range xs {
		if y == x {
			return true
		}
	}
	return false
}
