// Overlay-only export shim for the C07 driver (package ollamarunner needs to look at the
// real Causal's metadata and key rows).  Never committed to /repo; read-only accessors.
package kvcache

import "github.com/ollama/ollama/ml"

// VerifC07Cell is one cache cell's metadata (location order).
type VerifC07Cell struct {
	Pos  int32
	Seqs []int
}

// VerifC07Cells returns a copy of the cell metadata in location order.
func (c *Causal) VerifC07Cells() []VerifC07Cell {
	out := make([]VerifC07Cell, len(c.cells))
	for i, cell := range c.cells {
		out[i] = VerifC07Cell{Pos: cell.pos, Seqs: append([]int(nil), cell.sequences...)}
	}
	return out
}

// VerifC07CurLoc is where the current batch was stored.
func (c *Causal) VerifC07CurLoc() int { return c.curLoc }

// VerifC07Key returns the key tensor of a layer (nil before the first Put).
func (c *Causal) VerifC07Key(layer int) ml.Tensor { return c.keys[layer] }
