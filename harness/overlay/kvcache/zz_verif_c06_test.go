package kvcache

// Verification driver for C06 (KV cache exposes exactly the causal history of each sequence).
// Added to the package at build time with `go test -overlay`; never committed to /repo.
//
// The real kvcache.Causal runs on a fake ml.Backend whose K/V rows carry identities:
//   K row = [id, shift] per head (kHeadDim = 2), V row = [id, id, id] per head (vHeadDim = 3).
// shiftFn adds the offset to the "shift" component.  Tensors are real strided views over a shared
// backing array, so the offset/stride arithmetic of Put/Get/moveCells/shift is executed for real.

import (
	"errors"
	"fmt"
	"math"
	"os"
	"slices"
	"sort"
	"strconv"
	"strings"
	"testing"

	"github.com/ollama/ollama/ml"
	"github.com/ollama/ollama/model/input"
	"github.com/ollama/ollama/zzverif"
)

// ------------------------------------------------------------------ fake backend

const (
	vfKHead  = 2
	vfVHead  = 3
	vfHeads  = 2
	vfLayers = 2 // EncoderCache driver only; the Causal drivers use vfLayerSets
	vfElem   = 4 // bytes per element
)

type vfBackend struct {
	ml.Backend
	cfg      ml.CacheConfig
	maxNodes int
	// taint tracking, one per cache built on this backend
	taints []*vfTaint
	// graph nodes that were forwarded but never computed (context closed first)
	dropped int
}

// vfTaint remembers the destination rows of multi-row cache-to-cache copies in one cache's layer-0 K tensor
type vfTaint struct {
	k0       []float32
	tainted  map[int]bool
	multiRow int
	moves    int
}

func (b *vfBackend) taintOf(data []float32) *vfTaint {
	if b == nil || len(data) == 0 {
		return nil
	}
	for _, t := range b.taints {
		if t.k0 != nil && &t.k0[0] == &data[0] {
			return t
		}
	}
	return nil
}

func (b *vfBackend) NewContext() ml.Context        { return &vfContext{b: b} }
func (b *vfBackend) NewContextSize(int) ml.Context { return &vfContext{b: b} }
func (b *vfBackend) CacheConfig() ml.CacheConfig   { return b.cfg }

// vfContext executes like a ggml graph context: a Copy is only a node; it runs when the context is
// computed, in the order in which the nodes were handed to Forward.  A node that is never forwarded, or a
// context that is closed without Compute, moves no data (counted in vfBackend.dropped).
type vfContext struct {
	ml.Context
	b       *vfBackend
	pending []func()
	driver  bool // created by the driver for a forward pass (an aborted pass is legitimately closed without Compute)
}

func vfStrides(shape []int) []int {
	st := make([]int, len(shape))
	s := 1
	for i := range shape {
		st[i] = s
		s *= shape[i]
	}
	return st
}

func vfTotal(shape []int) int {
	if len(shape) == 0 {
		return 0
	}
	n := 1
	for _, s := range shape {
		n *= s
	}
	return n
}

func (c *vfContext) Empty(dtype ml.DType, shape ...int) ml.Tensor {
	sh := append([]int(nil), shape...)
	return &vfTensor{b: c.b, dtype: dtype, data: make([]float32, vfTotal(sh)), shape: sh, strd: vfStrides(sh)}
}

func (c *vfContext) Zeros(dtype ml.DType, shape ...int) ml.Tensor { return c.Empty(dtype, shape...) }

func (c *vfContext) FromFloatSlice(s []float32, shape ...int) (ml.Tensor, error) {
	t := c.Empty(ml.DTypeF32, shape...).(*vfTensor)
	if len(s) != len(t.data) {
		return nil, fmt.Errorf("shape mismatch")
	}
	copy(t.data, s)
	return t, nil
}

func (c *vfContext) FromIntSlice(s []int32, shape ...int) (ml.Tensor, error) {
	f := make([]float32, len(s))
	for i := range s {
		f[i] = float32(s[i])
	}
	t, err := c.FromFloatSlice(f, shape...)
	if err != nil {
		return nil, err
	}
	t.(*vfTensor).dtype = ml.DTypeI32
	return t, nil
}

func (c *vfContext) Input() ml.Context    { return c }
func (c *vfContext) Layer(int) ml.Context { return c }
func (c *vfContext) Forward(ts ...ml.Tensor) ml.Context {
	for _, t := range ts {
		if vt, ok := t.(*vfTensor); ok && vt != nil && vt.pend != nil {
			c.pending = append(c.pending, vt.pend)
			vt.pend = nil
		}
	}
	return c
}

func (c *vfContext) Compute(ts ...ml.Tensor) {
	c.Forward(ts...)
	for _, f := range c.pending {
		f()
	}
	c.pending = nil
}
func (c *vfContext) Reserve() error     { return nil }
func (c *vfContext) MaxGraphNodes() int { return c.b.maxNodes }
func (c *vfContext) Close() {
	if !c.driver {
		c.b.dropped += len(c.pending)
	}
	c.pending = nil
}

// passContext: a context the driver owns (the runner's per-batch context)
func (b *vfBackend) passContext() ml.Context { return &vfContext{b: b, driver: true} }

// vfTensor is a strided view over a shared backing array (element strides).
type vfTensor struct {
	ml.Tensor
	b     *vfBackend
	dtype ml.DType
	data  []float32
	off   int
	shape []int
	strd  []int
	pend  func() // graph node not yet handed to Forward (a Copy): runs at Compute
}

func (t *vfTensor) Dim(n int) int {
	if n >= len(t.shape) {
		return 1
	}
	return t.shape[n]
}

func (t *vfTensor) Stride(n int) int {
	if n >= len(t.strd) {
		// like ggml: nb[n] of a missing dimension = size of the whole tensor
		return t.strd[len(t.strd)-1] * t.shape[len(t.shape)-1] * vfElem
	}
	return t.strd[n] * vfElem
}

func (t *vfTensor) Shape() []int    { return append([]int(nil), t.shape...) }
func (t *vfTensor) DType() ml.DType { return t.dtype }

// addr returns the backing index of the k-th logical element (dimension 0 fastest).
func (t *vfTensor) addr(k int) int {
	a := t.off
	for d := range t.shape {
		a += (k % t.shape[d]) * t.strd[d]
		k /= t.shape[d]
	}
	return a
}

func (t *vfTensor) Floats() []float32 {
	n := vfTotal(t.shape)
	out := make([]float32, n)
	for k := range out {
		out[k] = t.data[t.addr(k)]
	}
	return out
}

func (t *vfTensor) View(ctx ml.Context, offset int, shape ...int) ml.Tensor {
	if offset%vfElem != 0 {
		panic("vf: unaligned view offset")
	}
	v := &vfTensor{b: t.b, dtype: t.dtype, data: t.data, off: t.off + offset/vfElem}
	switch len(shape) {
	case 1, 3, 5, 7:
	default:
		panic("unsupported number of dimensions")
	}
	v.shape = append(v.shape, shape[0])
	v.strd = append(v.strd, 1)
	for i := 1; i < len(shape); i += 2 {
		if shape[i]%vfElem != 0 {
			panic("vf: unaligned view stride")
		}
		v.strd = append(v.strd, shape[i]/vfElem)
		v.shape = append(v.shape, shape[i+1])
	}
	// bounds: the last addressed element must lie inside the backing array
	n := vfTotal(v.shape)
	if n > 0 {
		last := v.addr(n - 1)
		if last >= len(v.data) || v.off < 0 {
			panic(fmt.Sprintf("vf: view out of bounds (off %d shape %v strides %v backing %d)", v.off, v.shape, v.strd, len(v.data)))
		}
	}
	return v
}

func (t *vfTensor) Permute(ctx ml.Context, axes ...int) ml.Tensor {
	if len(axes) != 4 {
		panic("expected 4 dimensions")
	}
	sh := []int{1, 1, 1, 1}
	st := []int{0, 0, 0, 0}
	for i := 0; i < 4; i++ {
		d, s := 1, 0
		if i < len(t.shape) {
			d, s = t.shape[i], t.strd[i]
		}
		sh[axes[i]] = d
		st[axes[i]] = s
	}
	return &vfTensor{b: t.b, dtype: t.dtype, data: t.data, off: t.off, shape: sh, strd: st}
}

// Copy copies logical element k of t to logical element k of dst (like ggml_cpy); the source is
// snapshotted first.  Returns dst.
func (t *vfTensor) Copy(ctx ml.Context, t2 ml.Tensor) ml.Tensor {
	dst := t2.(*vfTensor)
	n := vfTotal(t.shape)
	if n != vfTotal(dst.shape) {
		panic(fmt.Sprintf("vf: copy size mismatch %v -> %v", t.shape, dst.shape))
	}
	node := &vfTensor{b: dst.b, dtype: dst.dtype, data: dst.data, off: dst.off, shape: dst.shape, strd: dst.strd}
	node.pend = func() {
		src := t.Floats() // the source is read when the node executes
		// multi-row cache-to-cache move inside a layer-0 K tensor: remember destination rows
		if b := t.b.taintOf(t.data); b != nil && len(dst.data) > 0 && &dst.data[0] == &t.data[0] &&
			len(t.shape) == 1 && len(dst.shape) == 1 {
			row := vfKHead * vfHeads
			b.moves++
			if n > row {
				b.multiRow++
				for r := 0; r < n/row; r++ {
					b.tainted[dst.off/row+r] = true
				}
			} else if b.tainted[t.off/row] {
				// a single-row move carries a suspect row along
				b.tainted[dst.off/row] = true
			} else {
				delete(b.tainted, dst.off/row)
			}
		}
		for k := 0; k < n; k++ {
			dst.data[dst.addr(k)] = src[k]
		}
	}
	return node
}

// vfShift is the shiftFn: returns a fresh tensor equal to key with the offset added to the
// "shift" component (d == 1) of every row.
func vfShift(ctx ml.Context, layer int, key, shift ml.Tensor) (ml.Tensor, error) {
	k := key.(*vfTensor)
	offs := shift.(*vfTensor).Floats()
	out := ctx.Empty(k.dtype, k.shape...).(*vfTensor)
	vals := k.Floats()
	if len(k.shape) != 3 || k.shape[2] != len(offs) {
		return nil, fmt.Errorf("vf: shift shape mismatch %v vs %d", k.shape, len(offs))
	}
	for i, v := range vals {
		d := i % k.shape[0]
		row := i / (k.shape[0] * k.shape[1])
		if d == 1 {
			v += offs[row]
		}
		out.data[i] = v
	}
	return out, nil
}

// Layer numbers a Causal is used with.  A cache inside a WrapperCache only ever sees the layers of its
// own type (gemma: local layers in the sliding-window cache, every sixth in the causal one), so the
// numbers are sparse, need not start at 0 and can exceed the number of stored layers.
var vfLayerSets = [][]int{{0, 1}, {0, 2}, {1, 3}, {5}, {0, 7}, {2, 4, 6}}

// per wrapped cache (index = position in the wrapper)
var vfWLayerSets = [][][]int{{{0, 1}, {0, 1}}, {{0, 2, 4}, {1, 3, 5}}, {{1, 3}, {0, 2}}, {{5}, {0, 7}}, {{0, 1, 3, 4}, {2, 5}}}

// ------------------------------------------------------------------ history language

type vfTok struct {
	seq int
	pos int32
	id  int
}

type vfOp struct {
	kind    byte // 'F' forward, 'C' copy prefix, 'R' remove, 'Q' can resume, 'E' SetCausal(Except) on the current pass, 'V' reserve pass (StartForward(reserve=true))
	ex      []int
	toks    []vfTok
	a, b, c int // C: src dst len | R: seq begin end | Q: seq pos
}

type vfConfig struct {
	wrap                       int   // 0 = plain Causal; 1 = WrapperCache(SWA, causal); 2 = WrapperCache(causal, SWA) (kw-* lines only)
	variant                    int   // model variant bits (passed through to the oracle): 1 fixDefrag, 2 fixResume, 4 fixDiv, 8 perSeqBatch
	window                     int32 // math.MaxInt32 = none
	maxSeq, capacity, maxBatch int
	cachePad, batchPad         int
	hasShift, permV, maskF16   bool
	layerSet                   int // index into vfLayerSets / vfWLayerSets: the real layer numbers the cache is used with
	maxNodes                   int
}

func (cf vfConfig) String() string {
	w := "inf"
	if cf.window != math.MaxInt32 {
		w = strconv.Itoa(int(cf.window))
	}
	b := func(x bool) int {
		if x {
			return 1
		}
		return 0
	}
	return fmt.Sprintf("%d %s %d %d %d %d %d %d %d %d %d", cf.variant, w, cf.maxSeq, cf.capacity, cf.maxBatch, cf.cachePad, cf.batchPad,
		b(cf.hasShift), b(cf.permV), b(cf.maskF16)+2*cf.layerSet, cf.maxNodes) // (the oracle ignores permV and this token)
}

func (o vfOp) String() string {
	switch o.kind {
	case 'F', 'V':
		var sb strings.Builder
		fmt.Fprintf(&sb, "%c %d", o.kind, len(o.toks))
		for _, t := range o.toks {
			fmt.Fprintf(&sb, " %d %d %d", t.seq, t.pos, t.id)
		}
		return sb.String()
	case 'C':
		return fmt.Sprintf("C %d %d %d", o.a, o.b, o.c)
	case 'R':
		return fmt.Sprintf("R %d %d %d", o.a, o.b, o.c)
	case 'E':
		var sb strings.Builder
		fmt.Fprintf(&sb, "E %d", len(o.ex))
		for _, i := range o.ex {
			fmt.Fprintf(&sb, " %d", i)
		}
		return sb.String()
	default:
		return fmt.Sprintf("Q %d %d", o.a, o.b)
	}
}

func vfHistory(cf vfConfig, ops []vfOp) string {
	parts := make([]string, len(ops))
	for i, o := range ops {
		parts[i] = o.String()
	}
	return fmt.Sprintf("%s %d %s", cf.String(), len(ops), strings.Join(parts, " "))
}

func vfParseHistory(line string) (vfConfig, []vfOp, error) {
	f := strings.Fields(line)
	wrapped := false
	if len(f) > 0 && (f[0] == "kv-x" || f[0] == "kv-l" || f[0] == "kw-x" || f[0] == "kw-l") {
		wrapped = strings.HasPrefix(f[0], "kw")
		f = f[1:]
	}
	p := 0
	next := func() int {
		if p >= len(f) {
			panic("short line")
		}
		s := f[p]
		p++
		if s == "inf" {
			return math.MaxInt32
		}
		v, err := strconv.Atoi(s)
		if err != nil {
			panic(err)
		}
		return v
	}
	var cf vfConfig
	var ops []vfOp
	var err error
	func() {
		defer func() {
			if r := recover(); r != nil {
				err = fmt.Errorf("parse: %v", r)
			}
		}()
		if wrapped {
			cf.wrap = next()
		}
		cf.variant = next()
		cf.window = int32(next())
		cf.maxSeq, cf.capacity, cf.maxBatch, cf.cachePad, cf.batchPad = next(), next(), next(), next(), next()
		cf.hasShift, cf.permV = next() != 0, next() != 0
		mf := next()
		cf.maskF16, cf.layerSet = mf&1 != 0, mf>>1
		cf.maxNodes = next()
		n := next()
		for i := 0; i < n; i++ {
			k := f[p]
			p++
			switch k {
			case "F", "V":
				m := next()
				op := vfOp{kind: k[0]}
				for j := 0; j < m; j++ {
					op.toks = append(op.toks, vfTok{seq: next(), pos: int32(next()), id: next()})
				}
				ops = append(ops, op)
			case "C":
				ops = append(ops, vfOp{kind: 'C', a: next(), b: next(), c: next()})
			case "R":
				ops = append(ops, vfOp{kind: 'R', a: next(), b: next(), c: next()})
			case "Q":
				ops = append(ops, vfOp{kind: 'Q', a: next(), b: next()})
			case "E":
				m := next()
				op := vfOp{kind: 'E', ex: []int{}}
				for j := 0; j < m; j++ {
					op.ex = append(op.ex, next())
				}
				ops = append(ops, op)
			default:
				panic("bad op " + k)
			}
		}
	}()
	return cf, ops, err
}

// ------------------------------------------------------------------ shadow specification (pure Go, location free)

type vfEntry struct {
	seqs    []int
	pos     int32
	id      int
	shift   int32
	evicted map[int]bool // per owning sequence: slid out of that sequence's window at some StartForward
	// evidence recorded when the entry was evicted for a sequence: the entry's own shift and the total
	// middle-removal shift the sequence had received by then (F15 attribution)
	shiftAtEvict    map[int]int32
	seqShiftAtEvict map[int]int32
}

func (e *vfEntry) markEvicted(q int, seqShift int32) {
	e.evicted[q] = true
	if e.shiftAtEvict == nil {
		e.shiftAtEvict, e.seqShiftAtEvict = map[int]int32{}, map[int]int32{}
	}
	e.shiftAtEvict[q], e.seqShiftAtEvict[q] = e.shift, seqShift
}

// inherit copies the eviction record of sequence src to sequence dst (CopyPrefix / entry split)
func (e *vfEntry) inherit(from *vfEntry, src, dst int) {
	if !from.evicted[src] {
		return
	}
	e.evicted[dst] = true
	if e.shiftAtEvict == nil {
		e.shiftAtEvict, e.seqShiftAtEvict = map[int]int32{}, map[int]int32{}
	}
	e.shiftAtEvict[dst], e.seqShiftAtEvict[dst] = from.shiftAtEvict[src], from.seqShiftAtEvict[src]
}

func (e *vfEntry) has(s int) bool {
	for _, x := range e.seqs {
		if x == s {
			return true
		}
	}
	return false
}

func (e *vfEntry) drop(s int) {
	out := e.seqs[:0]
	for _, x := range e.seqs {
		if x != s {
			out = append(out, x)
		}
	}
	e.seqs = out
	delete(e.evicted, s)
	delete(e.shiftAtEvict, s)
	delete(e.seqShiftAtEvict, s)
}

type vfSeqFlags struct {
	poisoned bool // a Remove on this sequence returned an error and it has not been cleared yet
	mid      bool // a middle removal (with shift) happened since the last full clear
	misuse   bool // resumed without CanResume approval / used before approval after CopyPrefix
	pending  bool // CopyPrefix target that has not been approved by CanResume yet
}

type vfShadow struct {
	window  int32
	entries []*vfEntry
	flags   map[int]*vfSeqFlags
	unsound bool // history left the documented contract (wild ranges/positions): L2 silent from here
	// per sequence: total amount by which accepted middle removals have shifted its tail down so far
	seqShift map[int]int32
}

func (s *vfShadow) fl(seq int) *vfSeqFlags {
	f := s.flags[seq]
	if f == nil {
		f = &vfSeqFlags{}
		s.flags[seq] = f
	}
	return f
}

func (s *vfShadow) compact() {
	out := s.entries[:0]
	for _, e := range s.entries {
		if len(e.seqs) > 0 {
			out = append(out, e)
		}
	}
	s.entries = out
}

// slide marks what the window of the coming batch no longer needs (what the cache may evict).
func (s *vfShadow) slide(toks []vfTok) (marked int) {
	if s.window == math.MaxInt32 {
		return 0
	}
	low := map[int]int32{}
	for _, t := range toks {
		if p, ok := low[t.seq]; !ok || t.pos < p {
			low[t.seq] = t.pos
		}
	}
	for _, e := range s.entries {
		for _, q := range e.seqs {
			if p, ok := low[q]; ok && int64(e.pos) < int64(p)-int64(s.window) {
				if !e.evicted[q] {
					marked++
					e.markEvicted(q, s.seqShift[q])
				}
			}
		}
	}
	return marked
}

func (s *vfShadow) store(toks []vfTok) {
	for _, t := range toks {
		s.entries = append(s.entries, &vfEntry{seqs: []int{t.seq}, pos: t.pos, id: t.id, evicted: map[int]bool{}})
	}
}

func (s *vfShadow) copyPrefix(src, dst int, n int32) {
	for _, e := range s.entries {
		e.drop(dst)
		if e.has(src) && e.pos < n {
			e.seqs = append(e.seqs, dst)
			e.inherit(e, src, dst)
		}
	}
	if s.seqShift == nil {
		s.seqShift = map[int]int32{}
	}
	s.seqShift[dst] = s.seqShift[src]
	s.compact()
	fs := *s.fl(src)
	*s.fl(dst) = vfSeqFlags{poisoned: fs.poisoned, mid: fs.mid, misuse: fs.misuse, pending: s.window != math.MaxInt32}
}

// remove applies a Remove that the cache accepted. Returns a description if the cache accepted
// something it had to refuse (shifting an entry that another sequence still shares).
func (s *vfShadow) remove(seq int, b, e int32) string {
	bad := ""
	if e == math.MaxInt32 {
		for _, x := range s.entries {
			if x.has(seq) && x.pos >= b {
				x.drop(seq)
			}
		}
		s.compact()
		if b == 0 {
			delete(s.seqShift, seq)
		}
		return ""
	}
	off := b - e
	if s.seqShift == nil {
		s.seqShift = map[int]int32{}
	}
	s.seqShift[seq] += e - b
	var add []*vfEntry
	for _, x := range s.entries {
		if !x.has(seq) {
			continue
		}
		if x.pos >= b && x.pos < e {
			x.drop(seq)
		} else if x.pos >= e {
			if len(x.seqs) > 1 {
				// the cache must refuse unless, in the cache, the cell is no longer shared: either this
				// sequence or every other owner has slid out of its window there
				othersGone := true
				for _, q := range x.seqs {
					if q != seq && !x.evicted[q] {
						othersGone = false
					}
				}
				if !x.evicted[seq] && !othersGone {
					bad = fmt.Sprintf("entry id=%d pos=%d shared by %v was shifted for seq %d", x.id, x.pos, x.seqs, seq)
				}
				ne := &vfEntry{seqs: []int{seq}, pos: x.pos + off, id: x.id, shift: x.shift + off, evicted: map[int]bool{}}
				ne.inherit(x, seq, seq)
				x.drop(seq)
				add = append(add, ne)
			} else {
				x.pos += off
				x.shift += off
			}
		}
	}
	s.entries = append(s.entries, add...)
	s.compact()
	return bad
}

// ------------------------------------------------------------------ canonical printing

type vfKey []int

func vfLess(a, b vfKey) bool {
	for i := 0; i < len(a) && i < len(b); i++ {
		if a[i] != b[i] {
			return a[i] < b[i]
		}
	}
	return len(a) < len(b)
}

func vfSortKeys(ks []vfKey) {
	sort.SliceStable(ks, func(i, j int) bool { return vfLess(ks[i], ks[j]) })
}

func vfKeysString(ks []vfKey) string {
	vfSortKeys(ks)
	parts := make([]string, len(ks))
	for i, k := range ks {
		s := make([]string, len(k))
		for j, v := range k {
			s[j] = strconv.Itoa(v)
		}
		parts[i] = strings.Join(s, ".")
	}
	return "[" + strings.Join(parts, ",") + "]"
}

// ------------------------------------------------------------------ executor

type vfRun struct {
	tag     string // "kv-x" standalone, "kw-x" behind a WrapperCache
	api     Cache  // what Put/Get/SetLayer are called on (the cache itself or the wrapper)
	sel     func() // selects this cache behind a wrapper (SetLayerType)
	taint   *vfTaint
	layers  []int   // the layer numbers used with this cache; layers[0] is the one L1 prints
	curToks []vfTok // the batch of the last StartForward this cache executed (accepted or not)
	passOp  int     // op index of the accepted forward whose pass is still current (nothing else since), else -1
	reserve bool    // the pass being observed is a reserve pass (nothing stored, nothing evicted)
	window  int32
	cf      vfConfig
	cache   *Causal
	backend *vfBackend
	shadow  *vfShadow
	line    string
	out     *zzverif.Out
	seenL2  map[string]bool
	lastQ   map[int][3]int // seq -> (pos, result, op index)
	obsX    []string
	obsL    []string
}

func vfErrClass(err error) string {
	switch {
	case err == nil:
		return "ok"
	case errors.Is(err, ErrKvCacheFull):
		return "err:full"
	case errors.Is(err, ErrNotSupported):
		return "err:notsup"
	case strings.Contains(err.Error(), "shared by multiple sequences"):
		return "err:shared"
	default:
		return "err:other"
	}
}

func (r *vfRun) l2(kind, detail string) {
	if r.out == nil || r.seenL2[kind] {
		return
	}
	r.seenL2[kind] = true
	r.out.L2(kind, r.tag+" "+r.line, detail)
}

// rowK reads the identity of cache row loc of a layer straight from the backing tensor.
func (r *vfRun) rowK(layer, loc int) (id, shift int, torn bool) {
	kt, ok := r.cache.keys[layer]
	if !ok {
		return 0, 0, false
	}
	k := kt.(*vfTensor)
	base := loc * vfKHead * vfHeads
	id, shift = int(k.data[base]), int(k.data[base+1])
	for h := 1; h < vfHeads; h++ {
		if int(k.data[base+h*vfKHead]) != id || int(k.data[base+h*vfKHead+1]) != shift {
			torn = true
		}
	}
	return
}

func (r *vfRun) absString() string {
	var ks []vfKey
	for i, c := range r.cache.cells {
		if len(c.sequences) == 0 {
			continue
		}
		id, sh, _ := r.rowK(r.layers[0], i)
		k := vfKey{int(c.pos), id, sh}
		ss := append([]int(nil), c.sequences...)
		sort.Ints(ss)
		k = append(k, ss...)
		ks = append(ks, k)
	}
	return vfKeysString(ks)
}

func vfNum(n int) string {
	if n == math.MaxInt {
		return "M"
	}
	return strconv.Itoa(n)
}

func (r *vfRun) layoutString(fwdOK bool) string {
	var cells, rows, ranges []string
	for i, c := range r.cache.cells {
		if len(c.sequences) > 0 || c.pos != 0 {
			ss := make([]string, len(c.sequences))
			for j, s := range c.sequences {
				ss[j] = strconv.Itoa(s)
			}
			cells = append(cells, fmt.Sprintf("%d:%d:%s", i, c.pos, strings.Join(ss, "+")))
		}
		id, sh, _ := r.rowK(r.layers[0], i)
		if id != 0 || sh != 0 {
			rows = append(rows, fmt.Sprintf("%d:%d:%d", i, id, sh))
		}
	}
	var seqs []int
	for s := range r.cache.cellRanges {
		seqs = append(seqs, s)
	}
	sort.Ints(seqs)
	for _, s := range seqs {
		rg := r.cache.cellRanges[s]
		ranges = append(ranges, fmt.Sprintf("%d:%s:%s", s, vfNum(rg.min), vfNum(rg.max)))
	}
	cur := ""
	if fwdOK {
		cur = fmt.Sprintf(" cur=%d:%s:%s", r.cache.curLoc, vfNum(r.cache.curCellRange.min), vfNum(r.cache.curCellRange.max))
	}
	return fmt.Sprintf("cells=%s rows=%s ranges=%s%s", strings.Join(cells, ","), strings.Join(rows, ","), strings.Join(ranges, ","), cur)
}

// diagnose compares the cache state (white box: cells + rows) with the shadow, per sequence.
type vfDiag struct {
	badTainted, badOther   []string // cells whose row is not what was stored for (seq,pos)
	extra                  []string // cells owning (seq,pos) that the shadow does not have
	missF15, missResume    []string // shadow entries absent from the cache, slid out of the window earlier
	missMisuse, missOther  []string
	torn, layerDiff, vDiff []string
}

func (r *vfRun) diagnose() vfDiag {
	var d vfDiag
	sh := r.shadow
	type key struct {
		seq int
		pos int32
	}
	want := map[key][]*vfEntry{}
	for _, e := range sh.entries {
		for _, q := range e.seqs {
			want[key{q, e.pos}] = append(want[key{q, e.pos}], e)
		}
	}
	used := map[*vfEntry]map[int]bool{}
	use := func(e *vfEntry, q int) {
		if used[e] == nil {
			used[e] = map[int]bool{}
		}
		used[e][q] = true
	}
	type pend struct {
		loc, seq int
	}
	var unmatched []pend
	for i, c := range r.cache.cells {
		if len(c.sequences) == 0 {
			continue
		}
		id, shf, torn := r.rowK(r.layers[0], i)
		if torn {
			d.torn = append(d.torn, fmt.Sprintf("loc %d", i))
		}
		// every layer's K row and every layer's V row must carry the same identity
		for _, l := range r.layers {
			id2, sh2, torn2 := r.rowK(l, i)
			if id2 != id || sh2 != shf || torn2 {
				d.layerDiff = append(d.layerDiff, fmt.Sprintf("loc %d layer%d=%d/%d layer%d=%d/%d", i, r.layers[0], id, shf, l, id2, sh2))
			}
			if vid, ok := r.rowV(l, i); ok && vid != id {
				d.vDiff = append(d.vDiff, fmt.Sprintf("loc %d K id=%d, layer %d V id=%d", i, id, l, vid))
			}
		}
		// pass 1: exact matches
		for _, q := range c.sequences {
			if sh.fl(q).poisoned {
				continue
			}
			found := false
			for _, e := range want[key{q, c.pos}] {
				if e.id == id && int(e.shift) == shf && !used[e][q] {
					use(e, q)
					found = true
					break
				}
			}
			if !found {
				unmatched = append(unmatched, pend{i, q})
			}
		}
	}
	// pass 2: cells that hold something else than what was stored for their (seq,pos)
	for _, u := range unmatched {
		c := r.cache.cells[u.loc]
		id, shf, _ := r.rowK(r.layers[0], u.loc)
		var cand *vfEntry
		for _, e := range want[key{u.seq, c.pos}] {
			if !used[e][u.seq] {
				cand = e
				break
			}
		}
		if cand == nil {
			d.extra = append(d.extra, fmt.Sprintf("loc %d seq %d pos %d row %d/%d", u.loc, u.seq, c.pos, id, shf))
			continue
		}
		use(cand, u.seq)
		msg := fmt.Sprintf("loc %d seq %d pos %d holds row %d/%d, stored was %d/%d", u.loc, u.seq, c.pos, id, shf, cand.id, cand.shift)
		if r.taint.tainted[u.loc] {
			d.badTainted = append(d.badTainted, msg)
		} else {
			d.badOther = append(d.badOther, msg)
		}
	}
	for _, e := range sh.entries {
		for _, q := range e.seqs {
			if used[e][q] || sh.fl(q).poisoned {
				continue
			}
			msg := fmt.Sprintf("seq %d pos %d id %d", q, e.pos, e.id)
			f := sh.fl(q)
			switch {
			case !e.evicted[q]:
				d.missOther = append(d.missOther, msg)
			case f.misuse || f.pending:
				d.missMisuse = append(d.missMisuse, msg)
			case f.mid:
				d.missF15 = append(d.missF15, msg)
			default:
				d.missResume = append(d.missResume, msg)
			}
		}
	}
	return d
}

// rowV reads the id of V row loc (all vHeadDim*heads elements must agree).
func (r *vfRun) rowV(layer, loc int) (int, bool) {
	vt, ok := r.cache.values[layer]
	if !ok {
		return 0, false
	}
	v := vt.(*vfTensor)
	n := len(r.cache.cells)
	id := -1
	for e := 0; e < vfVHead*vfHeads; e++ {
		var x float32
		if r.cf.permV {
			x = v.data[e*n+loc]
		} else {
			x = v.data[loc*vfVHead*vfHeads+e]
		}
		if id == -1 {
			id = int(x)
		} else if id != int(x) {
			return -2, true
		}
	}
	return id, true
}

func vfClip(xs []string) string {
	if len(xs) > 4 {
		return strings.Join(xs[:4], "; ") + fmt.Sprintf("; (+%d)", len(xs)-4)
	}
	return strings.Join(xs, "; ")
}

// stateCheck reports white-box state/shadow differences (at most once per kind and history).
func (r *vfRun) stateCheck(opi int, what string) {
	if r.shadow.unsound {
		return
	}
	d := r.diagnose()
	at := fmt.Sprintf("after op %d (%s): ", opi, what)
	if len(d.torn) > 0 {
		r.l2("torn-row", at+vfClip(d.torn))
	}
	if len(d.layerDiff) > 0 {
		r.l2("layers-disagree", at+vfClip(d.layerDiff))
	}
	if len(d.vDiff) > 0 {
		r.l2("kv-rows-disagree", at+vfClip(d.vDiff))
	}
	if len(d.badOther) > 0 {
		r.l2("state-wrong-row", at+vfClip(d.badOther))
	}
	if len(d.extra) > 0 {
		r.l2("state-extra-entry", at+vfClip(d.extra))
	}
	if len(d.missOther) > 0 {
		r.l2("state-missing-entry", at+vfClip(d.missOther))
	}
	if len(d.badTainted) > 0 {
		r.l2("wrong-row-after-multirow-defrag-move", at+vfClip(d.badTainted))
	}
}

func vfBatch(op vfOp) input.Batch {
	n := len(op.toks)
	batch := input.Batch{Positions: make([]int32, n), Sequences: make([]int, n)}
	for i, t := range op.toks {
		batch.Positions[i] = t.pos
		batch.Sequences[i] = t.seq
	}
	return batch
}

func (r *vfRun) forward(opi int, op vfOp) (string, bool) {
	ctx := r.backend.passContext()
	defer ctx.Close()
	r.fwdPre(op, true)
	moves0 := r.taint.moves
	err := r.cache.StartForward(ctx, vfBatch(op), false)
	r.fwdBranch(err, r.taint.moves > moves0)
	if err != nil {
		return r.fwdFail(opi, len(op.toks), err, true), false
	}
	return r.fwdOK(opi, op, ctx), true
}

// fwdBranch counts which path of StartForward the real code took (moved = defrag issued block copies)
func (r *vfRun) fwdBranch(err error, moved bool) {
	if r.out == nil {
		return
	}
	switch {
	case err == nil && moved:
		r.out.Count("fwd_ok_after_defrag_moves")
	case err == nil:
		r.out.Count("fwd_ok_without_moves")
	case moved:
		r.out.Count("fwd_rejected_after_defrag_moves")
	default:
		r.out.Count("fwd_rejected_without_moves")
	}
}

// fwdPre: shadow-side bookkeeping before a StartForward (ran = this cache's StartForward is executed)
func (r *vfRun) fwdPre(op vfOp, ran bool) {
	sh := r.shadow
	r.passOp = -1
	if ran {
		r.curToks = op.toks
	}
	if !sh.unsound {
		// contract: positions continue the sequence (nothing at or after a batch position remains)
		hi := map[int]int32{}
		for _, t := range op.toks {
			if p, ok := hi[t.seq]; ok && p >= t.pos || t.pos < 0 {
				sh.unsound = true
			}
			prev, inBatch := hi[t.seq]
			hi[t.seq] = t.pos
			top := int32(-1)
			for _, e := range sh.entries {
				if e.has(t.seq) && e.pos >= t.pos {
					sh.unsound = true
				}
				if e.has(t.seq) && e.pos > top {
					top = e.pos
				}
			}
			if inBatch {
				top = prev
			}
			// with a sliding window a position gap is off contract too: the eviction threshold of the pass
			// jumps ahead of what the sequence has actually reached (and is not undone if the pass is rejected)
			if sh.window != math.MaxInt32 && top >= 0 && t.pos != top+1 {
				sh.unsound = true
			}
		}
	}
	if !sh.unsound && ran {
		if k := sh.slide(op.toks); k > 0 && r.out != nil {
			r.out.Add("window_evicted_entries", k)
			r.out.Count("fwd_with_window_eviction")
		}
		// a forward on an unapproved CopyPrefix target is misuse
		for _, t := range op.toks {
			f := sh.fl(t.seq)
			if f.pending {
				f.misuse = true
			}
		}
	}
}

// fwdFail: the batch was rejected (own = by this cache)
func (r *vfRun) fwdFail(opi, n int, err error, own bool) string {
	c := r.cache
	sh := r.shadow
	{
		cls := vfErrClass(err)
		if !sh.unsound && own {
			holes := 0
			for _, cell := range c.cells {
				if len(cell.sequences) == 0 {
					holes++
				}
			}
			if cls != "err:full" {
				r.l2("forward-unexpected-error", fmt.Sprintf("op %d: %v", opi, err))
			} else if holes >= n {
				r.l2("full-error-with-room", fmt.Sprintf("op %d: batch %d, %d free cells after the error", opi, n, holes))
			}
		}
		if r.out != nil && own {
			r.out.Count("fwd_err_full")
		}
		return cls
	}
}

// fwdOK: the batch was accepted: Put on every layer, then observe through Get
func (r *vfRun) fwdOK(opi int, op vfOp, ctx ml.Context) string {
	c := r.cache
	sh := r.shadow
	n := len(op.toks)
	// Put on every layer
	kdata := make([]float32, vfKHead*vfHeads*n)
	vdata := make([]float32, vfVHead*vfHeads*n)
	for i, t := range op.toks {
		for h := 0; h < vfHeads; h++ {
			kdata[(i*vfHeads+h)*vfKHead] = float32(t.id)
			kdata[(i*vfHeads+h)*vfKHead+1] = 0
			for d := 0; d < vfVHead; d++ {
				vdata[(i*vfHeads+h)*vfVHead+d] = float32(t.id)
			}
		}
	}
	for _, l := range r.layers {
		r.sel()
		r.api.SetLayer(l)
		kt, _ := ctx.FromFloatSlice(kdata, vfKHead, vfHeads, n)
		vt, _ := ctx.FromFloatSlice(vdata, vfVHead, vfHeads, n)
		r.api.Put(ctx, kt, vt)
	}
	ctx.Compute() // the runner computes the graph of the pass once it is built
	if r.taint.k0 == nil {
		r.taint.k0 = c.keys[r.layers[0]].(*vfTensor).data
	}
	for i := 0; i < n; i++ {
		delete(r.taint.tainted, c.curLoc+i)
	}
	if !sh.unsound {
		sh.store(op.toks)
	}

	r.passOp = opi
	return "ok" + r.observe(opi, op.toks, ctx, nil, true)
}

// observe reads what the current pass exposes through Get (layer 0: key view, value view, mask) for
// the tokens of the current batch; except = batch indices made non-causal by SetCausal; judge = the
// shadow knows this pass (L2 verdicts allowed)
func (r *vfRun) observe(opi int, toks []vfTok, ctx ml.Context, except map[int]bool, judge bool) string {
	c := r.cache
	n := len(toks)
	sh := &vfShadow{window: r.shadow.window, entries: r.shadow.entries, flags: r.shadow.flags, unsound: r.shadow.unsound || !judge, seqShift: r.shadow.seqShift}
	r.sel()
	r.api.SetLayer(r.layers[0])
	kv, vv, mk := r.api.Get(ctx)
	kview, vview, mask := kv.(*vfTensor), vv.(*vfTensor), mk.(*vfTensor)
	length := mask.Dim(0)
	padded := mask.Dim(1)
	mf := mask.Floats()
	kf := kview.Floats() // (kHeadDim, heads, length)
	vf := vview.Floats()
	if !sh.unsound {
		if kview.Dim(2) != length || padded < n || padded%r.cf.batchPad != 0 || length%r.cf.cachePad != 0 {
			r.l2("get-shape", fmt.Sprintf("op %d: key view %v mask %v", opi, kview.Shape(), mask.Shape()))
		}
		for k := n * length; k < len(mf); k++ {
			if !math.IsInf(float64(mf[k]), -1) {
				r.l2("padding-row-exposed", fmt.Sprintf("op %d: mask element %d of a padding row is %v", opi, k, mf[k]))
				break
			}
		}
	}
	// the mask is built once per pass (or SetCausal) and shared by all layers
	r.sel()
	r.api.SetLayer(r.layers[len(r.layers)-1])
	if _, _, mk2 := r.api.Get(ctx); !sh.unsound {
		m2 := mk2.(*vfTensor).Floats()
		same := len(m2) == len(mf)
		for k := 0; same && k < len(mf); k++ {
			same = m2[k] == mf[k] || (math.IsInf(float64(m2[k]), -1) && math.IsInf(float64(mf[k]), -1))
		}
		if !same {
			r.l2("mask-differs-across-layers", fmt.Sprintf("op %d", opi))
		}
	}
	// the K and V views of EVERY layer must show what layer[0] shows at the exposed history indices
	if !sh.unsound {
		for _, l := range r.layers[1:] {
			r.sel()
			r.api.SetLayer(l)
			kl, vl, _ := r.api.Get(ctx)
			kfl, vfl := kl.(*vfTensor).Floats(), vl.(*vfTensor).Floats()
			if len(kfl) != len(kf) || len(vfl) != len(vf) {
				r.l2("layers-disagree-through-get", fmt.Sprintf("op %d layer %d: view sizes differ from layer %d", opi, l, r.layers[0]))
				continue
			}
			bad := -1
			for i := 0; i < n && bad < 0; i++ {
				for j := 0; j < length; j++ {
					if mf[i*length+j] != 0 {
						continue
					}
					kb := j * vfKHead * vfHeads
					vb := j * vfVHead * vfHeads
					if r.cf.permV {
						vb = j
					}
					if kfl[kb] != kf[kb] || kfl[kb+1] != kf[kb+1] || vfl[vb] != vf[vb] {
						bad = j
						break
					}
				}
			}
			if bad >= 0 {
				r.l2("layers-disagree-through-get", fmt.Sprintf("op %d: layer %d shows other K/V data than layer %d at exposed history index %d", opi, l, r.layers[0], bad))
			}
		}
	}
	r.sel()
	r.api.SetLayer(r.layers[0])
	var sb strings.Builder
	diagDone := false
	var diag vfDiag
	for i, t := range toks {
		var ks []vfKey
		var got []vfKey // black box: identities only
		for j := 0; j < length; j++ {
			m := mf[i*length+j]
			if m != 0 && !math.IsInf(float64(m), -1) {
				r.l2("mask-value", fmt.Sprintf("op %d: mask[%d,%d]=%v", opi, i, j, m))
			}
			if m != 0 {
				continue
			}
			loc := c.curCellRange.min + j
			id := int(kf[j*vfKHead*vfHeads])
			shf := int(kf[j*vfKHead*vfHeads+1])
			ks = append(ks, vfKey{int(c.cells[loc].pos), id, shf})
			got = append(got, vfKey{id, shf})
			// the V view must show the same identity at the same history index
			var vid int
			if r.cf.permV {
				vid = int(vf[j]) // (length, vHeadDim, heads): element (j,0,0)
			} else {
				vid = int(vf[j*vfVHead*vfHeads])
			}
			if vid != id && !sh.unsound {
				r.l2("get-kv-disagree", fmt.Sprintf("op %d token %d history index %d: K id %d, V id %d", opi, i, j, id, vid))
			}
		}
		sb.WriteString(":" + vfKeysString(ks))

		if r.out != nil {
			r.out.Count("tokens_observed")
		}
		if sh.unsound || sh.fl(t.seq).poisoned {
			continue
		}
		if r.out != nil {
			r.out.Count("tokens_judged")
		}
		// L2: the exposed identities are exactly the stored history of (seq, <= pos, within window)
		var want, wantEvicted []vfKey
		explained := true // every missing entry is back inside the window only because of middle-removal shifts since its eviction
		for _, e := range sh.entries {
			// an excepted batch index is not restricted to positions <= its own
			if !e.has(t.seq) || (e.pos > t.pos && !except[i]) {
				continue
			}
			if sh.window != math.MaxInt32 && int64(e.pos) < int64(t.pos)-int64(sh.window) {
				continue
			}
			if e.evicted[t.seq] {
				wantEvicted = append(wantEvicted, vfKey{e.id, int(e.shift)})
				// without the shifts applied since the eviction (to the sequence's tail: delta, to the entry itself: de)
				// the entry would still be outside the window of this query
				delta := int64(sh.seqShift[t.seq] - e.seqShiftAtEvict[t.seq])
				de := int64(e.shiftAtEvict[t.seq] - e.shift)
				if !(int64(e.pos)+de < int64(t.pos)+delta-int64(sh.window)) {
					explained = false
				}
			} else {
				want = append(want, vfKey{e.id, int(e.shift)})
			}
		}
		gs, ws := vfKeysString(got), vfKeysString(want)
		if gs != ws {
			if !diagDone {
				diag, diagDone = r.diagnose(), true
			}
			detail := fmt.Sprintf("op %d token %d (seq %d pos %d): exposed rows (id.shift) %s, stored history %s", opi, i, t.seq, t.pos, gs, ws)
			if len(diag.badOther) == 0 && len(diag.extra) == 0 && len(diag.missOther) == 0 && len(diag.badTainted) > 0 {
				r.l2("exposed-wrong-row-after-multirow-defrag-move", detail+"; cells: "+vfClip(diag.badTainted))
			} else {
				r.l2("exposed-mismatch", detail)
			}
		}
		if len(wantEvicted) > 0 && !r.reserve {
			f := sh.fl(t.seq)
			detail := fmt.Sprintf("op %d token %d (seq %d pos %d, window %d): stored entries (id.shift) %s are inside the window but were evicted earlier",
				opi, i, t.seq, t.pos, sh.window, vfKeysString(wantEvicted))
			switch {
			case f.misuse:
				if r.out != nil {
					r.out.Count("l2_skip_window_misuse")
				}
			case explained:
				// F15's input class exactly: positions were shifted down by a middle Remove after the entry had been evicted
				r.l2("window-entry-missing-after-middle-remove", detail+"; cause=shift-after-evict")
			default:
				r.l2("window-entry-missing-after-approved-resume", detail)
			}
		}
	}
	return sb.String()
}

// reservePre / reservePost: a reserve pass (StartForward(reserve=true), the runner's worst-case graph
// reservation) must leave every piece of cache metadata alone; its mask, observed through Get when layer
// tensors exist, must expose exactly the stored history of (seq, <= pos, window) over the whole cache.
type vfMeta struct {
	cells  []cacheCell
	ranges map[int]cellRange
}

func (r *vfRun) reservePre() vfMeta {
	c := r.cache
	m := vfMeta{ranges: map[int]cellRange{}}
	for _, cell := range c.cells {
		m.cells = append(m.cells, cacheCell{pos: cell.pos, sequences: append([]int(nil), cell.sequences...)})
	}
	for k, v := range c.cellRanges {
		m.ranges[k] = v
	}
	return m
}

// rowSnapshot: the K identity/shift of every location in every layer (what a refused operation must not touch)
func (r *vfRun) rowSnapshot() string {
	var sb strings.Builder
	for _, l := range r.layers {
		if r.cache.keys[l] == nil {
			continue
		}
		for loc := range r.cache.cells {
			id, sh, _ := r.rowK(l, loc)
			fmt.Fprintf(&sb, "%d.%d,", id, sh)
		}
		sb.WriteByte(';')
	}
	return sb.String()
}

func (r *vfRun) metaSame(before vfMeta) bool {
	c := r.cache
	same := len(before.cells) == len(c.cells) && len(before.ranges) == len(c.cellRanges)
	for i := 0; same && i < len(c.cells); i++ {
		same = before.cells[i].pos == c.cells[i].pos && slices.Equal(before.cells[i].sequences, c.cells[i].sequences)
	}
	for k, v := range before.ranges {
		same = same && c.cellRanges[k] == v
	}
	return same
}

func (r *vfRun) reservePost(opi int, op vfOp, ctx ml.Context, err error, before vfMeta) string {
	c := r.cache
	if r.out != nil {
		r.out.Count("reserve_passes")
	}
	if err != nil {
		r.l2("reserve-pass-error", fmt.Sprintf("op %d: %v", opi, err))
		return ":" + vfErrClass(err)
	}
	if !r.metaSame(before) {
		r.l2("reserve-pass-changed-metadata", fmt.Sprintf("op %d (%s)", opi, op.String()))
	}
	if c.keys[r.layers[0]] == nil {
		if r.out != nil {
			r.out.Count("reserve_passes_before_first_put")
		}
		return ":nolayers"
	}
	if r.out != nil {
		r.out.Count("reserve_passes_observed")
	}
	r.reserve = true
	defer func() { r.reserve = false }()
	ctx.Compute() // (only the mask's dtype conversion is in the graph)
	return r.observe(opi, op.toks, ctx, nil, true)
}

func (r *vfRun) step(opi int, op vfOp) {
	c := r.cache
	var x string
	fwdOK := false
	switch op.kind {
	case 'F':
		x, fwdOK = r.forward(opi, op)
		x = "F:" + x
	case 'V':
		ctx := r.backend.passContext()
		before := r.reservePre()
		err := c.StartForward(ctx, vfBatch(op), true)
		ctx.Compute() // (only the mask's dtype conversion is in the graph)
		x = "V" + r.reservePost(opi, op, ctx, err, before)
		fwdOK = true
		ctx.Close()
	case 'C':
		c.CopyPrefix(op.a, op.b, int32(op.c))
		r.acctCopy(op)
		x = "C"
	case 'R':
		before := r.reservePre()
		rowsBefore := r.rowSnapshot()
		err := c.Remove(op.a, int32(op.b), int32(op.c))
		x = "R:" + vfErrClass(err)
		if err != nil && !r.shadow.unsound {
			// a removal that reports failure must not have removed, moved or re-shifted anything (F28)
			metaChanged, rowsChanged := !r.metaSame(before), rowsBefore != r.rowSnapshot()
			if metaChanged || rowsChanged {
				r.l2("remove-error-mutated-state", fmt.Sprintf("op %d (%s): Remove returned %s after changing the cells of sequence %d (cells_changed=%v rows_changed=%v)",
					opi, op.String(), vfErrClass(err), op.a, metaChanged, rowsChanged))
			}
		}
		r.acctRemove(opi, op, err)
	case 'Q':
		res := c.CanResume(op.a, int32(op.b))
		r.acctQ(opi, op, res)
		x = fmt.Sprintf("Q:%v", res)
	case 'E':
		ctx := r.backend.passContext()
		c.SetCausal(ctx, CausalOptions{Except: op.ex})
		ctx.Compute()
		if r.passOp >= 0 {
			x = "E" + r.observeE(opi, op, ctx)
			fwdOK = true
		} else {
			x = "E:stale" // not in an accepted pass: the (cached) mask belongs to an older batch; not observed
		}
		ctx.Close()
	}
	if op.kind != 'F' && op.kind != 'E' {
		r.passOp = -1
	}
	r.finish(opi, op, x, fwdOK)
}

// observeE: exposures of the current batch after SetCausal; judged only while the accepted pass is current
func (r *vfRun) observeE(opi int, op vfOp, ctx ml.Context) string {
	ex := map[int]bool{}
	for _, i := range op.ex {
		ex[i] = true
	}
	if r.out != nil {
		r.out.Count("setcausal_ops")
		if r.passOp >= 0 {
			r.out.Count("setcausal_judged")
		}
	}
	return r.observe(opi, r.curToks, ctx, ex, r.passOp >= 0)
}

func (r *vfRun) finish(opi int, op vfOp, x string, fwdOK bool) {
	if r.backend.dropped > 0 && !r.shadow.unsound {
		// a copy the cache put into a graph (defrag move, RoPE re-shift, Put, mask conversion) was never executed
		r.l2("graph-node-never-computed", fmt.Sprintf("after op %d (%s): %d forwarded node(s) dropped by Close without Compute", opi, op.String(), r.backend.dropped))
	}
	if op.kind != 'Q' {
		r.stateCheck(opi, op.String())
	}
	r.obsX = append(r.obsX, x+";abs="+r.absString())
	r.obsL = append(r.obsL, r.layoutString(fwdOK))
}

func (r *vfRun) acctCopy(op vfOp) {
	sh := r.shadow
	if r.out != nil {
		r.out.Count("copyprefix_ops")
		for _, cell := range r.cache.cells {
			if len(cell.sequences) > 1 {
				r.out.Count("copyprefix_left_shared_cells")
				break
			}
		}
	}
	if !sh.unsound {
		if op.a == op.b || op.c < 0 {
			sh.unsound = true
		} else {
			sh.copyPrefix(op.a, op.b, int32(op.c))
		}
	}
}

// acctRemove: err is what the caller of Remove saw (behind a wrapper: the wrapper's result; on an
// error the documented contract is that the whole sequence must be cleared, in every wrapped cache)
func (r *vfRun) acctRemove(opi int, op vfOp, err error) {
	sh := r.shadow
	cls := vfErrClass(err)
	if r.out != nil {
		r.out.Count("remove_" + cls)
	}
	if sh.unsound {
		return
	}
	b, e := int32(op.b), int32(op.c)
	f := sh.fl(op.a)
	switch {
	case b < 0 || e < b:
		sh.unsound = true
	case err != nil:
		if e == math.MaxInt32 {
			r.l2("remove-to-end-failed", fmt.Sprintf("op %d: %v", opi, err))
		}
		if cls == "err:other" {
			r.l2("remove-unexpected-error", fmt.Sprintf("op %d: %v", opi, err))
		}
		f.poisoned = true
	default:
		// (the shadow's picture of a poisoned sequence is stale until it is cleared: no verdict then)
		if bad := sh.remove(op.a, b, e); bad != "" && !f.poisoned {
			r.l2("remove-shifted-shared-entry", fmt.Sprintf("op %d: %s", opi, bad))
		}
		if r.out != nil {
			if e == math.MaxInt32 {
				r.out.Count("remove_ok_to_end")
			} else {
				r.out.Count("remove_ok_with_shift")
			}
		}
		switch {
		case e == math.MaxInt32 && b == 0:
			*f = vfSeqFlags{}
		case e == math.MaxInt32:
			q, ok := r.lastQ[op.a]
			if sh.window != math.MaxInt32 && !(ok && q[0] == op.b && q[1] == 1 && q[2] == opi-1) {
				f.misuse = true
			}
			f.pending = false
		default:
			if sh.window != math.MaxInt32 && e > b {
				f.mid = true
			}
		}
	}
}

func (r *vfRun) acctQ(opi int, op vfOp, res bool) {
	ri := 0
	if res {
		ri = 1
	}
	r.lastQ[op.a] = [3]int{op.b, ri, opi}
	if r.out != nil {
		r.out.Count(fmt.Sprintf("canresume_%v", res))
	}
}

// ------------------------------------------------------------------ WrapperCache runner

// vfWRun drives the REAL WrapperCache over two Causal caches (sliding window + full causal, the
// gemma-style combination) with one shadow specification per wrapped cache.
type vfWRun struct {
	w     *WrapperCache
	views []*vfRun
	obsX  []string
	obsL  []string
}

// order 1 = [SWA, causal] (gemma2/gemma3), 2 = [causal, SWA]
func vfNewWRun(order int, cf vfConfig, out *zzverif.Out, line string, silent bool) *vfWRun {
	backend := &vfBackend{cfg: ml.CacheConfig{CachePadding: cf.cachePad, MaskBatchPadding: cf.batchPad, PermutedV: cf.permV}, maxNodes: cf.maxNodes}
	if cf.maskF16 {
		backend.cfg.MaskDType = ml.DTypeF16
	}
	var sf shiftFn
	if cf.hasShift {
		sf = vfShift
	}
	swa, full := NewSWACache(cf.window, sf), NewCausalCache(sf)
	caches := []*Causal{swa, full}
	if order == 2 {
		caches = []*Causal{full, swa}
	}
	w := NewWrapperCache(caches[0], caches[1])
	w.Init(backend, ml.DTypeF16, cf.maxSeq, cf.capacity, cf.maxBatch)
	wr := &vfWRun{w: w}
	for i, c := range caches {
		idx := i
		cfi := cf
		cfi.window = c.windowSize
		t := &vfTaint{tainted: map[int]bool{}}
		backend.taints = append(backend.taints, t)
		wr.views = append(wr.views, &vfRun{layers: vfWLayerSets[cf.layerSet%len(vfWLayerSets)][i], passOp: -1, tag: "kw-x", api: w, sel: func() { w.SetLayerType(idx) }, taint: t, cf: cfi, cache: c,
			backend: backend, line: line, out: out, seenL2: map[string]bool{}, lastQ: map[int][3]int{},
			shadow: &vfShadow{window: c.windowSize, flags: map[int]*vfSeqFlags{}, unsound: silent}})
	}
	return wr
}

func (wr *vfWRun) step(opi int, op vfOp) {
	var x string
	details := make([]string, len(wr.views))
	fwdOK := false
	switch op.kind {
	case 'F':
		ctx := wr.views[0].backend.passContext()
		batch := vfBatch(op)
		err := wr.w.StartForward(ctx, batch, false)
		// which wrapped caches had their StartForward executed (white box: curPositions aliases the batch)
		ran := make([]bool, len(wr.views))
		last := -1
		for i, v := range wr.views {
			ran[i] = len(batch.Positions) > 0 && len(v.cache.curPositions) > 0 && &v.cache.curPositions[0] == &batch.Positions[0]
			if ran[i] {
				last = i
			}
			v.fwdPre(op, ran[i])
		}
		if err != nil {
			x = "F:" + vfErrClass(err)
			for i, v := range wr.views {
				v.fwdFail(opi, len(op.toks), err, i == last)
			}
			if out := wr.views[0].out; out != nil {
				out.Count(fmt.Sprintf("wrapper_fwd_rejected_by_cache_%d", last))
				if last > 0 {
					out.Count("wrapper_unwinds")
				}
			}
		} else {
			x = "F:ok"
			fwdOK = true
			for i, v := range wr.views {
				details[i] = strings.TrimPrefix(v.fwdOK(opi, op, ctx), "ok")
			}
		}
		ctx.Close()
	case 'V':
		ctx := wr.views[0].backend.passContext()
		var before []vfMeta
		for _, v := range wr.views {
			before = append(before, v.reservePre())
		}
		err := wr.w.StartForward(ctx, vfBatch(op), true)
		ctx.Compute()
		for i, v := range wr.views {
			details[i] = v.reservePost(opi, op, ctx, err, before[i])
		}
		x = "V"
		fwdOK = true
		ctx.Close()
	case 'C':
		wr.w.CopyPrefix(op.a, op.b, int32(op.c))
		for _, v := range wr.views {
			v.acctCopy(op)
		}
		x = "C"
	case 'R':
		var before []vfMeta
		for _, v := range wr.views {
			before = append(before, v.reservePre())
		}
		// which wrapped cache would refuse (read-only evaluation of the documented refusal on each cache's cells)
		refuser := -1
		for i, v := range wr.views {
			for _, cell := range v.cache.cells {
				if slices.Contains(cell.sequences, op.a) && !(cell.pos >= int32(op.b) && cell.pos < int32(op.c)) &&
					cell.pos >= int32(op.c) && len(cell.sequences) > 1 && refuser < 0 {
					refuser = i
				}
			}
		}
		err := wr.w.Remove(op.a, int32(op.b), int32(op.c))
		x = "R:" + vfErrClass(err)
		if out := wr.views[0].out; out != nil && refuser >= 0 {
			out.Count(fmt.Sprintf("wrapper_remove_refused_by_cache_%d", refuser))
		}
		if err != nil && !wr.views[0].shadow.unsound {
			for i, v := range wr.views {
				if !v.metaSame(before[i]) {
					// a wrapped removal that reports failure must not have been carried out in any wrapped cache (F29)
					wr.views[0].l2("wrapper-remove-error-mutated-state", fmt.Sprintf("op %d (%s): WrapperCache.Remove returned %s after wrapped cache %d had carried the removal out", opi, op.String(), vfErrClass(err), i))
					break
				}
			}
		}
		for _, v := range wr.views {
			v.acctRemove(opi, op, err)
		}
	case 'E':
		ctx := wr.views[0].backend.passContext()
		// as gemma3 does it: per layer type, on the underlying cache
		for i := range wr.views {
			wr.w.SetLayerType(i)
			wr.w.UnderlyingCache().(*Causal).SetCausal(ctx, CausalOptions{Except: op.ex})
		}
		ctx.Compute()
		if wr.views[0].passOp >= 0 {
			for i, v := range wr.views {
				details[i] = v.observeE(opi, op, ctx)
			}
			x = "E"
			fwdOK = true
		} else {
			x = "E:stale"
		}
		ctx.Close()
	case 'Q':
		res := wr.w.CanResume(op.a, int32(op.b))
		if !wr.views[0].shadow.unsound {
			all := true
			for _, v := range wr.views {
				all = all && v.cache.CanResume(op.a, int32(op.b))
			}
			if all != res {
				wr.views[0].l2("wrapper-canresume-not-conjunction", fmt.Sprintf("op %d: wrapper %v, conjunction %v", opi, res, all))
			}
		}
		for _, v := range wr.views {
			v.acctQ(opi, op, res)
		}
		x = fmt.Sprintf("Q:%v", res)
	}
	var xs, ls []string
	for i, v := range wr.views {
		if op.kind != 'F' && op.kind != 'E' {
			v.passOp = -1
		}
		v.finish(opi, op, details[i], fwdOK)
		xs = append(xs, v.obsX[len(v.obsX)-1])
		ls = append(ls, v.obsL[len(v.obsL)-1])
	}
	wr.obsX = append(wr.obsX, x+" # "+strings.Join(xs, " # "))
	wr.obsL = append(wr.obsL, strings.Join(ls, " # "))
}

func vfWExec(order int, cf vfConfig, ops []vfOp, out *zzverif.Out) (obsX, obsL string) {
	wr := vfNewWRun(order, cf, out, fmt.Sprintf("%d %s", order, vfHistory(cf, ops)), false)
	defer wr.w.Close()
	func() {
		defer func() {
			if p := recover(); p != nil {
				wr.obsX = append(wr.obsX, "panic")
				wr.obsL = append(wr.obsL, "panic")
				wr.views[0].l2("panic", fmt.Sprint(p))
			}
		}()
		for i, op := range ops {
			wr.step(i, op)
		}
	}()
	if out != nil {
		out.Count("cases")
		out.Count("wrapper_histories")
		out.Add("ops", len(ops))
		for _, v := range wr.views {
			out.Add("defrag_row_moves", v.taint.moves)
			out.Add("defrag_multirow_moves", v.taint.multiRow)
		}
	}
	return strings.Join(wr.obsX, " | "), strings.Join(wr.obsL, " | ")
}

// vfExec runs one history on a fresh real cache.
func vfExec(cf vfConfig, ops []vfOp, out *zzverif.Out) (obsX, obsL string) {
	r := vfNewRun(cf, out, vfHistory(cf, ops), false)
	defer r.cache.Close()
	func() {
		defer func() {
			if p := recover(); p != nil {
				msg := fmt.Sprint(p)
				r.obsX = append(r.obsX, "panic")
				r.obsL = append(r.obsL, "panic")
				r.l2("panic", msg)
			}
		}()
		for i, op := range ops {
			r.step(i, op)
		}
	}()
	if out != nil {
		out.Count("cases")
		out.Add("ops", len(ops))
		out.Add("defrag_row_moves", r.taint.moves)
		out.Add("defrag_multirow_moves", r.taint.multiRow)
		if r.taint.moves > 0 {
			out.Count("histories_with_defrag")
		}
		if r.shadow.unsound {
			out.Count("histories_off_contract")
		}
	}
	return strings.Join(r.obsX, " | "), strings.Join(r.obsL, " | ")
}

// ------------------------------------------------------------------ generators

type vfGen struct {
	r      *zzverif.Rng
	cf     vfConfig
	nseq   int
	length map[int]int32 // runner-style bookkeeping: number of inputs recorded per sequence
	nextID int
	ops    []vfOp
	hadOK  bool
	run    func(opi int, op vfOp) string // executes the op on the generator's own real cache, returns its observation
	dead   bool
}

func vfCells(cf vfConfig) int {
	var n int
	if cf.window == math.MaxInt32 || cf.capacity < int(cf.window) {
		n = cf.maxSeq * cf.capacity
	} else if cf.variant&8 != 0 {
		n = cf.maxSeq * (int(cf.window) + cf.maxBatch)
	} else {
		n = cf.maxSeq*int(cf.window) + cf.maxBatch
	}
	return roundUp(n, cf.cachePad)
}

func vfGenConfig(r *zzverif.Rng) vfConfig {
	cf := vfConfig{window: math.MaxInt32, variant: zzverif.EnvInt("VERIF_C06_VARIANT", 0)}
	if r.Chance(2, 5) {
		cf.window = zzverif.Pick(r, []int32{1, 2, 4, 8})
	}
	cf.maxSeq = r.Range(1, 4)
	switch r.Intn(4) {
	case 0:
		cf.capacity = r.Range(1, 4)
	case 1:
		cf.capacity = r.Range(1, 8)
	default:
		cf.capacity = r.Range(1, 32/cf.maxSeq)
	}
	cf.maxBatch = r.Range(1, 8)
	cf.cachePad = zzverif.Pick(r, []int{1, 1, 1, 4, 32, 2})
	cf.batchPad = zzverif.Pick(r, []int{1, 1, 8, 3})
	cf.hasShift = r.Chance(5, 6)
	cf.permV = r.Chance(1, 3)
	cf.maskF16 = r.Chance(1, 4)
	cf.maxNodes = zzverif.Pick(r, []int{10, 16, 40, 8192})
	if r.Chance(2, 3) {
		cf.layerSet = r.Intn(len(vfLayerSets))
	}
	return cf
}

func vfNewRun(cf vfConfig, out *zzverif.Out, line string, silent bool) *vfRun {
	backend := &vfBackend{cfg: ml.CacheConfig{CachePadding: cf.cachePad, MaskBatchPadding: cf.batchPad, PermutedV: cf.permV}, maxNodes: cf.maxNodes}
	if cf.maskF16 {
		backend.cfg.MaskDType = ml.DTypeF16
	}
	var sf shiftFn
	if cf.hasShift {
		sf = vfShift
	}
	var cache *Causal
	if cf.window == math.MaxInt32 {
		cache = NewCausalCache(sf)
	} else {
		cache = NewSWACache(cf.window, sf)
	}
	cache.Init(backend, ml.DTypeF16, cf.maxSeq, cf.capacity, cf.maxBatch)
	t := &vfTaint{tainted: map[int]bool{}}
	backend.taints = append(backend.taints, t)
	return &vfRun{layers: vfLayerSets[cf.layerSet%len(vfLayerSets)], passOp: -1, tag: "kv-x", api: cache, sel: func() {}, taint: t, cf: cf, cache: cache, backend: backend, line: line, out: out,
		seenL2: map[string]bool{}, lastQ: map[int][3]int{},
		shadow: &vfShadow{window: cf.window, flags: map[int]*vfSeqFlags{}, unsound: silent}}
}

func (g *vfGen) seq() int { return g.r.Intn(g.nseq) }

// do appends an op and executes it on the generator's own real cache; returns its observation.
func (g *vfGen) do(op vfOp) (res string) {
	g.ops = append(g.ops, op)
	defer func() {
		if p := recover(); p != nil {
			g.dead = true
			res = "panic"
		}
	}()
	return g.run(len(g.ops)-1, op)
}

func (g *vfGen) setCausal(n int) {
	lo := g.r.Intn(n)
	hi := g.r.Range(lo, n-1)
	ex := []int{}
	for i := lo; i <= hi; i++ {
		ex = append(ex, i)
	}
	switch g.r.Intn(8) {
	case 0:
		ex = []int{}
	case 1:
		ex = append(ex, n+g.r.Intn(3)) // index beyond the batch
	}
	g.do(vfOp{kind: 'E', ex: ex})
}

// reserve: a reserve pass as the runner's graph reservation issues it (sequence 0, positions 0..n-1, up to
// the maximum batch) or shaped like the next real batch; it never changes the cache
func (g *vfGen) reserve() {
	op := vfOp{kind: 'V'}
	n := g.r.Range(1, g.cf.maxBatch)
	if g.r.Chance(1, 2) {
		for i := 0; i < n; i++ {
			op.toks = append(op.toks, vfTok{seq: 0, pos: int32(i)})
		}
	} else {
		local := map[int]int32{}
		s := g.seq()
		for i := 0; i < n; i++ {
			if g.r.Chance(1, 3) {
				s = g.seq()
			}
			op.toks = append(op.toks, vfTok{seq: s, pos: g.length[s] + local[s]})
			local[s]++
		}
	}
	g.do(op)
}

// forkShift: fork a short prefix off a sequence, then remove from the middle of that prefix in the source: the
// cells that would have to shift are shared in the full cache, while a sliding-window cache may have evicted
// the shared prefix already (the wrapped caches then disagree on whether the removal is possible: F29)
func (g *vfGen) forkShift() {
	s := g.seq()
	L := g.length[s]
	if L < 3 || g.nseq < 2 {
		g.fwd(false)
		return
	}
	d := (s + 1 + g.r.Intn(g.nseq-1)) % g.nseq
	n := int32(g.r.Range(2, int(min(L-1, 4))))
	g.do(vfOp{kind: 'C', a: s, b: d, c: int(n)})
	g.length[d] = n
	b := int32(g.r.Range(0, int(n)-2))
	e := b + 1
	g.remove(s, b, e, L-(e-b))
}

func (g *vfGen) clear(s int) {
	g.do(vfOp{kind: 'R', a: s, b: 0, c: math.MaxInt32})
	g.length[s] = 0
}

func (g *vfGen) fwd(wild bool) {
	n := g.r.Range(1, g.cf.maxBatch)
	if g.r.Chance(1, 2) {
		n = g.r.Range(1, min(n, 3))
	}
	op := vfOp{kind: 'F'}
	mixed := g.r.Chance(1, 3)
	s := g.seq()
	local := map[int]int32{}
	var order []int
	for i := 0; i < n; i++ {
		if mixed {
			s = g.seq()
		}
		pos := g.length[s] + local[s]
		if local[s] == 0 {
			order = append(order, s)
		}
		local[s]++
		if wild && g.r.Chance(1, 4) {
			pos = int32(g.r.Range(0, 12))
		}
		g.nextID++
		op.toks = append(op.toks, vfTok{seq: s, pos: pos, id: g.nextID})
	}
	res := g.do(op)
	if strings.HasPrefix(res, "F:ok") {
		for s, k := range local {
			g.length[s] += k
		}
		g.hadOK = true
		// like gemma3's image tokens: a run of batch indices attends non-causally in this pass
		if g.r.Chance(1, 4) {
			g.setCausal(n)
			if g.r.Chance(1, 4) {
				g.setCausal(n) // changed (or identical: no rebuild) options within the same pass
			}
		}
	} else if g.r.Chance(2, 3) {
		// cache full: free a sequence, as a server dropping a slot would
		g.clear(zzverif.Pick(g.r, order))
	}
}

// resume-style suffix removal as loadCacheSlot does it: CanResume first, restart from 0 if refused
func (g *vfGen) removeSuffix(s int, b int32) {
	if g.cf.window != math.MaxInt32 && b > 0 && g.r.Chance(7, 8) {
		res := g.do(vfOp{kind: 'Q', a: s, b: int(b)})
		if strings.HasPrefix(res, "Q:false") && g.r.Chance(7, 8) {
			b = 0
		}
	}
	g.remove(s, b, math.MaxInt32, b)
}

// remove issues Remove and, if it fails, clears the sequence (the documented recovery)
func (g *vfGen) remove(s int, b, e int32, newLen int32) {
	res := g.do(vfOp{kind: 'R', a: s, b: int(b), c: int(e)})
	if strings.HasPrefix(res, "R:ok") {
		g.length[s] = newLen
	} else if g.r.Chance(7, 8) {
		g.clear(s)
	} else {
		g.length[s] = newLen
	}
}

func (g *vfGen) step(wild bool) {
	r := g.r
	s := g.seq()
	L := g.length[s]
	switch x := r.Intn(20); {
	case x < 9:
		g.fwd(wild)
	case x < 11: // suffix removal
		b := int32(0)
		if L > 0 {
			b = int32(r.Range(0, int(L)))
		}
		g.removeSuffix(s, b)
	case x < 14: // middle / prefix removal with shift
		if L < 1 {
			g.fwd(wild)
			return
		}
		b := int32(r.Range(0, int(L)-1))
		if r.Chance(1, 3) {
			b = 0
		}
		e := b + int32(r.Range(1, int(L-b)))
		g.remove(s, b, e, L-(e-b))
	case x < 15: // everything
		g.clear(s)
	case x < 18: // fork
		d := g.seq()
		if d == s {
			d = (s + 1) % max(g.nseq, 2)
		}
		n := int32(0)
		if L > 0 {
			n = int32(r.Range(0, int(L)))
		}
		if r.Chance(1, 2) {
			n = L
		}
		g.do(vfOp{kind: 'C', a: s, b: d, c: int(n)})
		g.length[d] = n
		if r.Chance(5, 6) {
			// loadCacheSlot: numPast <= n, leaving at least one input to process
			b := n
			if b > 0 && r.Chance(1, 2) {
				b = int32(r.Range(0, int(n)))
			}
			g.removeSuffix(d, b)
		}
	case x < 19:
		g.do(vfOp{kind: 'Q', a: s, b: r.Range(0, int(L)+1)})
	default:
		if wild && g.hadOK && r.Chance(1, 2) {
			g.setCausal(r.Range(1, 4)) // stray SetCausal outside an accepted pass (state only, not observed)
		} else if wild {
			g.do(vfOp{kind: 'R', a: s, b: r.Range(-1, 6), c: zzverif.Pick(r, []int{-1, 0, 1, 3, 5, 9, math.MaxInt32})})
		} else {
			g.fwd(false)
		}
	}
}

func vfGenHistory(r *zzverif.Rng) (vfConfig, []vfOp, string) {
	cf := vfGenConfig(r)
	probe := vfNewRun(cf, nil, "", true)
	defer probe.cache.Close()
	g := &vfGen{r: r, cf: cf, nseq: r.Range(1, 4), length: map[int]int32{}, run: func(opi int, op vfOp) string {
		probe.step(opi, op)
		return probe.obsX[len(probe.obsX)-1]
	}}
	kind := "valid"
	wild := r.Chance(1, 8)
	if wild {
		kind = "wild"
	}
	nops := r.Pick3(3, 14, 40)
	switch {
	case !wild && r.Chance(1, 3):
		// fill / punch holes / refill: aimed at defrag
		kind = "defrag"
		g.nseq = r.Range(1, 3)
		for len(g.ops) < nops && !g.dead {
			for k := r.Range(1, 6); k > 0 && !g.dead; k-- {
				g.fwd(false)
			}
			for k := r.Range(1, 3); k > 0 && !g.dead; k-- {
				s := g.seq()
				L := g.length[s]
				if L < 2 {
					continue
				}
				b := int32(r.Range(0, int(L)-1))
				e := b + int32(r.Range(1, min(int(L-b), 3)))
				if r.Chance(1, 4) {
					g.removeSuffix(s, b)
				} else {
					g.remove(s, b, e, L-(e-b))
				}
			}
		}
	default:
		for len(g.ops) < nops && !g.dead {
			if r.Chance(1, 12) {
				g.reserve()
				continue
			}
			g.step(wild)
		}
	}
	return cf, g.ops, kind
}

// vfGenWHistory: histories for WrapperCache(SWA, causal): sizes chosen so that one wrapped cache
// fills up before the other (a later cache rejecting a batch the earlier one accepted => unwind)
func vfGenWHistory(r *zzverif.Rng) (vfConfig, []vfOp) {
	cf := vfConfig{variant: zzverif.EnvInt("VERIF_C06_VARIANT", 0), wrap: 1}
	if r.Chance(1, 4) {
		cf.wrap = 2
	}
	cf.window = zzverif.Pick(r, []int32{1, 2, 4, 4})
	cf.maxSeq = r.Range(1, 3)
	cf.capacity = int(cf.window) + r.Range(-1, 4)
	if cf.capacity < 1 {
		cf.capacity = 1
	}
	cf.maxBatch = r.Range(1, 4)
	cf.cachePad = zzverif.Pick(r, []int{1, 1, 1, 2, 4})
	cf.batchPad = zzverif.Pick(r, []int{1, 1, 8})
	cf.hasShift = r.Chance(7, 8)
	cf.permV = r.Chance(1, 3)
	cf.maskF16 = r.Chance(1, 4)
	cf.layerSet = r.Intn(len(vfWLayerSets))
	cf.maxNodes = zzverif.Pick(r, []int{10, 40, 8192})
	probe := vfNewWRun(cf.wrap, cf, nil, "", true)
	defer probe.w.Close()
	g := &vfGen{r: r, cf: cf, nseq: r.Range(1, cf.maxSeq+1), length: map[int]int32{}, run: func(opi int, op vfOp) string {
		probe.step(opi, op)
		return probe.obsX[len(probe.obsX)-1]
	}}
	nops := r.Pick3(4, 14, 30)
	for len(g.ops) < nops && !g.dead {
		if r.Chance(1, 12) {
			g.reserve()
		} else if r.Chance(1, 5) {
			g.forkShift()
		} else if r.Chance(1, 3) {
			g.fwd(false)
		} else {
			g.step(false)
		}
	}
	return cf, g.ops
}

// ------------------------------------------------------------------ exhaustive small scope

func vfExhaustive(out *zzverif.Out, depth int, configs []vfConfig) {
	for _, cf := range configs {
		var rec func(ops []vfOp, length [2]int32, nextID int)
		rec = func(ops []vfOp, length [2]int32, nextID int) {
			if len(ops) == depth {
				vfEmit(out, cf, ops)
				out.Count("exhaustive_histories")
				return
			}
			f := func(toks ...vfTok) vfOp { return vfOp{kind: 'F', toks: toks} }
			L0, L1 := length[0], length[1]
			type alt struct {
				op  vfOp
				len [2]int32
				ids int
			}
			alts := []alt{
				{f(vfTok{0, L0, nextID}), [2]int32{L0 + 1, L1}, 1},
				{f(vfTok{1, L1, nextID}), [2]int32{L0, L1 + 1}, 1},
				{f(vfTok{0, L0, nextID}, vfTok{0, L0 + 1, nextID + 1}), [2]int32{L0 + 2, L1}, 2},
				{vfOp{kind: 'R', a: 0, b: 0, c: math.MaxInt32}, [2]int32{0, L1}, 0},
				{vfOp{kind: 'R', a: 1, b: 0, c: math.MaxInt32}, [2]int32{L0, 0}, 0},
				// reserve pass shaped like the next batch of sequence 0
				{vfOp{kind: 'V', toks: []vfTok{{0, L0, 0}, {0, L0 + 1, 0}}}, [2]int32{L0, L1}, 0},
			}
			if L0 >= 1 {
				alts = append(alts,
					alt{vfOp{kind: 'R', a: 0, b: int(L0) - 1, c: math.MaxInt32}, [2]int32{L0 - 1, L1}, 0},
					alt{vfOp{kind: 'R', a: 0, b: 0, c: 1}, [2]int32{L0 - 1, L1}, 0},
					alt{vfOp{kind: 'C', a: 0, b: 1, c: int(L0)}, [2]int32{L0, L0}, 0})
			}
			if L0 >= 2 {
				alts = append(alts,
					alt{vfOp{kind: 'R', a: 0, b: 1, c: 2}, [2]int32{L0 - 1, L1}, 0},
					alt{vfOp{kind: 'C', a: 0, b: 1, c: int(L0) - 1}, [2]int32{L0, L0 - 1}, 0})
			}
			for _, a := range alts {
				rec(append(append([]vfOp(nil), ops...), a.op), a.len, nextID+a.ids)
			}
		}
		rec(nil, [2]int32{}, 1)
	}
}

// ------------------------------------------------------------------ EncoderCache

// An encoder history is  enc <permV> <nops> op*  with
//
//	S n base idx reserve   StartForward of n tokens at positions base.., one image at index idx
//	P id                   Put of data `id` on every layer
//	R begin end            Remove(0, begin, end)
//
// Observation after every op (L1, oracle command `enc`): EncoderCached, encoderPos, what Get returns per layer.
type vfEncOp struct {
	kind       byte
	a, b, c, d int
}

func vfEncLine(permV bool, ops []vfEncOp) string {
	var sb strings.Builder
	pv := 0
	if permV {
		pv = 1
	}
	fmt.Fprintf(&sb, "enc %d %d", pv, len(ops))
	for _, o := range ops {
		switch o.kind {
		case 'S':
			fmt.Fprintf(&sb, " S %d %d %d %d", o.a, o.b, o.c, o.d)
		case 'P':
			fmt.Fprintf(&sb, " P %d", o.a)
		case 'R':
			fmt.Fprintf(&sb, " R %d %d", o.a, o.b)
		}
	}
	return sb.String()
}

func vfEncParse(line string) (bool, []vfEncOp) {
	f := strings.Fields(line)
	p := 1
	next := func() int {
		v, err := strconv.Atoi(f[p])
		if err != nil {
			panic(err)
		}
		p++
		return v
	}
	permV := next() != 0
	n := next()
	var ops []vfEncOp
	for i := 0; i < n; i++ {
		k := f[p]
		p++
		switch k {
		case "S":
			ops = append(ops, vfEncOp{kind: 'S', a: next(), b: next(), c: next(), d: next()})
		case "P":
			ops = append(ops, vfEncOp{kind: 'P', a: next()})
		case "R":
			ops = append(ops, vfEncOp{kind: 'R', a: next(), b: next()})
		}
	}
	return permV, ops
}

func vfEncGen(r *zzverif.Rng) (bool, []vfEncOp) {
	var ops []vfEncOp
	id := 0
	for step := r.Range(3, 14); step > 0; step-- {
		if r.Chance(2, 3) {
			n := r.Range(1, 4)
			res := 0
			if r.Chance(1, 5) {
				res = 1
			}
			ops = append(ops, vfEncOp{kind: 'S', a: n, b: r.Range(0, 20), c: r.Intn(n), d: res})
			if r.Chance(4, 5) {
				id++
				ops = append(ops, vfEncOp{kind: 'P', a: id})
			}
		} else {
			bgn := r.Range(0, 22)
			end := bgn + r.Range(0, 6)
			if r.Chance(1, 3) {
				end = math.MaxInt32
			}
			ops = append(ops, vfEncOp{kind: 'R', a: bgn, b: end})
		}
	}
	return r.Chance(1, 2), ops
}

// vfEncExec drives the real EncoderCache (position independent, single sequence).  L2 (independent
// shadow): what Get returns per layer is what was last Put there, the mask is nil, EncoderCached() is
// true exactly when an encoder output was stored by a real (non-reserve) pass and its position has
// not been removed since, so a caller never reuses the output of a removed input.
func vfEncExec(out *zzverif.Out, permV bool, ops []vfEncOp) {
	line := vfEncLine(permV, ops)
	backend := &vfBackend{cfg: ml.CacheConfig{PermutedV: permV}, maxNodes: 8192}
	c := NewEncoderCache()
	c.Init(backend, ml.DTypeF16, 1, 16, 8)
	defer c.Close()
	seen := map[string]bool{}
	fail := func(kind, detail string) {
		if !seen[kind] {
			seen[kind] = true
			out.L2(kind, line, detail)
		}
	}
	cached, pos, curPos, reserve := false, int32(0), int32(0), false
	last := map[int]int{}
	var obs []string
	ctx := backend.NewContext()
	for i, o := range ops {
		switch o.kind {
		case 'S':
			b := input.Batch{Positions: make([]int32, o.a), Sequences: make([]int, o.a), Multimodal: []input.MultimodalIndex{{Index: o.c}}}
			for k := range b.Positions {
				b.Positions[k] = int32(o.b + k)
			}
			if err := c.StartForward(ctx, b, o.d != 0); err != nil {
				fail("encoder-forward-error", err.Error())
			}
			curPos, reserve = int32(o.b+o.c), o.d != 0
		case 'P':
			for l := 0; l < vfLayers; l++ {
				c.SetLayer(l)
				data := make([]float32, 6)
				for k := range data {
					data[k] = float32(o.a)
				}
				kt, _ := ctx.FromFloatSlice(data, 1, 2, 3)
				vt, _ := ctx.FromFloatSlice(data, 1, 2, 3)
				c.Put(ctx, kt, vt)
				last[l] = o.a
			}
			ctx.Compute()
			if !reserve {
				cached, pos = true, curPos
			}
		case 'R':
			if err := c.Remove(0, int32(o.a), int32(o.b)); err != nil {
				fail("encoder-remove-error", err.Error())
			}
			if cached && pos >= int32(o.a) && pos < int32(o.b) {
				cached = false
			}
		}
		if c.EncoderCached() != cached {
			fail("encoder-cached-flag", fmt.Sprintf("op %d: EncoderCached()=%v, want %v (stored position %d)", i, c.EncoderCached(), cached, pos))
		}
		ids := make([]int, vfLayers)
		for l := 0; l < vfLayers; l++ {
			c.SetLayer(l)
			k, v, m := c.Get(ctx)
			if m != nil {
				fail("encoder-mask", "mask is not nil")
			}
			want, have := last[l]
			if !have {
				if k != nil || v != nil {
					fail("encoder-stale-output", fmt.Sprintf("op %d layer %d: tensors before any Put", i, l))
				}
				continue
			}
			ids[l] = int(k.Floats()[0])
			for _, t := range []ml.Tensor{k, v} {
				for _, x := range t.Floats() {
					if int(x) != want {
						fail("encoder-stale-output", fmt.Sprintf("op %d layer %d exposes data %v, last Put was %d", i, l, x, want))
						break
					}
				}
			}
		}
		if !c.CanResume(0, int32(i)) {
			fail("encoder-canresume", "CanResume is false")
		}
		obs = append(obs, fmt.Sprintf("cached=%v pos=%d l0=%d l1=%d", c.EncoderCached(), c.encoderPos, ids[0], ids[1]))
	}
	ctx.Close()
	out.Case(line, strings.Join(obs, " | "))
	out.Count("encoder_histories")
	out.Count("cases")
}

func vfEncoder(out *zzverif.Out, r *zzverif.Rng) {
	permV, ops := vfEncGen(r)
	vfEncExec(out, permV, ops)
	// more than one sequence must be refused at Init
	func() {
		defer func() {
			if recover() == nil {
				out.L2("encoder-multiseq-accepted", "enc 0 0", "Init(maxSequences=2) did not panic")
			}
		}()
		NewEncoderCache().Init(&vfBackend{maxNodes: 8192}, ml.DTypeF16, 2, 16, 8)
	}()
}

// ------------------------------------------------------------------ entry points

func vfEmit(out *zzverif.Out, cf vfConfig, ops []vfOp) {
	if cf.wrap != 0 {
		line := fmt.Sprintf("%d %s", cf.wrap, vfHistory(cf, ops))
		x, l := vfWExec(cf.wrap, cf, ops, out)
		out.Case("kw-x "+line, x)
		out.Case("kw-l "+line, l)
		return
	}
	line := vfHistory(cf, ops)
	x, l := vfExec(cf, ops, out)
	out.Case("kv-x "+line, x)
	out.Case("kv-l "+line, l)
}

// TestVerifC06Probe determines which of the three repairs the tree under test carries, by running the
// real code on the three witness histories (Tie 1: the model variant is a fact regenerated from the
// tree on every run).  Writes variant.txt: bit 1 = F14 repaired, 2 = F15b repaired, 4 = F23 repaired,
// 8 = sliding-window capacity counts the batch per sequence (C07 F-SWA-capacity repaired), 16 = Remove is
// atomic on error (F28 repaired), 32 = WrapperCache.Remove is atomic across the wrapped caches (F29 repaired).
func TestVerifC06Probe(t *testing.T) {
	run := func(line string) (r *vfRun, panicked bool) {
		cf, ops, err := vfParseHistory(line)
		if err != nil {
			t.Fatal(err)
		}
		r = vfNewRun(cf, nil, "", true)
		defer func() {
			if recover() != nil {
				panicked = true
			}
		}()
		for i, op := range ops {
			r.step(i, op)
		}
		return r, false
	}
	bits := 0
	witness := map[int]string{}
	// F14: after the defrag the cell labelled position 0 must hold the row stored for it (id 3)
	witness[1] = "kv-x 0 inf 1 5 5 1 1 1 0 0 8192 4 F 5 0 0 1 0 1 2 0 2 3 0 3 4 0 4 5 R 0 0 2 R 0 2 2147483647 F 3 0 2 6 0 3 7 0 4 8"
	r, _ := run(witness[1])
	for i, c := range r.cache.cells {
		if len(c.sequences) > 0 && c.pos == 0 {
			if id, _, _ := r.rowK(r.layers[0], i); id == 3 {
				bits |= 1
			}
		}
	}
	// F15b: the fork of a slid sequence must not be approved
	witness[2] = "kv-x 0 2 2 16 4 1 1 1 0 0 8192 13 F 1 0 0 1 F 1 0 1 2 F 1 0 2 3 F 1 0 3 4 F 1 0 4 5 F 1 0 5 6 F 1 0 6 7 F 1 0 7 8 F 1 0 8 9 F 1 0 9 10 C 0 1 8 Q 1 8 R 1 8 2147483647 F 1 1 8 11"
	r, _ = run("kv-x 0 2 2 16 4 1 1 1 0 0 8192 11 F 1 0 0 1 F 1 0 1 2 F 1 0 2 3 F 1 0 3 4 F 1 0 4 5 F 1 0 5 6 F 1 0 6 7 F 1 0 7 8 F 1 0 8 9 F 1 0 9 10 C 0 1 8")
	if !r.cache.CanResume(1, 8) {
		bits |= 2
	}
	// F23: a first batch larger than the cache must be an error, not a panic
	witness[4] = "kv-x 0 inf 1 1 3 1 1 1 1 0 10 1 F 2 0 0 1 0 1 2"
	if _, panicked := run(witness[4]); !panicked {
		bits |= 4
	}
	// SWA capacity: window 2, 2 sequences, context 16, batch 4: 2*2+4 = 8 cells pinned, 2*(2+4) = 12 repaired
	{
		c := NewSWACache(2, nil)
		c.Init(&vfBackend{maxNodes: 8192}, ml.DTypeF16, 2, 16, 4)
		switch len(c.cells) {
		case 8:
		case 12:
			bits |= 8
		default:
			t.Fatalf("unexpected sliding-window cache size %d", len(c.cells))
		}
	}
	// F28: a refused Remove (shared cells would have to shift) must leave the cells as they were
	witness[16] = "kv-x 0 inf 2 8 8 1 1 1 0 0 8192 4 F 4 0 0 1 0 1 2 0 2 3 0 3 4 C 0 1 4 R 0 1 2 F 1 0 4 5"
	witness[8] = "kv-x 0 2 2 16 4 1 1 1 0 0 8192 0"
	r, _ = run("kv-x 0 inf 2 8 8 1 1 1 0 0 8192 3 F 4 0 0 1 0 1 2 0 2 3 0 3 4 C 0 1 4 R 0 1 2")
	for _, c := range r.cache.cells {
		if c.pos == 1 && slices.Contains(c.sequences, 0) {
			bits |= 16
		}
	}
	// F29: a wrapped Remove refused by the second cache must not have been carried out in the first
	witness[32] = "kw-x 1 0 1 2 8 8 1 1 1 0 0 8192 7 F 1 0 0 1 F 1 0 1 2 F 1 0 2 3 F 1 0 3 4 C 0 1 2 R 0 0 1 F 1 0 3 5"
	{
		cf, ops, err := vfParseHistory(witness[32])
		if err != nil {
			t.Fatal(err)
		}
		wr := vfNewWRun(cf.wrap, cf, nil, "", true)
		for i, op := range ops[:6] {
			wr.step(i, op)
		}
		for _, c := range wr.views[0].cache.cells {
			if c.pos == 3 && slices.Contains(c.sequences, 0) {
				bits |= 32 // the sliding-window cache still has position 3: the refused removal was not applied
			}
		}
		wr.w.Close()
	}
	var wl []string
	for _, b := range []int{1, 2, 4, 8, 16, 32} {
		wl = append(wl, fmt.Sprintf("%d\t%s", b, witness[b]))
	}
	if err := os.WriteFile(zzverif.OutDir()+"/witness.txt", []byte(strings.Join(wl, "\n")+"\n"), 0o644); err != nil {
		t.Fatal(err)
	}
	if err := os.WriteFile(zzverif.OutDir()+"/variant.txt", []byte(strconv.Itoa(bits)+"\n"), 0o644); err != nil {
		t.Fatal(err)
	}
}

func TestVerifC06(t *testing.T) {
	out := zzverif.NewOut()
	defer out.Close()

	if rp := os.Getenv("VERIF_REPLAY"); rp != "" {
		raw, err := os.ReadFile(rp)
		if err != nil {
			t.Fatal(err)
		}
		if ln := strings.TrimSpace(string(raw)); strings.HasPrefix(ln, "enc ") {
			permV, ops := vfEncParse(ln)
			vfEncExec(out, permV, ops)
			return
		}
		cf, ops, err := vfParseHistory(strings.TrimSpace(string(raw)))
		if err != nil {
			t.Fatal(err)
		}
		vfEmit(out, cf, ops)
		return
	}

	// corpus: minimised regression histories, run first
	if dir := os.Getenv("VERIF_CORPUS"); dir != "" {
		if raw, err := os.ReadFile(dir + "/histories.txt"); err == nil {
			for _, ln := range strings.Split(string(raw), "\n") {
				ln = strings.TrimSpace(ln)
				if ln == "" || strings.HasPrefix(ln, "#") {
					continue
				}
				cf, ops, err := vfParseHistory(ln)
				if err != nil {
					t.Fatalf("corpus line %q: %v", ln, err)
				}
				cf.variant = zzverif.EnvInt("VERIF_C06_VARIANT", 0) // corpus lines are variant-neutral
				vfEmit(out, cf, ops)
				out.Count("corpus_histories")
			}
		}
	}

	n := zzverif.EnvInt("VERIF_N", 2000)
	root := zzverif.NewRng(zzverif.Seed())
	for i := 0; i < n; i++ {
		r := root.Fork()
		cf, ops, kind := vfGenHistory(r)
		out.Count("gen_" + kind)
		if cf.window != math.MaxInt32 {
			out.Count("cfg_windowed")
		}
		if cf.layerSet != 0 {
			out.Count("cfg_sparse_layer_numbers")
		}
		if cf.cachePad > 1 {
			out.Count("cfg_cache_padding")
		}
		if cf.batchPad > 1 {
			out.Count("cfg_batch_padding")
		}
		if cf.permV {
			out.Count("cfg_permuted_v")
		}
		if !cf.hasShift {
			out.Count("cfg_no_shiftfn")
		}
		vfEmit(out, cf, ops)
	}

	nw := zzverif.EnvInt("VERIF_NW", n/3)
	for i := 0; i < nw; i++ {
		r := root.Fork()
		cf, ops := vfGenWHistory(r)
		vfEmit(out, cf, ops)
	}

	for i := 0; i < n/10+5; i++ {
		vfEncoder(out, root.Fork())
	}

	depth := zzverif.EnvInt("VERIF_EXH_DEPTH", 3)
	base := vfConfig{variant: zzverif.EnvInt("VERIF_C06_VARIANT", 0), window: math.MaxInt32, maxSeq: 1, maxBatch: 2, cachePad: 1, batchPad: 1, hasShift: true, maxNodes: 8192}
	var cfgs []vfConfig
	for k, capy := range []int{2, 3, 4} {
		c := base
		c.capacity = capy
		c.layerSet = []int{0, 1, 4}[k]
		cfgs = append(cfgs, c)
	}
	w := base
	w.layerSet = 3
	w.window, w.capacity = 1, 2 // cells = 1*1 + 2 = 3
	cfgs = append(cfgs, w)
	vfExhaustive(out, depth, cfgs)
}
