package names

// C13 driver for server/internal/internal/names: Parse / Merge / IsValid / IsFullyQualified /
// String / isValidPart, and the cross-parser clauses against types/model.

import (
	"fmt"
	"os"
	"path/filepath"
	"strings"
	"testing"

	"github.com/ollama/ollama/types/model"
	"github.com/ollama/ollama/zzverif"
)

const c13Root = "/zz/verif models/store"

var c13Mask = Parse("registry.ollama.ai/library/_:latest")

func c13Fields(n Name) string { return zzverif.C13Fields(n.h, n.n, n.m, n.t) }
func c13MFields(n model.Name) string {
	return zzverif.C13Fields(n.Host, n.Namespace, n.Model, n.Tag)
}
func c13Same(a Name, b model.Name) bool {
	return a.h == b.Host && a.n == b.Namespace && a.m == b.Model && a.t == b.Tag
}
func c13Eq(a, b Name) bool { return a.h == b.h && a.n == b.n && a.m == b.m && a.t == b.t }

// c13N1Fixed probes which variant of finding N1 the tree under test has: "0" = pinned upstream
// (host//model is IsValid), "1" = after proposed_fixes/C13-N1.patch.  The oracle takes it as a flag.
var c13N1Fixed = func() string {
	if Parse("h//m").IsValid() {
		return "0"
	}
	return "1"
}()

func c13NameCase(out *zzverif.Out, s string) {
	op := "nname " + c13N1Fixed + " " + zzverif.Hex([]byte(s))
	out.Count("variant_n1_fixed_" + c13N1Fixed)
	p := Parse(s)
	m := Merge(p, c13Mask)
	out.Case(op, fmt.Sprintf("p=%s valid=%s fq=%s str=%s merged=%s mfq=%s mstr=%s", c13Fields(p),
		zzverif.C13Bool(p.IsValid()), zzverif.C13Bool(p.IsFullyQualified()), zzverif.Hex([]byte(p.String())),
		c13Fields(m), zzverif.C13Bool(m.IsFullyQualified()), zzverif.Hex([]byte(m.String()))))
	out.Count("cases")

	if p.IsValid() {
		out.Count("bare_valid")
		if again := Parse(p.String()); !c13Eq(again, p) {
			out.L2("roundtrip-names-bare", op, "Parse(String()) = "+c13Fields(again)+" want "+c13Fields(p))
		}
	}
	if m.IsFullyQualified() {
		out.Count("merged_fq")
		str := m.String()
		if again := Parse(str); !c13Eq(again, m) || !again.IsFullyQualified() {
			out.L2("roundtrip-names", op, "Parse(String()) = "+c13Fields(again)+" want "+c13Fields(m))
		}
		// cross: the other parser reads the printed name back with the same parts
		if o := model.ParseName(str); !c13Same(m, o) || !o.IsValid() {
			out.L2("cross-names-to-model", op, "model.ParseName(names.String()) = "+c13MFields(o)+" want "+c13Fields(m))
		}
		// confinement of the path the cache derives (filepath.Join of the four parts)
		path := filepath.Join(c13Root, "manifests", filepath.Join(m.h, m.n, m.m, m.t))
		if why := zzverif.C13Confined(c13Root, "manifests", path, 4); why != "" {
			out.L2("manifest-path-escapes", op, why+" path="+zzverif.Hex([]byte(path)))
		}
	} else {
		out.Count("merged_rejected")
	}
	// cross, other direction: what the legacy parser accepts and prints, this parser reads back
	if o := model.ParseName(s); o.IsValid() {
		out.Count("model_valid")
		back := Parse(o.String())
		if !c13Same(back, o) || !back.IsFullyQualified() {
			out.L2("cross-model-to-names", op, "names.Parse(model.String()) = "+c13Fields(back)+" want "+c13MFields(o))
		}
		// acceptance agreement on the same input (not a clause of C13; counted only)
		if !m.IsFullyQualified() {
			out.Count("accept_model_only")
		} else if !c13Same(m, o) {
			out.Count("accept_both_parts_differ")
		}
	} else if m.IsFullyQualified() {
		out.Count("accept_names_only")
	}
}

// c13ModelPartValid: does types/model accept s as a part of this kind (public API only)?
func c13ModelPartValid(kind int, s string) bool {
	n := model.Name{Host: "h", Namespace: "n", Model: "m", Tag: "t"}
	switch kind {
	case 0:
		n.Host = s
	case 1:
		n.Namespace = s
	case 2:
		n.Model = s
	default:
		n.Tag = s
	}
	return n.IsValid()
}

func c13PartCase(out *zzverif.Out, kind int, s string) {
	op := fmt.Sprintf("vpart N %d %s", kind, zzverif.Hex([]byte(s)))
	ok := isValidPart(kind, s)
	out.Case(op, zzverif.C13Bool(ok))
	out.Count("cases")
	// cross-parser agreement at part level: a non-empty part is accepted by both packages or by neither
	if s != "" && ok != c13ModelPartValid(kind, s) {
		out.L2("part-cross-disagree", op, fmt.Sprintf("names.isValidPart=%v but types/model says %v", ok, !ok))
	}
	if ok && s != "" {
		out.Count("part_accepted")
		if s == "." || s == ".." || strings.ContainsAny(s, "/\\\x00") || s[0] == '.' {
			out.L2("part-unsafe", op, "accepted part is not a safe path component")
		}
	}
}


// c13UTF8Sample calls f with valid UTF-8 encodings (2, 3 and 4 bytes) of code points chosen per LOW BYTE class:
// for every value 0..255 of cp&0xFF and every encoded length, the smallest such code point and a seeded random one
// (surrogates skipped).  A decoder that truncates a rune to a byte is sensitive to exactly this class.
func c13UTF8Sample(r *zzverif.Rng, f func(ch string, low, size int)) {
	ranges := [][2]int{{0x80, 0x7FF}, {0x800, 0xFFFF}, {0x10000, 0x10FFFF}}
	for low := 0; low < 256; low++ {
		for ri, rg := range ranges {
			first := rg[0] - rg[0]%256 + low
			if first < rg[0] {
				first += 256
			}
			span := (rg[1] - first) / 256
			cps := []int{first, first + 256*r.Intn(span+1)}
			for _, cp := range cps {
				if cp >= 0xD800 && cp <= 0xDFFF {
					cp += 0x800
				}
				f(string(rune(cp)), low, ri+2)
			}
		}
	}
}

// c13FoldFamily: the DIRECTED family "every string that strings.EqualFold maps onto a default part or onto a stored
// spelling": for each base part, every single-character substitution by a simple-fold partner (LONG S for s/S, KELVIN
// SIGN for k/K, the other letter case), placed in host, namespace, model and tag position of an otherwise default name,
// in fully written and in abbreviated (defaults merged in) form.  f gets the name string and its four intended parts.
func c13FoldFamily(f func(name string, parts [4]string, pos int)) {
	bases := []string{"registry.ollama.ai", "library", "latest", "mistral", "Phi-3.5k", "ks", "_sk", "K"}
	def := [4]string{"registry.ollama.ai", "library", "m", "latest"}
	seen := map[string]bool{}
	for _, b := range bases {
		var variants []string
		for i := 0; i < len(b); i++ {
			c := b[i]
			var subs []string
			switch {
			case c == 's' || c == 'S':
				subs = append(subs, "\u017f")
			case c == 'k' || c == 'K':
				subs = append(subs, "\u212a")
			}
			if c >= 'a' && c <= 'z' || c >= 'A' && c <= 'Z' {
				subs = append(subs, string([]byte{c ^ 0x20}))
			}
			for _, sub := range subs {
				variants = append(variants, b[:i]+sub+b[i+1:])
			}
		}
		variants = append(variants, b, strings.ToUpper(b))
		for _, v := range variants {
			for pos := 0; pos < 4; pos++ {
				p := def
				p[pos] = v
				full := p[0] + "/" + p[1] + "/" + p[2] + ":" + p[3]
				names := []string{full}
				switch pos { // abbreviated forms in which the other parts come from the defaults
				case 1:
					names = append(names, p[1]+"/"+p[2])
				case 2:
					names = append(names, p[2], p[2]+":"+p[3])
				case 3:
					names = append(names, p[2]+":"+p[3])
				}
				for _, nm := range names {
					if !seen[nm] {
						seen[nm] = true
						f(nm, p, pos)
					}
				}
			}
		}
	}
}

func c13Replay(out *zzverif.Out, line string) {
	f := strings.Fields(line)
	switch {
	case (len(f) == 2 || len(f) == 3) && f[0] == "nname": // the variant flag is re-probed, not replayed
		c13NameCase(out, string(zzverif.Unhex(f[len(f)-1])))
	case len(f) == 4 && f[0] == "vpart":
		var k int
		fmt.Sscan(f[2], &k)
		c13PartCase(out, k, string(zzverif.Unhex(f[3])))
	}
}

func TestVerifC13(t *testing.T) {
	out := zzverif.NewOut()
	defer out.Close()
	if rp := os.Getenv("VERIF_REPLAY"); rp != "" {
		b, _ := os.ReadFile(rp)
		c13Replay(out, strings.TrimSpace(string(b)))
		return
	}
	root := zzverif.NewRng(zzverif.Seed() + 1000)
	if b, err := os.ReadFile(os.Getenv("VERIF_CORPUS")); err == nil {
		for _, l := range strings.Split(string(b), "\n") {
			if l = strings.TrimSpace(l); l != "" && !strings.HasPrefix(l, "#") {
				c13Replay(out, l)
				out.Count("corpus")
			}
		}
	}
	// witnesses derived by the check from a failed regenerated-table Tie (see vlib/checks/c13.py)
	if b, err := os.ReadFile(os.Getenv("VERIF_WITNESS")); err == nil {
		for _, l := range strings.Split(string(b), "\n") {
			if l = strings.TrimSpace(l); l != "" && !strings.HasPrefix(l, "#") {
				c13Replay(out, l)
				out.Count("tie_witness")
			}
		}
	}
	zzverif.C13Exhaustive(zzverif.C13Alphabet, zzverif.EnvInt("VERIF_EXH", 3), func(s string) {
		c13NameCase(out, s)
		out.Count("exhaustive_name")
	})
	// directed: Unicode-fold / case spellings of the defaults and of stored names, in every position
	c13FoldFamily(func(nm string, parts [4]string, pos int) {
		c13NameCase(out, nm)
		c13PartCase(out, pos, parts[pos])
		out.Count("fold_family")
	})
	// valid multi-byte characters, per low-byte class, as a part (alone / after / before / inside ASCII) and inside names
	c13UTF8Sample(root.Fork(), func(ch string, low, size int) {
		for kind := 0; kind < 4; kind++ {
			c13PartCase(out, kind, ch)
			c13PartCase(out, kind, "a"+ch)
			c13PartCase(out, kind, ch+"a")
		}
		c13NameCase(out, "h/n/"+ch+":t")
		c13NameCase(out, "h"+ch+"/n/m:t"+ch)
		c13NameCase(out, ch)
		out.Count(fmt.Sprintf("utf8_sample_%dbyte", size))
	})
	zzverif.C13LimitParts(root.Fork(), func(kind int, s string) {
		if kind < 4 {
			c13PartCase(out, kind, s)
		}
	})
	// whole-name length limit (MaxNameLength) probed on both sides
	for _, extra := range []int{-2, -1, 0, 1, 2, 50} {
		r := root.Fork()
		h, ns, m, tg := zzverif.C13Part(r, 0, 350), zzverif.C13Part(r, 1, 80), zzverif.C13Part(r, 2, 80), zzverif.C13Part(r, 3, 80)
		s := h + "/" + ns + "/" + m + ":" + tg
		if extra < 0 {
			s = s[:len(s)+extra]
		} else {
			s += strings.Repeat("x", extra)
		}
		c13NameCase(out, s)
		c13NameCase(out, "http://"+s)
		out.Count("maxnamelength_probe")
	}
	n := zzverif.EnvInt("VERIF_N", 4000)
	for i := 0; i < n; i++ {
		r := root.Fork()
		class, s := zzverif.C13Name(r)
		out.Count("name_class_" + class)
		c13NameCase(out, s)
	}
}

func TestVerifC13Table(t *testing.T) {
	f, err := os.Create(filepath.Join(zzverif.OutDir(), "table.txt"))
	if err != nil {
		t.Fatal(err)
	}
	defer f.Close()
	// finding N1's witness on the real code: Parse("h//m").IsValid(), Parse("h//m:t").IsValid(), Parse("h:80//m").IsValid()
	// (consumed by Tie.C13.n1_variant_is_repaired: the model of the CURRENT tree must say the same)
	n1 := []string{}
	for _, w := range []string{"h//m", "h//m:t", "h:80//m"} {
		if Parse(w).IsValid() {
			n1 = append(n1, "1")
		} else {
			n1 = append(n1, "0")
		}
	}
	fmt.Fprintf(f, "N 0 n1probe %s\n", strings.Join(n1, " "))
	fmt.Fprintf(f, "N 0 maxname %d\n", MaxNameLength)
	for kind := 0; kind < 4; kind++ {
		var first, rest []string
		inFirst, inRest := [256]bool{}, [256]bool{}
		for b := 0; b < 256; b++ {
			if isValidPart(kind, string([]byte{byte(b)})) {
				first = append(first, fmt.Sprint(b))
				inFirst[b] = true
			}
			if isValidPart(kind, string([]byte{'a', byte(b)})) {
				rest = append(rest, fmt.Sprint(b))
				inRest[b] = true
			}
		}
		product := 1
		// probes beyond 1 and 2 bytes: the acceptance of ANY string must be "first byte in the first set and every
		// later byte in the rest set"; strings for which the real function says otherwise are emitted as `odd`
		// witnesses (and clear the product flag)
		var odd []string
		probe := func(s string) {
			want := len(s) > 0 && inFirst[s[0]]
			for i := 1; i < len(s) && want; i++ {
				want = inRest[s[i]]
			}
			if len(s) > 0 && isValidPart(kind, s) != want {
				product = 0
				if len(odd) < 6 {
					odd = append(odd, zzverif.Hex([]byte(s)))
				}
			}
		}
		for a := 0; a < 256; a++ {
			for b := 0; b < 256; b++ {
				probe(string([]byte{byte(a), byte(b)}))
			}
		}
		c13UTF8Sample(zzverif.NewRng(7), func(ch string, low, size int) {
			probe(ch)
			probe("a" + ch)
			probe(ch + "a")
			probe("a" + ch + "a")
		})
		for b := 0; b < 256; b++ {
			probe(string([]byte{'a', 'a', byte(b)}))
			probe(string([]byte{'a', byte(b), 'a'}))
		}
		lo, hi, contiguous := -1, -1, 1
		for n := 0; n <= 1200; n++ {
			if isValidPart(kind, strings.Repeat("a", n)) {
				if lo < 0 {
					lo = n
				}
				if hi >= 0 && hi != n-1 {
					contiguous = 0
				}
				hi = n
			}
		}
		fmt.Fprintf(f, "N %d first %s\n", kind, strings.Join(first, " "))
		fmt.Fprintf(f, "N %d rest %s\n", kind, strings.Join(rest, " "))
		fmt.Fprintf(f, "N %d len %d %d %d %d\n", kind, lo, hi, contiguous, product)
		fmt.Fprintf(f, "N %d odd %s\n", kind, strings.Join(odd, " "))
	}
}
