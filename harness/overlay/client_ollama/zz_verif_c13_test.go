package ollama

// C13 driver for server/internal/client/ollama: splitExtended, Registry.parseName,
// Registry.parseNameExtended, CompleteName.

import (
	"errors"
	"fmt"
	"os"
	"path/filepath"
	"strings"
	"syscall"
	"testing"

	"github.com/ollama/ollama/server/internal/cache/blob"
	"github.com/ollama/ollama/server/internal/internal/names"
	"github.com/ollama/ollama/zzverif"
)

func c13Fields(n names.Name) string {
	return zzverif.C13Fields(n.Host(), n.Namespace(), n.Model(), n.Tag())
}

func c13ExtCase(out *zzverif.Out, r *Registry, c *blob.DiskCache, dir, s string) {
	h := func(x string) string { return zzverif.Hex([]byte(x)) }
	sc, nm, dg := splitExtended(s)
	out.Case("split "+h(s), h(sc)+" "+h(nm)+" "+h(dg))
	sc2, nm2, dg2 := names.Split(s)
	if sc != sc2 || nm != nm2 || dg != dg2 {
		out.L2("split-disagree", "split "+h(s), "names.Split and splitExtended differ")
	}
	op := "ext " + h(s)
	scheme, n, d, err := r.parseNameExtended(s)
	out.Count("cases")
	if err != nil {
		class := "err:name"
		msg := err.Error()
		switch {
		case !errors.Is(err, ErrNameInvalid):
			class = "err:other"
		case strings.HasPrefix(msg, "unsupported scheme"):
			class = "err:scheme"
		case strings.HasPrefix(msg, "invalid digest"):
			class = "err:digest"
		}
		out.Case(op, class)
		out.Count("ext_rejected_" + class[4:])
		return
	}
	sum := d.Sum()
	out.Case(op, fmt.Sprintf("ok %s %s %s", h(scheme), c13Fields(n), zzverif.Hex(sum[:])))
	if n.Model() == "" {
		out.Count("ext_digest_only")
		if !d.IsValid() && dg == "" {
			out.L2("ext-empty-accepted", op, "neither a name nor a digest")
		}
		return
	}
	out.Count("ext_accepted")
	if !n.IsFullyQualified() {
		out.L2("ext-not-fq", op, "accepted name is not fully qualified: "+c13Fields(n))
		return
	}
	// what the client hands to the cache is n.String(); the cache parses it again
	again := names.Parse(n.String())
	if again.Compare(n) != 0 || again.Host() != n.Host() || again.Namespace() != n.Namespace() || again.Model() != n.Model() || again.Tag() != n.Tag() {
		out.L2("roundtrip-names", op, "Parse(String()) = "+c13Fields(again))
	}
	// the real cache accepts the printed name and resolves it inside <dir>/manifests at depth 4:
	// Unlink on an empty cache returns (false, nil) exactly when manifestPath accepted the name
	// (a 256..350-byte host is a legal name but not a legal file name: ENAMETOOLONG comes from the OS
	// after the path was derived)
	if ok, err := c.Unlink(n.String()); (err != nil && !errors.Is(err, syscall.ENAMETOOLONG)) || (ok && err == nil) {
		out.L2("cache-rejects-printed-name", op, fmt.Sprint(ok, err))
	}
	p := filepath.Join(dir, "manifests", filepath.Join(n.Host(), n.Namespace(), n.Model(), n.Tag()))
	if why := zzverif.C13Confined(dir, "manifests", p, 4); why != "" {
		out.L2("manifest-path-escapes", op, why+" path="+zzverif.Hex([]byte(p)))
	}
	if cn := CompleteName(nm); cn != n.String() {
		out.L2("completename-differs", op, "CompleteName = "+h(cn)+" String = "+h(n.String()))
	}
}

// c13FoldFamily: the DIRECTED family "every string that strings.EqualFold maps onto a default part or onto a stored
// spelling": for each base part, every single-character substitution by a simple-fold partner (LONG S for s/S, KELVIN
// SIGN for k/K, the other letter case), placed in host, namespace, model and tag position of an otherwise default name,
// in fully written and in abbreviated (defaults merged in) form.  f gets the name string and its four intended parts.
func c13FoldFamily(f func(name string, parts [4]string, pos int)) {
	bases := []string{"registry.ollama.ai", "library", "latest", "mistral", "Phi-3.5k", "ks", "_sk", "K"}
	def := [4]string{"registry.ollama.ai", "library", "m", "latest"}
	seen := map[string]bool{}
	for _, b := range bases {
		var variants []string
		for i := 0; i < len(b); i++ {
			c := b[i]
			var subs []string
			switch {
			case c == 's' || c == 'S':
				subs = append(subs, "\u017f")
			case c == 'k' || c == 'K':
				subs = append(subs, "\u212a")
			}
			if c >= 'a' && c <= 'z' || c >= 'A' && c <= 'Z' {
				subs = append(subs, string([]byte{c ^ 0x20}))
			}
			for _, sub := range subs {
				variants = append(variants, b[:i]+sub+b[i+1:])
			}
		}
		variants = append(variants, b, strings.ToUpper(b))
		for _, v := range variants {
			for pos := 0; pos < 4; pos++ {
				p := def
				p[pos] = v
				full := p[0] + "/" + p[1] + "/" + p[2] + ":" + p[3]
				names := []string{full}
				switch pos { // abbreviated forms in which the other parts come from the defaults
				case 1:
					names = append(names, p[1]+"/"+p[2])
				case 2:
					names = append(names, p[2], p[2]+":"+p[3])
				case 3:
					names = append(names, p[2]+":"+p[3])
				}
				for _, nm := range names {
					if !seen[nm] {
						seen[nm] = true
						f(nm, p, pos)
					}
				}
			}
		}
	}
}

// c13Tree: every path below base ("d" for directories, size for files).
func c13Tree(base string) map[string]string {
	m := map[string]string{}
	filepath.Walk(base, func(p string, info os.FileInfo, err error) error {
		if err == nil {
			if info.IsDir() {
				m[p] = "d"
			} else {
				m[p] = fmt.Sprint("f", info.Size())
			}
		}
		return nil
	})
	return m
}

// c13RegistryHandlers: what server/internal/registry's handleDelete / handlePull hand to the client — the raw request
// string — through the real Registry.Unlink and Registry.ResolveLocal over a scratch cache with decoys outside it: nothing
// outside the cache directory changes, a removed manifest is one the cache held under that name, the error class is
// ErrNameInvalid exactly when Merge(Parse(s), DefaultMask) is not fully qualified.
func c13RegistryHandlers(t *testing.T, out *zzverif.Out) {
	base := t.TempDir()
	dir := filepath.Join(base, "l1", "l2", "cache")
	c, err := blob.Open(dir)
	if err != nil {
		t.Fatal(err)
	}
	reg := &Registry{Cache: c}
	put := func(p string) {
		os.MkdirAll(filepath.Dir(p), 0o755)
		os.WriteFile(p, []byte("{}"), 0o644)
	}
	fixture := func() {
		put(filepath.Join(dir, "manifests/registry.ollama.ai/library/inside/latest"))
		put(filepath.Join(dir, "manifests/h/n/Phi/t"))
		put(filepath.Join(base, "l1/l2/manifests/registry.ollama.ai/library/decoy/latest"))
		put(filepath.Join(base, "l1/l2/registry.ollama.ai/library/decoy/latest"))
		put(filepath.Join(base, "l1/l2/decoyd/latest"))
		put(filepath.Join(base, "l1/decoyd/latest"))
	}
	fixture()
	mask := names.Parse(DefaultMask)
	list := []string{"inside", "INSIDE", "h/n/phi:t", "decoy", "../decoy", "../../decoyd", "../decoyd:latest", "../manifests/registry.ollama.ai/library/decoy",
		"registry.ollama.ai/library/../../decoy", "..", ".", "a/../b", "h/n/..:t", "/decoy", "//decoy", "decoy/", "decoy:", "..%2fdecoy", "decoy\x00",
		"http://h/n/m:t", "x://decoy", "decoy@sha256:" + strings.Repeat("a", 64), "@sha256:" + strings.Repeat("a", 64), "", "nosuch", strings.Repeat("a", 81)}
	root := zzverif.NewRng(zzverif.Seed() + 4700)
	for i := 0; i < 40; i++ {
		_, nm := zzverif.C13Name(root.Fork())
		list = append(list, nm)
	}
	for _, s := range list {
		op := "ext " + zzverif.Hex([]byte(s))
		for _, which := range []string{"unlink", "resolvelocal"} {
			before := c13Tree(base)
			var rerr error
			var removed bool
			if which == "unlink" {
				removed, rerr = reg.Unlink(s)
				removed = removed && rerr == nil // Unlink returns (true, err) for an OS error such as ENAMETOOLONG
			} else {
				_, rerr = reg.ResolveLocal(s)
			}
			after := c13Tree(base)
			out.Count("registry_handler_calls")
			changed := false
			for p, v := range after {
				if before[p] != v {
					changed = true
					if !strings.HasPrefix(p, dir+"/") {
						out.L2("handler-touches-outside", op, which+": created / changed outside the cache directory: "+p)
					}
				}
			}
			for p := range before {
				if _, ok := after[p]; !ok {
					changed = true
					rel := strings.TrimPrefix(p, dir+"/manifests/")
					q := strings.Split(rel, "/")
					if !strings.HasPrefix(p, dir+"/manifests/") || len(q) != 4 {
						out.L2("handler-touches-outside", op, which+": removed "+p)
					} else if !strings.EqualFold(q[0]+"/"+q[1]+"/"+q[2]+":"+q[3], names.Merge(names.Parse(s), mask).String()) {
						out.L2("handler-touches-outside", op, which+": removed the manifest of another name: "+rel)
					}
				}
			}
			if which == "unlink" {
				fq := names.Merge(names.Parse(s), mask).IsFullyQualified()
				if errors.Is(rerr, ErrNameInvalid) == fq {
					out.L2("handler-validity-disagrees", op, fmt.Sprintf("Unlink: fully qualified=%v but err=%v", fq, rerr))
				}
				if removed {
					out.Count("registry_unlinked")
				}
				if removed != changed {
					out.L2("handler-touches-outside", op, fmt.Sprintf("Unlink reported %v but the directory changed=%v", removed, changed))
				}
			}
			if changed {
				fixture()
			}
		}
	}
}

func TestVerifC13(t *testing.T) {
	out := zzverif.NewOut()
	defer out.Close()
	dir := t.TempDir()
	c, err := blob.Open(dir)
	if err != nil {
		t.Fatal(err)
	}
	reg := &Registry{Cache: c}
	if rp := os.Getenv("VERIF_REPLAY"); rp != "" {
		b, _ := os.ReadFile(rp)
		f := strings.Fields(strings.TrimSpace(string(b)))
		if len(f) == 2 && (f[0] == "ext" || f[0] == "split") {
			c13ExtCase(out, reg, c, dir, string(zzverif.Unhex(f[1])))
		}
		return
	}
	c13RegistryHandlers(t, out)
	root := zzverif.NewRng(zzverif.Seed() + 4000)
	exh := zzverif.EnvInt("VERIF_EXH", 3)
	zzverif.C13Exhaustive(zzverif.C13Alphabet, exh, func(s string) {
		c13ExtCase(out, reg, c, dir, s)
		out.Count("exhaustive")
	})
	zzverif.C13Exhaustive(zzverif.C13Alphabet, exh-1, func(s string) {
		c13ExtCase(out, reg, c, dir, "http://"+s)
		c13ExtCase(out, reg, c, dir, "a"+s+"@sha256:"+strings.Repeat("0a", 32))
		out.Count("exhaustive_prefixed")
	})
	c13FoldFamily(func(nm string, parts [4]string, pos int) {
		c13ExtCase(out, reg, c, dir, nm)
		c13ExtCase(out, reg, c, dir, "http://"+nm)
		out.Count("fold_family")
	})
	n := zzverif.EnvInt("VERIF_N", 3000)
	for i := 0; i < n; i++ {
		r := root.Fork()
		class, s := zzverif.C13Name(r)
		if r.Chance(1, 4) {
			s = zzverif.Pick(r, []string{"http://", "https://", "https+insecure://", "ftp://", "://", "HTTP://"}) + s
		}
		out.Count("name_class_" + class)
		c13ExtCase(out, reg, c, dir, s)
	}
}
