package ollamarunner

// C14, one level up: what the CLIENT receives.  The REAL `(*Server).completion` HTTP handler is called with
// the JSON body the llm/server.go client sends (llm.CompletionRequest: prompt, options num_predict / stop /
// temperature 0 …); it creates the Sequence itself (NewSequence, semaphore, LoadCacheSlot) and streams JSON
// lines into an httptest.ResponseRecorder while the real processBatch is called once per token (scripted
// model behind the Server, as in the other drivers).  Everything runs in a testing/synctest bubble so that
// "the handler has written everything it can" is observed deterministically.
//
// Observation (L1 exact, oracle command `handler`): HTTP status and the sequence of JSON lines — content
// chunks and the final object with done / done_reason / eval_count / prompt_eval_count (durations are left
// out).  L2: the property's clauses on what the client assembles (text = concatenation of the content
// fields, finish reason = done_reason of the final object).  A cancelled request (client gone after q
// tokens) must end without a final object.
//
// Added with `go test -overlay`; never committed to /repo.

import (
	"bytes"
	"context"
	"encoding/json"
	"errors"
	"fmt"
	"net/http/httptest"
	"os"
	"sort"
	"strconv"
	"strings"
	"sync"
	"testing"
	"testing/synctest"
	"unicode/utf8"

	"golang.org/x/sync/semaphore"

	"github.com/ollama/ollama/api"
	"github.com/ollama/ollama/llm"
	"github.com/ollama/ollama/zzverif"
)

type verifHandlerResult struct {
	status  int
	lines   []string // canonical lines
	chunks  []string // content fields, in order
	final   bool
	reason  int
	eval    int
	prompt  int
	pending []string
	np      int
	consumed int
	malformed string
}

// canonical form of one JSON line
func verifCanonLine(raw []byte, res *verifHandlerResult) string {
	var m map[string]any
	dec := json.NewDecoder(bytes.NewReader(raw))
	dec.UseNumber()
	if err := dec.Decode(&m); err != nil {
		res.malformed = string(raw)
		return "malformed"
	}
	num := func(k string) int {
		if v, ok := m[k].(json.Number); ok {
			n, _ := v.Int64()
			return int(n)
		}
		return 0
	}
	known := map[string]bool{"content": true, "done_reason": true, "done": true, "prompt_eval_count": true,
		"prompt_eval_duration": true, "eval_count": true, "eval_duration": true}
	var extra []string
	for k, v := range m {
		if !known[k] {
			extra = append(extra, fmt.Sprintf("%s=%v", k, v))
		}
	}
	sort.Strings(extra)
	content, _ := m["content"].(string)
	done, _ := m["done"].(bool)
	var sb strings.Builder
	if done {
		res.final = true
		res.reason = num("done_reason")
		res.eval = num("eval_count")
		res.prompt = num("prompt_eval_count")
		fmt.Fprintf(&sb, "| done=true done_reason=%d eval_count=%d prompt_eval_count=%d", res.reason, res.eval, res.prompt)
		if content != "" {
			fmt.Fprintf(&sb, " content=%s", zzverif.Hex([]byte(content)))
			res.chunks = append(res.chunks, content)
		}
	} else {
		fmt.Fprintf(&sb, "| content=%s", zzverif.Hex([]byte(content)))
		res.chunks = append(res.chunks, content)
		for _, k := range []string{"done_reason", "prompt_eval_count", "eval_count"} {
			if num(k) != 0 {
				fmt.Fprintf(&sb, " %s=%d", k, num(k))
			}
		}
	}
	for _, e := range extra {
		sb.WriteString(" " + e)
	}
	return sb.String()
}

// calls > 0: the client goes away (request context cancelled) after that many calls of processBatch
func verifRunHandler(t *testing.T, promptLen, calls, limit int, stops []string, script []verifEv) (res verifHandlerResult, err error) {
	synctest.Test(t, func(t *testing.T) {
		m := &verifModel{script: script}
		s := &Server{
			model:     m,
			batchSize: 512,
			parallel:  1,
			seqs:      make([]*Sequence, 1),
			seqsSem:   semaphore.NewWeighted(1),
			cache:     &InputCache{numCtx: 1 << 30, enabled: true, slots: []InputCacheSlot{{Id: 0}}},
		}
		s.cond = sync.NewCond(&s.mu)
		// the body the llm/server.go client sends
		opts := api.DefaultOptions()
		opts.Temperature = 0
		opts.NumPredict = limit
		opts.Stop = stops
		opts.NumKeep = 0
		body, e := json.Marshal(llm.CompletionRequest{Prompt: strings.Repeat("p", promptLen), Options: &opts})
		if e != nil {
			err = e
			return
		}
		ctx, cancel := context.WithCancel(context.Background())
		defer cancel()
		req := httptest.NewRequest("POST", "/completion", bytes.NewReader(body)).WithContext(ctx)
		rec := httptest.NewRecorder()
		handlerDone := make(chan struct{})
		go func() {
			defer close(handlerDone)
			s.completion(rec, req)
		}()
		synctest.Wait() // the handler has installed its sequence and waits for chunks (or has returned an error)
		finished := func() bool {
			select {
			case <-handlerDone:
				return true
			default:
				return false
			}
		}
		var seq *Sequence
		if !finished() {
			seq = s.seqs[0]
			if seq == nil {
				err = errors.New("handler did not install a sequence")
				return
			}
			for call := 1; ; call++ {
				if call > len(script)+3 {
					err = errors.New("loop did not terminate")
					return
				}
				perr := func() (perr error) {
					defer func() {
						if r := recover(); r != nil {
							perr = fmt.Errorf("panic: %v", r)
						}
					}()
					return s.processBatch()
				}()
				synctest.Wait() // the handler has consumed and written whatever was sent
				if s.seqs[0] == nil {
					break
				}
				if perr != nil && !errors.Is(perr, errVerifScriptEnd) {
					err = perr
					return
				}
				if errors.Is(perr, errVerifScriptEnd) || (calls > 0 && call >= calls) {
					cancel() // the client goes away
					synctest.Wait()
					break
				}
			}
			synctest.Wait()
			if !finished() {
				err = errors.New("handler did not return")
				return
			}
			res.np = seq.numPredicted
			res.pending = append([]string(nil), seq.pendingResponses...)
		}
		res.consumed = m.step
		res.status = rec.Code
		res.lines = append(res.lines, fmt.Sprintf("status=%d", rec.Code))
		for _, raw := range bytes.Split(rec.Body.Bytes(), []byte("\n")) {
			if len(bytes.TrimSpace(raw)) == 0 {
				continue
			}
			res.lines = append(res.lines, verifCanonLine(raw, &res))
		}
	})
	return res, err
}

func verifHandlerLine(promptLen, calls, limit int, stops []string, script []verifEv) string {
	rest := strings.TrimPrefix(verifLoopLine(limit, stops, script), fmt.Sprintf("loop %d ", verifPinnedFindStop))
	return fmt.Sprintf("handler %d %d %d %s", verifPinnedFindStop, promptLen, calls, rest)
}

func verifParseHandlerLine(line string) (promptLen, calls, limit int, stops []string, script []verifEv, err error) {
	toks := strings.Fields(line)
	if len(toks) < 7 || toks[0] != "handler" {
		return 0, 0, 0, nil, nil, errors.New("not a handler line")
	}
	promptLen, _ = strconv.Atoi(toks[2])
	calls, _ = strconv.Atoi(toks[3])
	limit, stops, script, err = verifParseLoopLine("loop " + toks[1] + " " + strings.Join(toks[4:], " "))
	return
}

func verifHandlerCase(t *testing.T, out *zzverif.Out, promptLen, calls, limit int, stops []string, script []verifEv) {
	line := verifHandlerLine(promptLen, calls, limit, stops, script)
	res, err := verifRunHandler(t, promptLen, calls, limit, stops, script)
	out.Count("cases")
	out.Count("handler_cases")
	if err != nil {
		out.Case(line, "err:"+strings.ReplaceAll(err.Error(), "\n", " "))
		out.L2("loop-error", line, err.Error())
		return
	}
	out.Case(line, strings.Join(res.lines, " "))
	// ---- L2 on what the client sees
	if res.malformed != "" {
		out.L2("handler-malformed-line", line, fmt.Sprintf("%q", res.malformed))
	}
	if res.status != 200 {
		out.L2("handler-status", line, fmt.Sprintf("status=%d", res.status))
		return
	}
	view := verifLoopResult{np: res.eval, chunks: res.chunks, pending: res.pending, consumed: res.consumed}
	switch {
	case !res.final:
		view.reason = "running" // no final object: the request was cancelled
		view.np = res.np
		out.Count("handler_cancelled")
	case res.reason == int(llm.DoneReasonStop):
		view.reason = "stop"
	case res.reason == int(llm.DoneReasonLength):
		view.reason = "length"
	default:
		view.reason = "closed"
	}
	out.Count("handler_reason_" + view.reason)
	if res.final {
		// the final object is the last line and the only one with done=true
		n := 0
		for _, l := range res.lines {
			if strings.HasPrefix(l, "| done=true") {
				n++
			}
		}
		if n != 1 || !strings.HasPrefix(res.lines[len(res.lines)-1], "| done=true") {
			out.L2("handler-final-object", line, fmt.Sprintf("%d final objects, last line %q", n, res.lines[len(res.lines)-1]))
		}
		if res.eval != res.consumed {
			out.L2("handler-eval-count", line, fmt.Sprintf("eval_count=%d tokens sampled=%d", res.eval, res.consumed))
		}
		if res.prompt != promptLen {
			out.L2("handler-prompt-count", line, fmt.Sprintf("prompt_eval_count=%d prompt tokens=%d", res.prompt, promptLen))
		}
		// where the terminating event sits relative to the limit
		if limit > 0 {
			switch res.consumed - limit {
			case -1:
				out.Count("handler_end_at_limit_minus_1")
			case 0:
				out.Count("handler_end_at_limit")
			}
		}
	} else if calls == 0 && len(script) > 0 && res.consumed < len(script) {
		out.L2("handler-no-final-object", line, "sequence ended but no final object was written")
	}
	for _, c := range res.chunks {
		if !utf8.ValidString(c) {
			out.L2("chunk-invalid-utf8", line, fmt.Sprintf("chunk=%x", c))
		}
	}
	if calls > 0 && !res.final {
		// cancelled mid-way: only the prefix clauses apply to what the client holds
		ref, rerr := verifRunLoop(limit, stops, script)
		if rerr == nil {
			ok := len(res.chunks) <= len(ref.chunks)
			for i := 0; ok && i < len(res.chunks); i++ {
				ok = res.chunks[i] == ref.chunks[i]
			}
			if !ok {
				out.L2("disconnect-not-prefix", line, fmt.Sprintf("client holds %d chunks, a staying client gets %d", len(res.chunks), len(ref.chunks)))
			}
		}
		return
	}
	verifLoopL2(out, line, stops, script, view)
}

// directed generator: the terminating event (EOS, or the token completing a stop string) is token number j;
// the limit is j-1, j, j+1 (or far away / none)
func verifGenHandlerCase(r *zzverif.Rng) (promptLen, calls, limit int, stops []string, script []verifEv) {
	promptLen = zzverif.Pick(r, []int{1, 1, 2, 3, 7})
	if r.Chance(1, 3) { // the wide generator of the loop driver, valid stops only (they travel through JSON)
		limit, stops, script = verifGenCase(r)
		var vs []string
		for _, st := range stops {
			if utf8.ValidString(st) {
				vs = append(vs, st)
			}
		}
		stops = vs
	} else {
		n := r.Pick3(0, 6, 20)
		text := verifGenText(r, n)
		pieces := verifSplit(r, text, r.Chance(1, 3))
		for _, p := range pieces {
			script = append(script, verifEv{piece: p})
		}
		j := len(script) + 1 // the terminating event's token number
		switch r.Intn(3) {
		case 0: // EOS
			script = append(script, verifEv{eos: true})
		case 1: // a stop string completed by one token
			stops = []string{zzverif.Pick(r, []string{"END", "\n\n", "}", "<|e|>", "停"})}
			script = append(script, verifEv{piece: stops[0] + zzverif.Pick(r, []string{"", "x", " more"})}, verifEv{piece: "after"}, verifEv{eos: true})
		default: // a stop string split over two or three tokens
			st := zzverif.Pick(r, []string{"END", "<|e|>", "stop!", "日本"})
			stops = []string{st, "zz"}
			c := r.Range(1, len(st)-1)
			script = append(script, verifEv{piece: st[:c]})
			if c+1 < len(st) && r.Bool() {
				script = append(script, verifEv{piece: st[c : c+1]}, verifEv{piece: st[c+1:] + "t"})
				j += 2
			} else {
				script = append(script, verifEv{piece: st[c:]})
				j++
			}
			script = append(script, verifEv{piece: "after"}, verifEv{eos: true})
		}
		limit = zzverif.Pick(r, []int{j - 1, j, j, j, j + 1, j + 1, 0, -1, j + 7})
	}
	if r.Chance(1, 8) && len(script) > 0 {
		calls = r.Range(1, len(script))
	}
	return
}

func TestVerifC14Handler(t *testing.T) {
	out := zzverif.NewOut()
	defer out.Close()
	if rp := os.Getenv("VERIF_REPLAY"); rp != "" {
		b, err := os.ReadFile(rp)
		if err != nil {
			t.Fatal(err)
		}
		promptLen, calls, limit, stops, script, err := verifParseHandlerLine(strings.TrimSpace(string(b)))
		if err != nil {
			t.Skip("not a handler case")
		}
		verifHandlerCase(t, out, promptLen, calls, limit, stops, script)
		return
	}
	// corpus: limit N with EOS / a stop string completing on token N-1, N, N+1
	p := func(xs ...string) []verifEv {
		var sc []verifEv
		for _, x := range xs {
			sc = append(sc, verifEv{piece: x})
		}
		return sc
	}
	for _, lim := range []int{2, 3, 4, 5} {
		verifHandlerCase(t, out, 1, 0, lim, nil, append(p("a", "b", "c"), verifEv{eos: true}))                       // EOS is token 4
		verifHandlerCase(t, out, 2, 0, lim, []string{"END"}, append(p("a", "b", "c", "END", "x"), verifEv{eos: true})) // stop completes on token 4
		verifHandlerCase(t, out, 3, 0, lim, []string{"END"}, append(p("a", "b", "EN", "D!", "x"), verifEv{eos: true})) // split stop completes on token 4
	}
	verifHandlerCase(t, out, 1, 2, 0, nil, append(p("a", "b", "c"), verifEv{eos: true})) // client gone after 2 tokens
	root := zzverif.NewRng(zzverif.Seed() ^ 0x4a11d)
	n := zzverif.EnvInt("VERIF_N", 1500)
	for i := 0; i < n; i++ {
		r := root.Fork()
		promptLen, calls, limit, stops, script := verifGenHandlerCase(r)
		verifHandlerCase(t, out, promptLen, calls, limit, stops, script)
	}
}
