package ollamarunner

// C07, request lifetimes through the REAL HTTP handler.  The other C07 driver replays the slot-loading
// block of (*Server).completion itself and lets removeSequence free the slot; who frees a slot, and
// when, relative to the sequence leaving s.seqs, is therefore invisible to it.  This driver calls the
// real (*Server).completion (NewSequence, semaphore, LoadCacheSlot, response loop, every defer) for each
// request on its own goroutine, in a testing/synctest bubble, with the same real InputCache + real
// kvcache.Causal + scripted model as the other driver, and the real processBatch once per `step`.
// Clients may go away mid-generation (context cancelled) and new requests arrive before the batch loop
// has dropped the abandoned sequence.
//
// No L1 here: flushPending chooses between "send" and "quit" with a Go select whose choice is not
// seeded, so how many more tokens an abandoned sequence produces is not a function of the seed.  The
// monitors below hold whatever the choice is:
//   slot-exclusive   two sequences in s.seqs never share a cache slot; the slot of a sequence in s.seqs
//                    is marked InUse
//   exposed-history / batch-position (inside Forward), coherent (after every event): as in the other driver
//   process-batch-panic: processBatch panicked or returned an error
//
// Added with `go test -overlay`; never committed to /repo.

import (
	"bytes"
	"context"
	"encoding/json"
	"fmt"
	"io"
	"log/slog"
	"net/http/httptest"
	"os"
	"strconv"
	"strings"
	"testing"
	"testing/synctest"
	"time"

	"github.com/ollama/ollama/api"
	"github.com/ollama/ollama/llm"
	"github.com/ollama/ollama/zzverif"
)

type v7hReq struct {
	cancel context.CancelFunc
	done   chan struct{}
	gone   bool // the client went away
}

type v7hRun struct {
	h      *v7Harness
	reqs   []*v7hReq
	events []string
	dead   bool // a handler panicked: the server state is not trustworthy any more
}

func (r *v7hRun) finished(q *v7hReq) bool {
	select {
	case <-q.done:
		return true
	default:
		return false
	}
}

func (r *v7hRun) open(prompt []int, np, keep int) {
	opts := api.DefaultOptions()
	opts.Temperature = 0
	opts.NumPredict = np
	opts.NumKeep = keep
	opts.Stop = nil
	body, err := json.Marshal(llm.CompletionRequest{Prompt: v7Prompt(prompt), Options: &opts})
	if err != nil {
		panic(err)
	}
	ctx, cancel := context.WithCancel(context.Background())
	req := httptest.NewRequest("POST", "/completion", bytes.NewReader(body)).WithContext(ctx)
	rec := httptest.NewRecorder()
	q := &v7hReq{cancel: cancel, done: make(chan struct{})}
	r.reqs = append(r.reqs, q)
	go func() {
		defer close(q.done)
		defer func() {
			if p := recover(); p != nil {
				// the real handler panicked (never on the unchanged tree): report it with this history and stop
				// the history; the handler may have died holding s.mu (LoadCacheSlot runs between Lock and Unlock)
				r.h.l2("handler-panic", fmt.Sprintf("(*Server).completion panicked: %v", p))
				r.dead = true
				r.h.srv.mu.TryLock()
				r.h.srv.mu.Unlock()
			}
		}()
		r.h.srv.completion(rec, req)
	}()
	synctest.Wait() // admitted and waiting for chunks, waiting for a free sequence, or returned
}

func (r *v7hRun) step() {
	h := r.h
	if !h.anyLive() {
		h.out.Count("hh_step_idle")
		return
	}
	h.batch, h.outs, h.forwardFull = nil, nil, false
	func() {
		defer func() {
			if p := recover(); p != nil {
				h.l2("process-batch-panic", fmt.Sprintf("processBatch panicked: %v", p))
			}
		}()
		if err := h.srv.processBatch(); err != nil {
			note := ""
			for s, t := range h.swaShifted {
				if t {
					note = h.taintNote(s)
				}
			}
			h.l2("process-batch-panic", "processBatch returned an error (run() panics on it): "+err.Error()+note)
		}
	}()
	synctest.Wait() // handlers have consumed what was sent; waiting requests may have been admitted
}

func (r *v7hRun) invariants(when string) {
	s := r.h.srv
	for i, a := range s.seqs {
		if a == nil {
			continue
		}
		if a.cache == nil {
			r.h.l2("slot-exclusive", fmt.Sprintf("%s: sequence %d in s.seqs has no cache slot", when, i))
			continue
		}
		if !a.cache.InUse {
			r.h.l2("slot-exclusive", fmt.Sprintf("%s: slot %d is marked free while sequence %d (still in s.seqs, %d inputs queued) owns it", when, a.cache.Id, i, len(a.inputs)))
		}
		for j := i + 1; j < len(s.seqs); j++ {
			if b := s.seqs[j]; b != nil && b.cache == a.cache {
				r.h.l2("slot-exclusive", fmt.Sprintf("%s: sequences %d and %d in s.seqs share cache slot %d", when, i, j, a.cache.Id))
			}
		}
	}
	r.h.checkCoherent(when)
}

func (r *v7hRun) exec(ev string) {
	if r.dead {
		return
	}
	time.Sleep(time.Millisecond)
	f := strings.Fields(ev)
	at := func(i int) int {
		v, err := strconv.Atoi(f[i])
		if err != nil {
			panic(err)
		}
		return v
	}
	v7Announce(r.header(len(r.events)+1) + " " + strings.Join(append(append([]string(nil), r.events...), ev), " "))
	switch f[0] {
	case "open":
		n := at(3)
		p := make([]int, n)
		for i := range p {
			p[i] = at(4 + i)
		}
		r.open(p, at(1), at(2))
		r.h.out.Count("hh_open")
	case "step":
		r.step()
		r.h.out.Count("hh_step")
	case "cancel":
		if k := at(1); k < len(r.reqs) && !r.reqs[k].gone {
			r.reqs[k].gone = true
			r.reqs[k].cancel()
			synctest.Wait()
			r.h.out.Count("hh_cancel")
		}
	default:
		panic("bad event " + ev)
	}
	r.events = append(r.events, ev)
	if !r.dead {
		r.invariants("after " + f[0])
	}
}

func (r *v7hRun) header(n int) string {
	c := r.h.cfg
	b := func(x bool) int {
		if x {
			return 1
		}
		return 0
	}
	return fmt.Sprintf("hhist %d %d %d %d %d %d %d %d %d", c.parallel, c.ctx, c.batch, b(c.multi), b(c.canShift), c.vocab, c.eosMod, c.window, n)
}

func (r *v7hRun) finish() {
	for _, q := range r.reqs {
		q.cancel()
	}
	synctest.Wait()
	for k, q := range r.reqs {
		if !r.finished(q) {
			r.h.l2("handler-stuck", fmt.Sprintf("request %d's handler did not return after its client went away", k))
		}
	}
	line := r.header(len(r.events)) + " " + strings.Join(r.events, " ")
	seen := map[string]bool{}
	perKind := map[string]int{}
	for _, f := range r.h.fails {
		if k := v7DedupKey(f[0], f[1]); !seen[k] && perKind[f[0]] < 8 {
			seen[k] = true
			perKind[f[0]]++
			r.h.out.L2(f[0], line, f[1])
		}
	}
	r.h.out.Count("hh_cases")
	r.h.out.Add("hh_events", len(r.events))
}

func v7hList(xs []int) string {
	ss := make([]string, len(xs)+1)
	ss[0] = strconv.Itoa(len(xs))
	for i, x := range xs {
		ss[i+1] = strconv.Itoa(x)
	}
	return strings.Join(ss, " ")
}

func v7hGenerate(rng *zzverif.Rng, resetEnd int, out *zzverif.Out) {
	cfg := v7GenCfg(rng, resetEnd)
	if rng.Chance(3, 4) {
		cfg.parallel = rng.Range(2, 4)
	}
	cfg.window = 0
	if cfg.eosMod == 0 {
		cfg.eosMod = 29
	}
	r := &v7hRun{h: v7NewHarness(cfg, out)}
	h := r.h
	randToks := func(n int) []int {
		o := make([]int, n)
		for i := range o {
			o[i] = rng.Intn(cfg.vocab - 1)
		}
		return o
	}
	var prompts [][]int
	genPrompt := func() []int {
		var p []int
		switch {
		case len(prompts) > 0 && rng.Chance(1, 2): // the same conversation again / its follow-up
			p = append([]int(nil), zzverif.Pick(rng, prompts)...)
			if rng.Chance(1, 2) {
				p = append(p, randToks(rng.Range(1, 3))...)
			}
		case rng.Chance(1, 2): // a slot's record (prompt + answer so far), possibly cut or extended
			sl := &h.srv.cache.slots[rng.Intn(len(h.srv.cache.slots))]
			p = v7Toks(sl.Inputs)
			if len(p) > 1 && rng.Chance(1, 3) {
				p = p[:rng.Range(1, len(p))]
			}
			p = append(p, randToks(rng.Intn(3))...)
		}
		if len(p) == 0 {
			p = randToks(rng.Range(1, cfg.ctx))
		}
		prompts = append(prompts, p)
		return p
	}
	live := func() []int { // requests whose client is still there and whose handler has not returned
		var o []int
		for k, q := range r.reqs {
			if !q.gone && !r.finished(q) {
				o = append(o, k)
			}
		}
		return o
	}
	budget := rng.Range(8, 50)
	justCancelled := false
	for n := 0; n < budget; n++ {
		lv := live()
		switch {
		case justCancelled && rng.Chance(3, 4), len(lv) < cfg.parallel+1 && rng.Chance(1, 4), len(lv) == 0:
			// a new request; after a cancellation it arrives before the batch loop has seen the quit
			if justCancelled {
				out.Count("hh_open_right_after_cancel")
			}
			np := rng.Range(1, 2*cfg.ctx)
			if rng.Chance(1, 5) {
				np = -1
			}
			keep := zzverif.Pick(rng, []int{0, 0, 2, -1})
			r.exec(fmt.Sprintf("open %d %d %s", np, keep, v7hList(genPrompt())))
			justCancelled = false
		case len(lv) > 0 && rng.Chance(1, 6):
			// a client goes away mid-generation (or while waiting for a free sequence)
			r.exec(fmt.Sprintf("cancel %d", zzverif.Pick(rng, lv)))
			justCancelled = true
		default:
			r.exec("step")
			justCancelled = false
		}
	}
	r.finish()
	if cfg.multi {
		out.Count("hh_cfg_multiuser")
	}
	out.Count(fmt.Sprintf("hh_cfg_parallel_%d", cfg.parallel))
}

func v7hReplay(line string, resetEnd int, out *zzverif.Out) {
	f := strings.Fields(line)
	at := func(i int) int {
		v, err := strconv.Atoi(f[i])
		if err != nil {
			panic(err)
		}
		return v
	}
	cfg := v7Cfg{resetEnd: resetEnd, parallel: at(1), ctx: at(2), batch: at(3), multi: at(4) != 0, canShift: at(5) != 0,
		vocab: at(6), eosMod: at(7), window: at(8), stopEarliest: v7ProbeStop(), crCounted: v7ProbeCanResume()}
	r := &v7hRun{h: v7NewHarness(cfg, out)}
	n := at(9)
	i := 10
	for range n {
		start := i
		switch f[i] {
		case "open":
			i += 4 + at(i+3)
		case "cancel":
			i += 2
		case "step":
			i++
		default:
			panic("bad event " + f[i])
		}
		r.exec(strings.Join(f[start:i], " "))
	}
	r.finish()
}

func TestVerifC07Handler(t *testing.T) {
	slog.SetDefault(slog.New(slog.NewTextHandler(io.Discard, nil)))
	out := zzverif.NewOut()
	defer out.Close()
	resetEnd := zzverif.EnvInt("VERIF_C07_RESET_END", -1)
	bubble := func(f func()) { synctest.Test(t, func(t *testing.T) { f() }) }
	replayFile := func(p string) {
		raw, err := os.ReadFile(p)
		if err != nil {
			return
		}
		for _, line := range strings.Split(string(raw), "\n") {
			if strings.HasPrefix(line, "hhist ") {
				bubble(func() { v7hReplay(line, resetEnd, out) })
			}
		}
	}
	if p := os.Getenv("VERIF_REPLAY"); p != "" {
		replayFile(p)
		return
	}
	if p := os.Getenv("VERIF_C07_CORPUS"); p != "" {
		replayFile(p)
	}
	root := zzverif.NewRng(zzverif.Seed())
	n := zzverif.EnvInt("VERIF_N", 300)
	for range n {
		rng := root.Fork()
		bubble(func() { v7hGenerate(rng, resetEnd, out) })
	}
}
