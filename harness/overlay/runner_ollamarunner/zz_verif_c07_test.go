package ollamarunner

// Verification driver for C07 (prompt caching, slot reuse, context shifting).
// Added at build time with `go test -overlay`; never committed to /repo.
//
// It builds a Server whose model is a scripted fake (logits are a deterministic function of
// exactly the history the KV cache exposes) on top of the REAL kvcache.Causal (on an eager fake
// ml backend) and the REAL InputCache, then drives the REAL NewSequence / LoadCacheSlot /
// processBatch over generated request histories, one event at a time, under fake time.
//
//   ops.txt : one `hist ...` line per history (config + events + placement hints)
//   impl.txt: the real code's observations after every event (slot records, sequences, cells)
//   l2.txt  : property failures evaluated on the real code, independent of the Lean model

import (
	"context"
	"fmt"
	"io"
	"log/slog"
	"math"
	"os"
	"regexp"
	"runtime/debug"
	"sort"
	"strconv"
	"strings"
	"sync"
	"testing"
	"testing/synctest"
	"time"

	"golang.org/x/sync/semaphore"

	"github.com/ollama/ollama/kvcache"
	"github.com/ollama/ollama/llm"
	"github.com/ollama/ollama/ml"
	"github.com/ollama/ollama/model"
	"github.com/ollama/ollama/model/input"
	"github.com/ollama/ollama/runner/common"
	"github.com/ollama/ollama/sample"
	"github.com/ollama/ollama/zzverif"
)

// ------------------------------------------------------------------ eager fake backend

type v7Backend struct{ ml.Backend }

func (b *v7Backend) NewContext() ml.Context        { return &v7Context{} }
func (b *v7Backend) NewContextSize(int) ml.Context { return &v7Context{} }

type v7Context struct{ ml.Context }

func (c *v7Context) Empty(dtype ml.DType, shape ...int) ml.Tensor {
	total := 0
	if len(shape) > 0 {
		total = 1
		for _, s := range shape {
			total *= s
		}
	}
	return &v7Tensor{dtype: dtype, elementSize: 4, data: make([]float32, total), shape: shape}
}
func (c *v7Context) Zeros(dtype ml.DType, shape ...int) ml.Tensor { return c.Empty(dtype, shape...) }
func (c *v7Context) FromFloatSlice(s []float32, shape ...int) (ml.Tensor, error) {
	t := c.Empty(ml.DTypeF32, shape...).(*v7Tensor)
	copy(t.data, s)
	return t, nil
}
func (c *v7Context) FromIntSlice(s []int32, shape ...int) (ml.Tensor, error) {
	f := make([]float32, len(s))
	for i := range f {
		f[i] = float32(s[i])
	}
	out, _ := c.FromFloatSlice(f, shape...)
	out.(*v7Tensor).dtype = ml.DTypeI32
	return out, nil
}
func (c *v7Context) Input() ml.Context               { return c }
func (c *v7Context) Layer(int) ml.Context            { return c }
func (c *v7Context) Forward(...ml.Tensor) ml.Context { return c }
func (c *v7Context) Compute(...ml.Tensor)            {}
func (c *v7Context) Reserve() error                  { return nil }
func (c *v7Context) MaxGraphNodes() int              { return 10 }
func (c *v7Context) Close()                          {}

type v7Tensor struct {
	ml.Tensor
	dtype       ml.DType
	elementSize int
	data        []float32
	shape       []int
}

func (t *v7Tensor) Dim(n int) int { return t.shape[n] }
func (t *v7Tensor) Stride(n int) int {
	stride := t.elementSize
	for i := range n {
		stride *= t.shape[i]
	}
	return stride
}
func (t *v7Tensor) Shape() []int    { return t.shape }
func (t *v7Tensor) DType() ml.DType { return t.dtype }
func (t *v7Tensor) Floats() []float32 {
	out := make([]float32, len(t.data))
	copy(out, t.data)
	return out
}
func (t *v7Tensor) View(ctx ml.Context, offset int, shape ...int) ml.Tensor {
	offset /= t.elementSize
	var s []int
	switch len(shape) {
	case 1:
		s = []int{shape[0]}
	case 5:
		s = []int{shape[0], shape[2], shape[4]}
	default:
		panic("unsupported number of dimensions")
	}
	view := (&v7Context{}).Empty(t.dtype, s...).(*v7Tensor)
	view.data = t.data[offset : offset+len(view.data)]
	return view
}
func (t *v7Tensor) Copy(ctx ml.Context, t2 ml.Tensor) ml.Tensor {
	copy(t2.(*v7Tensor).data, t.data)
	return nil
}

// shiftFn of the fake model: key rows are [token, position]; "RoPE" adds the offset to the position.
func v7Shift(ctx ml.Context, layer int, key, shift ml.Tensor) (ml.Tensor, error) {
	k := key.(*v7Tensor)
	sh := shift.(*v7Tensor)
	out := ctx.Empty(k.dtype, k.shape...).(*v7Tensor)
	copy(out.data, k.data)
	for i := range sh.data {
		out.data[2*i+1] += sh.data[i]
	}
	return out, nil
}

// ------------------------------------------------------------------ cache wrapper (observes calls)

type v7Cell struct {
	pos  int
	seqs []int
	tok  int
	dpos int
}

type v7Cache struct {
	*kvcache.Causal
	h *v7Harness
}

func (c *v7Cache) snapshot() []v7Cell {
	cells := c.Causal.VerifC07Cells()
	var key *v7Tensor
	if k := c.Causal.VerifC07Key(0); k != nil {
		key = k.(*v7Tensor)
	}
	out := make([]v7Cell, len(cells))
	for i, cl := range cells {
		out[i] = v7Cell{pos: int(cl.Pos), seqs: append([]int(nil), cl.Seqs...)}
		sort.Ints(out[i].seqs)
		if key != nil {
			out[i].tok = int(key.data[2*i])
			out[i].dpos = int(key.data[2*i+1])
		}
	}
	return out
}

func v7CellsString(cells []v7Cell) string {
	var sb strings.Builder
	first := true
	for i, c := range cells {
		if len(c.seqs) == 0 {
			continue
		}
		if !first {
			sb.WriteByte(',')
		}
		first = false
		ss := make([]string, len(c.seqs))
		for j, s := range c.seqs {
			ss[j] = strconv.Itoa(s)
		}
		fmt.Fprintf(&sb, "%d.%d.%d.%d.%s", i, c.pos, c.tok, c.dpos, strings.Join(ss, "+"))
	}
	if first {
		return "e"
	}
	return sb.String()
}

func (c *v7Cache) StartForward(ctx ml.Context, batch input.Batch, reserve bool) error {
	pre := c.snapshot()
	err := c.Causal.StartForward(ctx, batch, reserve)
	if err != nil {
		c.h.forwardFull = true
		return err
	}
	post := c.snapshot()
	loc := c.Causal.VerifC07CurLoc()
	n := len(batch.Positions)
	if w := c.h.cfg.window; w > 0 {
		// sliding window: entries older than (lowest batch position - window) leave their sequence in
		// place (harness-side mirror, only used to tell eviction from defrag)
		lowest := map[int]int{}
		for i, p := range batch.Positions {
			s := batch.Sequences[i]
			if q, ok := lowest[s]; !ok || int(p) < q {
				lowest[s] = int(p)
			}
		}
		for i := range pre {
			var keep []int
			for _, s := range pre[i].seqs {
				if lp, ok := lowest[s]; ok && pre[i].pos < lp-w {
					c.h.out.Count("swa_evicted")
					continue
				}
				keep = append(keep, s)
			}
			pre[i].seqs = keep
		}
	}
	// the state just before the batch was stored (after a possible defrag)
	mid := make([]v7Cell, len(post))
	copy(mid, post)
	for i := loc; i < loc+n; i++ {
		mid[i] = v7Cell{tok: pre[i].tok, dpos: pre[i].dpos}
	}
	a, b := v7CellsString(pre), v7CellsString(mid)
	if a != b {
		// defrag moved cells: hand the observed layout to the model (placement is C06's subject)
		c.h.adopt = b
		c.h.out.Count("step_defrag")
		// the move must at least preserve every sequence's entries as a multiset
		if v7Multiset(pre, -1) != v7Multiset(mid, -1) {
			c.h.out.Count("step_defrag_rows_mismatch")
			for s := range c.h.cfg.parallel {
				if v7Multiset(pre, s) != v7Multiset(mid, s) {
					c.h.defragTainted[s] = true
				}
			}
			c.h.l2("defrag-moved-data", "defrag moved key rows to other cells than the metadata [after a defrag whose row movement does not match its cell movement]: before="+a+" after="+b)
		}
	}
	return nil
}

// multiset of the entries of sequence seq (all sequences if seq < 0)
func v7Multiset(cells []v7Cell, seq int) string {
	var xs []string
	for _, c := range cells {
		if len(c.seqs) == 0 {
			continue
		}
		if seq >= 0 {
			has := false
			for _, s := range c.seqs {
				has = has || s == seq
			}
			if !has {
				continue
			}
			xs = append(xs, fmt.Sprintf("%d.%d.%d", c.pos, c.tok, c.dpos))
			continue
		}
		xs = append(xs, fmt.Sprintf("%d.%d.%d.%v", c.pos, c.tok, c.dpos, c.seqs))
	}
	sort.Strings(xs)
	return strings.Join(xs, ",")
}

func (c *v7Cache) Remove(seq int, beginIndex, endIndex int32) error {
	err := c.Causal.Remove(seq, beginIndex, endIndex)
	if err != nil {
		c.h.out.Count("kv_remove_err")
		if strings.Contains(err.Error(), "shared") {
			c.h.out.Count("kv_remove_err_shared")
		}
	}
	if endIndex != math.MaxInt32 {
		c.h.shiftedSlot[seq] = true // a context shift (or its failure path) touched this sequence
		if err == nil {
			c.h.out.Count("br_shift_ok")
		} else {
			c.h.out.Count("br_shift_failed_reprocess")
		}
	}
	if c.h.cfg.window > 0 && endIndex != math.MaxInt32 && beginIndex < endIndex {
		c.h.swaShifted[seq] = true
		// length of the sequence right after this shift (ShiftCacheSlot updates slot.Inputs after Remove)
		if seq >= 0 && seq < len(c.h.srv.cache.slots) {
			c.h.swaBound[seq] = len(c.h.srv.cache.slots[seq].Inputs) - int(endIndex-beginIndex)
		}
		c.h.out.Count("swa_middle_remove")
	}
	if endIndex < beginIndex {
		// the failure path's reset with an end index below the begin index (pinned code: -1)
		c.h.tainted[seq] = true
		c.h.out.Count("kv_remove_end_below_begin")
	}
	return err
}

func (c *v7Cache) CopyPrefix(src, dst int, n int32) {
	c.h.out.Count("kv_copyprefix")
	c.Causal.CopyPrefix(src, dst, n)
	c.h.tainted[dst] = c.h.tainted[src]
	c.h.defragTainted[dst] = c.h.defragTainted[src]
}

// ------------------------------------------------------------------ scripted model

type v7Model struct {
	model.Base
	h *v7Harness
}

func (m *v7Model) Encode(s string, addSpecial bool) ([]int32, error) {
	out := make([]int32, len(s))
	for i := range s {
		out[i] = int32(s[i] - 'a')
	}
	return out, nil
}

func (m *v7Model) Decode(ids []int32) (string, error) {
	var sb strings.Builder
	for _, id := range ids {
		sb.WriteByte(byte('a' + id))
	}
	return sb.String(), nil
}

func (m *v7Model) Is(id int32, special model.Special) bool {
	return special == model.SpecialEOS && int(id) == m.h.cfg.vocab-1
}

type v7Exp struct{ tok, dpos int }

// next token as a function of exactly the exposed history (order independent)
func v7Next(cfg *v7Cfg, exp []v7Exp) int {
	h := int64(0)
	for _, e := range exp {
		h += int64(e.tok+1) * int64(31*e.dpos+17)
	}
	h %= 1000003
	if h < 0 {
		h += 1000003 // Euclidean remainder, as Lean's Int.emod (key-row positions can go negative after a bad defrag)
	}
	if cfg.eosMod > 0 && h%int64(cfg.eosMod) == 0 {
		return cfg.vocab - 1
	}
	return int(h % int64(cfg.vocab-1))
}

type v7BatchTok struct {
	tok, pos, seq int
}

func (m *v7Model) Forward(ctx ml.Context, batch input.Batch) (ml.Tensor, error) {
	h := m.h
	cache := m.Config().Cache
	toks := batch.Inputs.(*v7Tensor).data
	n := len(toks)
	kd := make([]float32, 2*n)
	for i := range n {
		kd[2*i] = toks[i]
		kd[2*i+1] = float32(batch.Positions[i])
	}
	k, _ := ctx.FromFloatSlice(kd, 2, 1, n)
	v, _ := ctx.FromFloatSlice(kd, 2, 1, n)
	cache.SetLayer(0)
	cache.Put(ctx, k, v)
	key, _, mask := cache.Get(ctx)
	kt, mt := key.(*v7Tensor), mask.(*v7Tensor)
	length := mt.shape[0]

	h.forwardCalled = true
	exposed := make([][]v7Exp, n)
	for i := range n {
		for j := range length {
			if mt.data[i*length+j] == 0 {
				exposed[i] = append(exposed[i], v7Exp{int(kt.data[2*j]), int(kt.data[2*j+1])})
			}
		}
		h.batch = append(h.batch, v7BatchTok{int(toks[i]), int(batch.Positions[i]), batch.Sequences[i]})
		h.checkExposed(i, int(toks[i]), int(batch.Positions[i]), batch.Sequences[i], exposed[i])
	}

	vocab := h.cfg.vocab
	logits := make([]float32, vocab*len(batch.Outputs))
	for o, bi := range batch.Outputs {
		t := v7Next(&h.cfg, exposed[bi])
		logits[o*vocab+t] = 1
		h.outs = append(h.outs, [2]int{batch.Sequences[bi], t})
	}
	return ctx.FromFloatSlice(logits, len(logits))
}

// ------------------------------------------------------------------ harness

type v7Cfg struct {
	resetEnd             int
	parallel, ctx, batch int
	multi, canShift      bool
	vocab, eosMod        int
	stopEarliest         bool // which FindStop the tree has (probed on the real function)
	crCounted            bool // which CanResume the tree has (probed on the real Causal)
	window               int  // sliding window (0 = plain causal cache)
}

type v7Event struct {
	kind     string // req | step | busy
	keep     int
	npredict int
	stops    []string
	prompt   []int
	adopt    string
}

func (e *v7Event) String() string {
	toks := func(xs []int) string {
		ss := make([]string, len(xs)+1)
		ss[0] = strconv.Itoa(len(xs))
		for i, x := range xs {
			ss[i+1] = strconv.Itoa(x)
		}
		return strings.Join(ss, " ")
	}
	switch e.kind {
	case "req":
		s := fmt.Sprintf("req %d %d %d", e.keep, e.npredict, len(e.stops))
		for _, st := range e.stops {
			s += " " + st
		}
		return s + " " + toks(e.prompt)
	case "busy":
		return "busy " + toks(e.prompt)
	default:
		a := e.adopt
		if a == "" {
			a = "-"
		}
		return "step " + a
	}
}

type v7Harness struct {
	cfg           v7Cfg
	srv           *Server
	cache         *v7Cache
	out           *zzverif.Out
	live          []*Sequence  // mirror of srv.seqs (kept after removal until drained)
	prompts       [][]int      // effective prompt of live[i] (after truncation)
	gen           [][]int      // tokens sampled for live[i]
	text          []string     // text sent to the client of live[i] so far
	shiftedSlot   map[int]bool // a context shift happened on this slot since its request was loaded
	start         time.Time
	tainted       map[int]bool
	swaShifted    map[int]bool // a middle Remove (context shift) happened on a sliding-window cache
	swaBound      map[int]int  // length of the sequence right after that shift
	pastPrompts   [][]int
	defragTainted map[int]bool

	// per step
	forwardCalled bool
	forwardFull   bool
	adopt         string
	batch         []v7BatchTok
	outs          [][2]int

	events []string
	obs    []string
	fails  [][2]string
}

func (h *v7Harness) l2(kind, detail string) {
	h.fails = append(h.fails, [2]string{kind, detail})
}

func v7Ints(xs []int) string {
	if len(xs) == 0 {
		return "-"
	}
	ss := make([]string, len(xs))
	for i, x := range xs {
		ss[i] = strconv.Itoa(x)
	}
	return strings.Join(ss, ",")
}

func v7Toks(in []input.Input) []int {
	out := make([]int, len(in))
	for i, x := range in {
		out[i] = int(x.Token)
	}
	return out
}

func (h *v7Harness) tick(t time.Time) int {
	if t.IsZero() {
		return 0
	}
	return int(t.Sub(h.start) / time.Millisecond)
}

func (h *v7Harness) taintNote(seq int) string { return h.taintNoteSWA(seq, true) }

// swaExplains: the failure is of the class a context shift on a sliding-window cache explains (entries missing,
// nothing wrong or duplicated, all below the length the sequence had right after the shift)
func (h *v7Harness) taintNoteSWA(seq int, swaExplains bool) string {
	n := ""
	if h.tainted[seq] {
		n += fmt.Sprintf(" [slot %d: after the failed-shift reset Remove(id,0,%d) with end<begin]", seq, h.cfg.resetEnd)
	}
	if h.defragTainted[seq] {
		n += fmt.Sprintf(" [slot %d: after a defrag whose row movement does not match its cell movement]", seq)
	}
	if h.swaShifted[seq] && swaExplains {
		n += fmt.Sprintf(" [slot %d: after a context shift (middle Remove) on a sliding-window cache]", seq)
	}
	return n
}

// L2: what the model is shown for a batch token must be exactly the effective input
// (slot record ++ pending) up to and including that token, each at its own position.
func (h *v7Harness) checkExposed(bi, tok, pos, seq int, exp []v7Exp) {
	var sq *Sequence
	for _, s := range h.srv.seqs {
		if s != nil && s.cache != nil && s.cache.Id == seq {
			sq = s
		}
	}
	if sq == nil {
		h.l2("exposed-history", fmt.Sprintf("batch token %d for sequence %d which no live request owns", bi, seq))
		return
	}
	eff := append(v7Toks(sq.cache.Inputs), v7Toks(sq.pendingInputs)...)
	if pos >= len(eff) || eff[pos] != tok {
		h.l2("batch-position", fmt.Sprintf("batch token %d (tok %d) at position %d is not the effective input there (eff=%s)%s", bi, tok, pos, v7Ints(eff), h.taintNote(seq)))
		return
	}
	got := append([]v7Exp(nil), exp...)
	sort.Slice(got, func(i, j int) bool {
		if got[i].dpos != got[j].dpos {
			return got[i].dpos < got[j].dpos
		}
		return got[i].tok < got[j].tok
	})
	lo := 0
	if w := h.cfg.window; w > 0 && pos-w > 0 {
		lo = pos - w // the model is shown the window [pos-w, pos]
	}
	ok := len(got) == pos+1-lo
	if ok {
		for k := lo; k <= pos; k++ {
			if got[k-lo].dpos != k || got[k-lo].tok != eff[k] {
				ok = false
				break
			}
		}
	}
	if !ok {
		var gs []string
		for _, g := range got {
			gs = append(gs, fmt.Sprintf("%d@%d", g.tok, g.dpos))
		}
		// classes: every entry shown is right (its own position in [lo,pos], the effective input there, once) and
		// some are missing = "missing-entries"; more entries than positions = "stale-or-duplicate-entries"; else "wrong"
		present := map[int]bool{}
		allRight := true
		for _, g := range got {
			if g.dpos < lo || g.dpos > pos || present[g.dpos] || g.tok != eff[g.dpos] {
				allRight = false
			}
			present[g.dpos] = true
		}
		cls := "wrong"
		swaExplains := false
		if len(got) > pos+1-lo {
			cls = "stale-or-duplicate-entries"
		} else if len(got) < pos+1-lo && allRight {
			cls = "missing-entries"
			swaExplains = true
			for k := lo; k <= pos; k++ {
				if !present[k] && k >= h.swaBound[seq] {
					swaExplains = false // an entry stored after the shift is missing: not what the shift explains
				}
			}
		}
		h.l2("exposed-history", fmt.Sprintf("%s: seq %d pos %d sees [%s], effective input (from position %d) is %s%s", cls, seq, pos, strings.Join(gs, " "), lo, v7Ints(eff[lo:pos+1]), h.taintNoteSWA(seq, swaExplains)))
	}
}

// L2: Coherent evaluated on the real cache, for every slot.
func (h *v7Harness) checkCoherent(when string) {
	cells := h.cache.snapshot()
	for i := range h.srv.cache.slots {
		sl := &h.srv.cache.slots[i]
		rec := v7Toks(sl.Inputs)
		count := make([]int, len(rec))
		bad := ""
		swaExplains := false
		for loc, c := range cells {
			has := false
			for _, s := range c.seqs {
				if s == sl.Id {
					has = true
				}
			}
			if !has {
				continue
			}
			switch {
			case c.pos < 0:
				bad = fmt.Sprintf("cell %d at negative position %d", loc, c.pos)
			case c.pos >= len(rec):
				if sl.InUse {
					bad = fmt.Sprintf("cell %d at position %d beyond the record (len %d) of an in-use slot", loc, c.pos, len(rec))
				}
			default:
				count[c.pos]++
				if c.tok != rec[c.pos] || c.dpos != c.pos {
					bad = fmt.Sprintf("cell %d at position %d holds tok %d dpos %d, record says tok %d", loc, c.pos, c.tok, c.dpos, rec[c.pos])
				}
			}
		}
		for p, n := range count {
			if w := h.cfg.window; w > 0 {
				// sliding window: older entries may be gone; the window the next token needs must be
				// there for a slot in use (a released slot is re-checked by CanResume when it is loaded)
				need := sl.InUse && p >= len(rec)-w
				if (n > 1 || (need && n != 1)) && bad == "" {
					bad = fmt.Sprintf("position %d of the record (inside the window of the next position: %v) is stored %d times", p, need, n)
					swaExplains = n == 0 && p < h.swaBound[sl.Id]
				}
				continue
			}
			if n != 1 && bad == "" {
				bad = fmt.Sprintf("position %d of the record is stored %d times", p, n)
			}
		}
		if bad != "" {
			h.l2("coherent", fmt.Sprintf("%s: slot %d: %s%s", when, sl.Id, bad, h.taintNoteSWA(sl.Id, swaExplains)))
		}
	}
}

func (h *v7Harness) state() string {
	var sb strings.Builder
	for i := range h.srv.cache.slots {
		sl := &h.srv.cache.slots[i]
		u := 0
		if sl.InUse {
			u = 1
		}
		fmt.Fprintf(&sb, "S%d:%d:%d:%s;", sl.Id, u, h.tick(sl.lastUsed), v7Ints(v7Toks(sl.Inputs)))
	}
	fmt.Fprintf(&sb, "n%d;", h.srv.nextSeq)
	for i, sq := range h.srv.seqs {
		if sq == nil {
			fmt.Fprintf(&sb, "Q%d:nil;", i)
			continue
		}
		pr := strings.Join(sq.pendingResponses, "")
		if pr == "" {
			pr = "-"
		}
		fmt.Fprintf(&sb, "Q%d:%d:%s:%s:%d:%s;", i, sq.cache.Id, v7Ints(v7Toks(sq.inputs)), v7Ints(v7Toks(sq.pendingInputs)), sq.numPredicted, pr)
	}
	sb.WriteString("K" + v7CellsString(h.cache.snapshot()))
	return sb.String()
}

func v7Prompt(toks []int) string {
	b := make([]byte, len(toks))
	for i, t := range toks {
		b[i] = byte('a' + t)
	}
	return string(b)
}

func (h *v7Harness) freeSeq() int {
	for i, s := range h.srv.seqs {
		if s == nil && h.live[i] == nil {
			return i
		}
	}
	return -1
}

func (h *v7Harness) anyLive() bool {
	for _, s := range h.srv.seqs {
		if s != nil {
			return true
		}
	}
	return false
}

func (h *v7Harness) doReq(e *v7Event) string {
	s := h.srv
	seq, err := s.NewSequence(v7Prompt(e.prompt), nil, NewSequenceParams{
		numPredict: e.npredict,
		stop:       e.stops,
		numKeep:    int32(e.keep),
		sampler:    sample.NewSampler(0, 0, 0, 0, -1, nil),
	})
	if err != nil {
		h.out.Count("req_err_newseq")
		return "req:err:newseq"
	}
	if len(e.prompt) > h.cfg.ctx {
		h.out.Count("req_prompt_truncated")
	}
	prompt := v7Toks(seq.inputs)
	if err := s.seqsSem.Acquire(context.Background(), 1); err != nil {
		panic(err)
	}
	// the slot-loading block of (*Server).completion
	s.mu.Lock()
	defer s.mu.Unlock()
	for i, sq := range s.seqs {
		if sq == nil {
			inUseBefore := make([]bool, len(s.cache.slots))
			for k := range s.cache.slots {
				inUseBefore[k] = s.cache.slots[k].InUse
			}
			seq.cache, seq.inputs, err = s.cache.LoadCacheSlot(seq.inputs)
			if err != nil {
				s.seqsSem.Release(1)
				h.out.Count("req_err_load")
				return "req:err:load"
			}
			s.seqs[i] = seq
			h.live[i] = seq
			h.prompts[i] = prompt
			h.gen[i] = nil
			h.text[i] = ""
			h.shiftedSlot[seq.cache.Id] = false
			h.swaShifted[seq.cache.Id] = false // CanResume has just re-checked the window
			h.pastPrompts = append(h.pastPrompts, append([]int(nil), e.prompt...))
			// L2: slot exclusivity and soundness of the reused prefix
			if inUseBefore[seq.cache.Id] {
				h.l2("slot-exclusive", fmt.Sprintf("LoadCacheSlot handed out slot %d which was in use", seq.cache.Id))
			}
			for k, o := range s.seqs {
				if o != nil && k != i && o.cache == seq.cache {
					h.l2("slot-exclusive", fmt.Sprintf("requests %d and %d share slot %d", k, i, seq.cache.Id))
				}
			}
			rec, rest := v7Toks(seq.cache.Inputs), v7Toks(seq.inputs)
			if v7Ints(append(append([]int(nil), rec...), rest...)) != v7Ints(prompt) || len(rest) < 1 {
				h.l2("prefix-reuse", fmt.Sprintf("slot %d record %s ++ remaining %s is not the prompt %s (or nothing left to process)", seq.cache.Id, v7Ints(rec), v7Ints(rest), v7Ints(prompt)))
			}
			if len(rec) > 0 {
				h.out.Count("req_prefix_reused")
				h.out.Add("req_prefix_reused_inputs", len(rec))
			}
			if len(rec) > 0 && len(rest) == 1 && len(rec)+1 == len(prompt) {
				h.out.Count("req_reuse_all_but_one")
			}
			h.out.Count("req_ok")
			return fmt.Sprintf("req:ok,i=%d,slot=%d,rest=%d", i, seq.cache.Id, len(rest))
		}
	}
	panic("no free sequence index")
}

func (h *v7Harness) doBusy(e *v7Event) (res string) {
	defer func() {
		if r := recover(); r != nil {
			h.out.Count("busy_panic")
			res = "busy:panic"
		}
	}()
	in := make([]input.Input, len(e.prompt))
	for i, t := range e.prompt {
		in[i] = input.Input{Token: int32(t)}
	}
	slot, _, err := h.srv.cache.LoadCacheSlot(in)
	if err != nil {
		h.out.Count("busy_err")
		return "busy:err"
	}
	h.l2("slot-exclusive", fmt.Sprintf("every slot is in use but LoadCacheSlot returned slot %d", slot.Id))
	return "busy:ok"
}

func (h *v7Harness) doStep(e *v7Event) (string, bool) {
	h.forwardCalled, h.forwardFull, h.adopt = false, false, ""
	h.batch, h.outs = nil, nil
	if !h.anyLive() {
		// processBatch would wait on its condition variable for ever (a replayed history on a changed tree)
		h.out.Count("step_idle")
		return "step:idle", true
	}
	err := h.srv.processBatch()
	e.adopt = h.adopt
	if err != nil {
		h.out.Count("step_err")
		if h.forwardFull {
			h.out.Count("step_err_kv_full")
			note := ""
			for s, t := range h.tainted {
				if t {
					note = h.taintNote(s)
				}
			}
			if w := h.cfg.window; w > 0 && w <= h.cfg.ctx {
				note += fmt.Sprintf(" [sliding-window cache (window %d): Causal.Init sizes it maxSequences*window+maxBatch = %d cells, but every sequence keeps its window plus its last batch until its own next Forward]", w, h.cfg.parallel*w+h.cfg.batch)
				h.out.Count("step_err_kv_full_swa")
			}
			h.l2("forward-error", "processBatch failed (the runner panics on this): "+err.Error()+note)
		} else {
			h.l2("forward-error", "processBatch failed: "+err.Error())
		}
		return "step:err", false
	}
	var sb strings.Builder
	sb.WriteString("step:B[")
	for i, b := range h.batch {
		if i > 0 {
			sb.WriteByte(' ')
		}
		fmt.Fprintf(&sb, "%d@%d/%d", b.tok, b.pos, b.seq)
	}
	sb.WriteString("]O[")
	for i, o := range h.outs {
		if i > 0 {
			sb.WriteByte(' ')
		}
		fmt.Fprintf(&sb, "%d:%d", o[0], o[1])
	}
	sb.WriteString("]R[")
	var done []string
	firstR := true
	for i, sq := range h.live {
		if sq == nil {
			continue
		}
		// tokens sampled for this request in this step
		for _, o := range h.outs {
			if o[0] == sq.cache.Id {
				h.gen[i] = append(h.gen[i], o[1])
			}
		}
	drain:
		for {
			select {
			case r, ok := <-sq.responses:
				if !ok {
					done = append(done, fmt.Sprintf("%d:%d", i, int(sq.doneReason)))
					h.finish(i)
					h.live[i] = nil
					break drain
				}
				if !firstR {
					sb.WriteByte(' ')
				}
				firstR = false
				h.text[i] += r
				fmt.Fprintf(&sb, "%d:%s", i, r)
			default:
				break drain
			}
		}
	}
	sb.WriteString("]D[" + strings.Join(done, " ") + "]")
	if len(h.batch) == 0 {
		h.out.Count("step_empty_batch")
	}
	// branch counters for the theorems about the executable processBatch (Properties/C07Batch.lean)
	seqsInBatch := map[int]int{}
	for _, b := range h.batch {
		seqsInBatch[b.seq]++
	}
	if len(seqsInBatch) >= 2 {
		h.out.Count("br_mixed_batch")
	}
	if len(h.batch) == h.cfg.batch && h.cfg.batch > 0 {
		for _, sq := range h.live {
			if sq != nil && len(sq.inputs) > 0 && len(h.outs) < len(seqsInBatch) {
				h.out.Count("br_batch_full_inputs_left")
				break
			}
		}
	}
	for _, n := range seqsInBatch {
		if n >= 2 {
			h.out.Count("br_multi_input_run")
			break
		}
	}
	h.out.Add("batch_tokens", len(h.batch))
	return sb.String(), true
}

// L2 "the cache record is trimmed when a stop sequence removes generated tokens" (never-shifted requests,
// evaluated on the real slot and the real client text, independent of the model): when a request ends by EOS or a
// stop string the slot's record is the effective prompt followed by exactly the generated tokens whose text was
// returned to the client (every piece is one byte here); when it ends by numPredict the last sampled token was
// never submitted to Decode.
func (h *v7Harness) checkStopCut(i int) {
	sq := h.live[i]
	rec := v7Toks(sq.cache.Inputs)
	gen := h.gen[i]
	var k int
	switch sq.doneReason {
	case llm.DoneReasonStop:
		k = len(h.text[i])
		if k > len(gen) {
			h.l2("stop-cut", fmt.Sprintf("request %d: %d bytes of text were returned for %d generated tokens", i, k, len(gen)))
			return
		}
		dec, _ := (&v7Model{h: h}).Decode(v7Int32s(gen[:k]))
		if dec != h.text[i] {
			h.l2("stop-cut", fmt.Sprintf("request %d: text returned %q is not the text of the first %d generated tokens %s", i, h.text[i], k, v7Ints(gen)))
			return
		}
		if k < len(gen)-1 || (k == len(gen)-1 && len(gen) > 0 && gen[len(gen)-1] != h.cfg.vocab-1) {
			h.out.Count("stop_cut_removed_tokens")
		}
	case llm.DoneReasonLength:
		k = len(gen) - 1
		if k < 0 {
			k = 0
		}
	default:
		return
	}
	want := append(append([]int(nil), h.prompts[i]...), gen[:k]...)
	if v7Ints(rec) != v7Ints(want) {
		h.l2("stop-cut", fmt.Sprintf("request %d ended (reason %d) with text %q returned for generated tokens %s: slot %d records %s, the inputs actually kept are %s%s",
			i, int(sq.doneReason), h.text[i], v7Ints(gen), sq.cache.Id, v7Ints(rec), v7Ints(want), h.taintNote(sq.cache.Id)))
		return
	}
	h.out.Count("stop_cut_checked")
}

func v7Int32s(xs []int) []int32 {
	r := make([]int32, len(xs))
	for i, x := range xs {
		r[i] = int32(x)
	}
	return r
}

// L2 fresh-equivalence for a finished request that never shifted: the sampled tokens are those a
// fresh runner (empty cache) produces for the same prompt.
func (h *v7Harness) finish(i int) {
	h.out.Count("req_finished")
	switch g := h.gen[i]; {
	case h.live[i].doneReason == llm.DoneReasonLength:
		h.out.Count("br_done_numpredict")
	case len(g) > 0 && g[len(g)-1] == h.cfg.vocab-1:
		h.out.Count("br_done_eos")
	default:
		h.out.Count("br_done_stop_string")
	}
	if h.shiftedSlot[h.live[i].cache.Id] {
		h.out.Count("req_finished_shifted")
		return
	}
	h.checkStopCut(i)
	hist := append([]int(nil), h.prompts[i]...)
	for k, g := range h.gen[i] {
		var exp []v7Exp
		for p, t := range hist {
			if w := h.cfg.window; w > 0 && p < len(hist)-1-w {
				continue // outside the window of the last position
			}
			exp = append(exp, v7Exp{t, p})
		}
		want := v7Next(&h.cfg, exp)
		if want != g {
			h.l2("fresh-equiv", fmt.Sprintf("request %d: generated token #%d is %d, a fresh runner generates %d for input %s%s", i, k, g, want, v7Ints(hist), h.taintNote(h.live[i].cache.Id)))
			return
		}
		hist = append(hist, g)
	}
	h.out.Count("req_fresh_equiv_checked")
	h.out.Add("req_fresh_equiv_tokens", len(h.gen[i]))
}

func v7NewHarness(cfg v7Cfg, out *zzverif.Out) *v7Harness {
	h := &v7Harness{cfg: cfg, out: out, tainted: map[int]bool{}, swaShifted: map[int]bool{}, swaBound: map[int]int{}, defragTainted: map[int]bool{}, shiftedSlot: map[int]bool{}}
	var shift func(ctx ml.Context, layer int, key, shift ml.Tensor) (ml.Tensor, error)
	if cfg.canShift {
		shift = v7Shift
	}
	if cfg.window > 0 {
		h.cache = &v7Cache{Causal: kvcache.NewSWACache(int32(cfg.window), shift), h: h}
	} else {
		h.cache = &v7Cache{Causal: kvcache.NewCausalCache(shift), h: h}
	}
	m := &v7Model{Base: model.NewVerifC07Base(&v7Backend{}, h.cache), h: h}
	ic, err := NewInputCache(m, "", int32(cfg.parallel*cfg.ctx), cfg.parallel, cfg.batch, cfg.multi)
	if err != nil {
		panic(err)
	}
	s := &Server{
		model:     m,
		batchSize: cfg.batch,
		parallel:  cfg.parallel,
		seqs:      make([]*Sequence, cfg.parallel),
		seqsSem:   semaphore.NewWeighted(int64(cfg.parallel)),
		cache:     ic,
	}
	s.cond = sync.NewCond(&s.mu)
	h.srv = s
	h.live = make([]*Sequence, cfg.parallel)
	h.prompts = make([][]int, cfg.parallel)
	h.gen = make([][]int, cfg.parallel)
	h.text = make([]string, cfg.parallel)
	h.start = time.Now()
	return h
}

func (h *v7Harness) header(n int) string {
	b := func(x bool) int {
		if x {
			return 1
		}
		return 0
	}
	c := h.cfg
	return fmt.Sprintf("hist %d %d %d %d %d %d %d %d %d %d %d %d %d", c.resetEnd, c.parallel, c.ctx, c.batch, b(c.multi), b(c.canShift), c.vocab, c.eosMod, b(c.stopEarliest), b(c.crCounted), c.window, len(h.cache.Causal.VerifC07Cells()), n)
}

// run executes events drawn from next() until it returns nil or a step fails.
func (h *v7Harness) run(next func() *v7Event) {
	for {
		e := next()
		if e == nil {
			break
		}
		time.Sleep(time.Millisecond) // fake time: one tick per event (also keeps F22 out of the way)
		// announce the running history (events so far + the one about to run) so that a death of the whole
		// test process can be attributed to it
		v7Announce(h.header(len(h.events)+1) + " " + strings.Join(append(append([]string(nil), h.events...), e.String()), " "))
		// records of idle slots before the event (records of different slots never share storage)
		idleRec := map[int]string{}
		for i := range h.srv.cache.slots {
			if sl := &h.srv.cache.slots[i]; !sl.InUse {
				idleRec[i] = v7Ints(v7Toks(sl.Inputs))
			}
		}
		var o string
		cont := true
		func() {
			// a panic of the real code ends the history; it is reported with its replay
			defer func() {
				if p := recover(); p != nil {
					h.out.Count("runner_panic")
					if os.Getenv("VERIF_C07_TRACE") != "" {
						fmt.Fprintf(os.Stderr, "panic: %v\n%s\n", p, debug.Stack())
					}
					h.l2("runner-panic", fmt.Sprintf("the runner code panicked during a %s event: %v", e.kind, p))
					o, cont = e.kind+":panic", false
				}
			}()
			switch e.kind {
			case "req":
				o = h.doReq(e)
			case "busy":
				o = h.doBusy(e)
			case "step":
				o, cont = h.doStep(e)
			}
		}()
		h.events = append(h.events, e.String())
		for i, was := range idleRec {
			if sl := &h.srv.cache.slots[i]; !sl.InUse && v7Ints(v7Toks(sl.Inputs)) != was {
				h.l2("record-aliasing", fmt.Sprintf("a %s event changed the record of idle slot %d from %s to %s", e.kind, i, was, v7Ints(v7Toks(sl.Inputs))))
			}
		}
		if cont {
			h.checkCoherent("after " + e.kind)
			o += " {" + h.state() + "}"
		}
		h.obs = append(h.obs, o)
		if !cont {
			break
		}
	}
	line := h.header(len(h.events)) + " " + strings.Join(h.events, " ")
	h.out.Case(line, strings.Join(h.obs, " | "))
	h.out.Count("cases")
	h.out.Add("events", len(h.events))
	// one record per (kind, shape of the detail incl. its taint notes) per history: a known failure must not hide
	// a later, different failure of the same kind in the same history (classification happens in the check)
	seen := map[string]bool{}
	perKind := map[string]int{}
	for _, f := range h.fails {
		k := v7DedupKey(f[0], f[1])
		if seen[k] || perKind[f[0]] >= 8 {
			continue
		}
		seen[k] = true
		perKind[f[0]]++
		h.out.L2(f[0], line, f[1])
	}
	if len(h.fails) > 0 {
		h.out.Count("histories_with_l2_failure")
	}
}

var (
	v7ReNum  = regexp.MustCompile(`-?\d+`)
	v7ReList = regexp.MustCompile(`(#@# ?)+|(#,)+#`)
)

// shape of an L2 record: kind + detail with numbers and lists of numbers collapsed
func v7DedupKey(kind, detail string) string {
	d := v7ReNum.ReplaceAllString(detail, "#")
	d = v7ReList.ReplaceAllString(d, "#")
	return kind + "|" + d
}

// ------------------------------------------------------------------ generator

// v7ProbeStop asks the real FindStop which variant the tree has: the pinned one returns the first
// listed stop that occurs, the repaired one the stop that occurs earliest.
func v7ProbeStop() bool {
	_, st := common.FindStop("ab", []string{"b", "ab"})
	return st == "ab"
}

// v7ProbeCanResume asks the real Causal whether CanResume counts the entries present in the window
// of the resume position (commit 86ff119f0) or only compares window starts.
func v7ProbeCanResume() bool {
	c := kvcache.NewSWACache(2, nil)
	c.Init(&v7Backend{}, ml.DTypeF16, 1, 8, 4)
	ctx := &v7Context{}
	if err := c.StartForward(ctx, input.Batch{Positions: []int32{3, 4}, Sequences: []int{0, 0}}, false); err != nil {
		panic(err)
	}
	return !c.CanResume(0, 4) // position 2 of the window [2,4) is missing
}

func v7GenCfg(r *zzverif.Rng, resetEnd int) v7Cfg {
	c := v7Cfg{resetEnd: resetEnd, stopEarliest: v7ProbeStop(), crCounted: v7ProbeCanResume()}
	if r.Chance(2, 5) {
		c.window = r.Range(1, 8)
	}
	c.parallel = r.Range(1, 4)
	c.ctx = r.Pick3(4, 12, 64)
	c.batch = zzverif.Pick(r, []int{1, 1, 2, 3, 4, 8, 16})
	c.multi = r.Bool()
	c.canShift = r.Chance(3, 4)
	c.vocab = r.Range(3, 9)
	c.eosMod = zzverif.Pick(r, []int{0, 0, 7, 13, 29})
	return c
}

func (h *v7Harness) genPrompt(r *zzverif.Rng, bases [][]int) []int {
	c := h.cfg
	randToks := func(n int) []int {
		out := make([]int, n)
		for i := range out {
			out[i] = r.Intn(c.vocab - 1)
		}
		return out
	}
	var p []int
	switch r.Intn(10) {
	case 0, 1: // fresh random prompt
		p = randToks(r.Range(1, c.ctx))
	case 2, 3, 4: // prefix of a base prompt + divergent suffix
		b := zzverif.Pick(r, bases)
		p = append([]int(nil), b[:r.Range(1, len(b))]...)
		p = append(p, randToks(r.Intn(4))...)
	case 5: // exact repeat of an earlier prompt (or of a base)
		if len(h.pastPrompts) > 0 && r.Chance(3, 4) {
			p = append([]int(nil), zzverif.Pick(r, h.pastPrompts)...)
		} else {
			p = append([]int(nil), zzverif.Pick(r, bases)...)
		}
	case 6, 7, 8: // follow-up turn: some slot's record (prompt + answer) + new suffix / or exactly it / or a prefix of it
		sl := &h.srv.cache.slots[r.Intn(len(h.srv.cache.slots))]
		p = v7Toks(sl.Inputs)
		switch r.Intn(5) {
		case 0:
		case 1:
			if len(p) > 1 {
				p = p[:r.Range(1, len(p))]
			}
		case 2: // the record minus its last k inputs (an exact repeat after k cached generated tokens)
			if k := r.Range(1, 3); len(p) > k {
				p = p[:len(p)-k]
			}
		default:
			p = append(p, randToks(r.Range(1, 4))...)
		}
		if len(p) == 0 {
			p = randToks(r.Range(1, c.ctx))
		}
	default: // longer than the context
		p = randToks(c.ctx + r.Range(1, c.ctx))
	}
	return p
}

func v7Generate(r *zzverif.Rng, resetEnd int, out *zzverif.Out) {
	cfg := v7GenCfg(r, resetEnd)
	h := v7NewHarness(cfg, out)
	nb := r.Range(1, 3)
	bases := make([][]int, nb)
	for i := range bases {
		n := r.Range(1, cfg.ctx+cfg.ctx/2)
		bases[i] = make([]int, n)
		for j := range bases[i] {
			bases[i][j] = r.Intn(cfg.vocab - 1)
		}
	}
	budget := r.Range(8, 70)
	reqRate := r.Range(1, 4)
	n := 0
	h.run(func() *v7Event {
		n++
		if n > budget {
			return nil
		}
		free := h.freeSeq()
		live := h.anyLive()
		if free < 0 && r.Chance(1, 12) {
			return &v7Event{kind: "busy", prompt: h.genPrompt(r, bases)}
		}
		if free >= 0 && (!live || r.Chance(reqRate, 8)) {
			e := &v7Event{kind: "req", prompt: h.genPrompt(r, bases)}
			switch r.Intn(4) {
			case 0:
				e.keep = 0
			case 1:
				e.keep = -1
			default:
				e.keep = r.Intn(cfg.ctx + 2)
			}
			switch r.Intn(5) {
			case 0:
				e.npredict = -1
			case 1:
				e.npredict = r.Range(1, 3)
			default:
				e.npredict = r.Range(1, 2*cfg.ctx)
			}
			for range r.Intn(3) {
				st := make([]byte, r.Range(1, 2))
				for i := range st {
					st[i] = byte('a' + r.Intn(cfg.vocab-1))
				}
				e.stops = append(e.stops, string(st))
			}
			if r.Chance(1, 2) {
				e.stops = nil
			}
			return e
		}
		if !live {
			return nil
		}
		return &v7Event{kind: "step"}
	})
	h.stats()
}

func (h *v7Harness) stats() {
	c := h.cfg
	h.out.Count(fmt.Sprintf("cfg_parallel_%d", c.parallel))
	switch {
	case c.ctx <= 8:
		h.out.Count("cfg_ctx_le8")
	case c.ctx <= 16:
		h.out.Count("cfg_ctx_le16")
	default:
		h.out.Count("cfg_ctx_gt16")
	}
	if c.multi {
		h.out.Count("cfg_multiuser")
	}
	if !c.canShift {
		h.out.Count("cfg_noshiftfn")
	}
	if c.window > 0 {
		h.out.Count("cfg_swa")
		if c.window < c.ctx {
			h.out.Count("cfg_swa_window_lt_ctx")
		}
	}
	for _, t := range h.tainted {
		if t {
			h.out.Count("histories_with_failed_shift_reset")
			break
		}
	}
	// which variants of the probed functions the tree has (the check expects the repaired ones)
	if c.stopEarliest {
		h.out.Count("variant_findstop_earliest")
	} else {
		h.out.Count("variant_findstop_first_listed")
	}
	if c.crCounted {
		h.out.Count("variant_canresume_counted")
	} else {
		h.out.Count("variant_canresume_uncounted")
	}
}

// v7Announce overwrites <VERIF_OUT>/current.txt with the history that is running.
func v7Announce(line string) {
	_ = os.WriteFile(zzverif.OutDir()+"/current.txt", []byte(line+"\n"), 0o644)
}

// ------------------------------------------------------------------ replay

func v7ParseHist(line string) (v7Cfg, []*v7Event) {
	f := strings.Fields(line)
	if len(f) < 14 || f[0] != "hist" {
		panic("bad hist line")
	}
	at := func(i int) int {
		v, err := strconv.Atoi(f[i])
		if err != nil {
			panic(err)
		}
		return v
	}
	c := v7Cfg{resetEnd: at(1), parallel: at(2), ctx: at(3), batch: at(4), multi: at(5) != 0, canShift: at(6) != 0, vocab: at(7), eosMod: at(8)}
	c.window = at(11)
	n := at(13) // f[12] = number of cells, re-read from the real cache
	i := 14
	var evs []*v7Event
	list := func() []int {
		k := at(i)
		i++
		out := make([]int, k)
		for j := range out {
			out[j] = at(i)
			i++
		}
		return out
	}
	for range n {
		e := &v7Event{kind: f[i]}
		i++
		switch e.kind {
		case "req":
			e.keep, e.npredict = at(i), at(i+1)
			ns := at(i + 2)
			i += 3
			for range ns {
				e.stops = append(e.stops, f[i])
				i++
			}
			e.prompt = list()
		case "busy":
			e.prompt = list()
		case "step":
			i++ // placement hint: recomputed from the real cache
		default:
			panic("bad event " + e.kind)
		}
		evs = append(evs, e)
	}
	return c, evs
}

func v7Replay(line string, resetEnd int, out *zzverif.Out) {
	cfg, evs := v7ParseHist(line)
	cfg.resetEnd = resetEnd
	cfg.stopEarliest = v7ProbeStop()
	cfg.crCounted = v7ProbeCanResume()
	h := v7NewHarness(cfg, out)
	k := 0
	h.run(func() *v7Event {
		if k >= len(evs) {
			return nil
		}
		k++
		return evs[k-1]
	})
	h.stats()
}

func TestVerifC07(t *testing.T) {
	slog.SetDefault(slog.New(slog.NewTextHandler(io.Discard, nil)))
	out := zzverif.NewOut()
	defer out.Close()
	resetEnd := zzverif.EnvInt("VERIF_C07_RESET_END", -1)
	bubble := func(f func()) {
		synctest.Test(t, func(t *testing.T) { f() })
	}
	if p := os.Getenv("VERIF_REPLAY"); p != "" {
		raw, err := os.ReadFile(p)
		if err != nil {
			t.Fatal(err)
		}
		for _, line := range strings.Split(string(raw), "\n") {
			if strings.TrimSpace(line) != "" {
				bubble(func() { v7Replay(line, resetEnd, out) })
			}
		}
		return
	}
	// corpus first
	if p := os.Getenv("VERIF_C07_CORPUS"); p != "" {
		if raw, err := os.ReadFile(p); err == nil {
			for _, line := range strings.Split(string(raw), "\n") {
				if strings.HasPrefix(line, "hist ") {
					bubble(func() { v7Replay(line, resetEnd, out) })
					out.Count("corpus_cases")
				}
			}
		}
	}
	root := zzverif.NewRng(zzverif.Seed())
	n := zzverif.EnvInt("VERIF_N", 200)
	for range n {
		r := root.Fork()
		bubble(func() { v7Generate(r, resetEnd, out) })
	}
}
