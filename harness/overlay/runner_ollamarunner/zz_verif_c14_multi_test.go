package ollamarunner

// C14, several sequences in one Server.  processBatch handles all active sequences in one batch
// (`for i, seq := range s.seqs`), sequences join and leave at different times, a small batch size makes
// some of them wait a round.  What is streamed for a sequence must be a function of ITS pieces, stops
// and limit only.  The REAL NewSequence / LoadCacheSlot / processBatch / removeSequence / flushPending
// run with 2-3 sequences; the scripted model answers every output row of the batch from the script of
// the sequence that owns the row (batch.Sequences[batch.Outputs[k]]).
//
// L1: every sequence's observation against the single-sequence Lean model (`loop` command).
// L2: the property monitors per sequence, and the metamorphic monitor "same observation as when the
// sequence runs alone on the real code".
//
// Added with `go test -overlay`; never committed to /repo.

import (
	"errors"
	"fmt"
	"os"
	"strconv"
	"strings"
	"sync"
	"testing"

	"golang.org/x/sync/semaphore"

	"github.com/ollama/ollama/ml"
	"github.com/ollama/ollama/model"
	"github.com/ollama/ollama/model/input"
	"github.com/ollama/ollama/sample"
	"github.com/ollama/ollama/zzverif"
)

type verifMultiSeq struct {
	join      int // added before processBatch call number `join` (or later, when a slot is free)
	promptLen int
	limit     int
	stops     []string
	script    []verifEv

	// run state
	base    int
	step    int
	seq     *Sequence
	res     verifLoopResult
	started bool
	done    bool
}

type verifMultiModel struct {
	model.Base
	all    []verifEv // token id -> event
	bySlot map[int]*verifMultiSeq
}

func (m *verifMultiModel) Backend() ml.Backend { return &verifBackend{} }

func (m *verifMultiModel) Forward(ctx ml.Context, batch input.Batch) (ml.Tensor, error) {
	f := make([]float32, len(m.all)*len(batch.Outputs))
	for k, oi := range batch.Outputs {
		sc := m.bySlot[batch.Sequences[oi]]
		if sc == nil {
			return nil, fmt.Errorf("verif: output row %d belongs to unknown slot %d", k, batch.Sequences[oi])
		}
		if sc.step >= len(sc.script) {
			return nil, errVerifScriptEnd
		}
		f[k*len(m.all)+sc.base+sc.step] = 1
		sc.step++
	}
	return &verifTensor{f: f}, nil
}

func (m *verifMultiModel) Encode(s string, addSpecial bool) ([]int32, error) {
	return make([]int32, len(s)), nil // prompt of len(s) tokens, all id 0
}
func (m *verifMultiModel) Decode(ids []int32) (string, error) {
	var sb strings.Builder
	for _, id := range ids {
		sb.WriteString(m.all[id].piece)
	}
	return sb.String(), nil
}
func (m *verifMultiModel) Is(id int32, sp model.Special) bool {
	return sp == model.SpecialEOS && m.all[id].eos
}

func verifRunMulti(batchSize, slots int, seqs []*verifMultiSeq) (err error) {
	defer func() {
		if r := recover(); r != nil {
			err = fmt.Errorf("panic: %v", r)
		}
	}()
	m := &verifMultiModel{bySlot: map[int]*verifMultiSeq{}}
	for _, sc := range seqs {
		sc.base = len(m.all)
		m.all = append(m.all, sc.script...)
	}
	s := &Server{
		model:     m,
		batchSize: batchSize,
		parallel:  slots,
		seqs:      make([]*Sequence, slots),
		seqsSem:   semaphore.NewWeighted(int64(slots)),
		cache:     &InputCache{numCtx: 1 << 30, enabled: true, slots: make([]InputCacheSlot, slots)},
	}
	for i := range s.cache.slots {
		s.cache.slots[i] = InputCacheSlot{Id: i}
	}
	s.cond = sync.NewCond(&s.mu)

	add := func(sc *verifMultiSeq) (bool, error) { // what `completion` does
		free := -1
		for i, sq := range s.seqs {
			if sq == nil {
				free = i
				break
			}
		}
		if free < 0 {
			return false, nil
		}
		seq, e := s.NewSequence(strings.Repeat("p", sc.promptLen), nil, NewSequenceParams{numPredict: sc.limit, stop: sc.stops,
			sampler: sample.NewSampler(0, 0, 0, 0, -1, nil)})
		if e != nil {
			return false, e
		}
		if !s.seqsSem.TryAcquire(1) {
			return false, errors.New("semaphore")
		}
		s.mu.Lock()
		defer s.mu.Unlock()
		seq.cache, seq.inputs, e = s.cache.LoadCacheSlot(seq.inputs)
		if e != nil {
			return false, e
		}
		m.bySlot[seq.cache.Id] = sc
		s.seqs[free] = seq
		sc.seq = seq
		sc.started = true
		return true, nil
	}
	drain := func() {
		for _, sc := range seqs {
			if !sc.started || sc.done {
				continue
			}
			closed := false
		loop:
			for {
				select {
				case c, ok := <-sc.seq.responses:
					if !ok {
						closed = true
						break loop
					}
					sc.res.chunks = append(sc.res.chunks, c)
				default:
					break loop
				}
			}
			if closed {
				sc.done = true
				switch sc.seq.doneReason.String() {
				case "stop", "length":
					sc.res.reason = sc.seq.doneReason.String()
				default:
					sc.res.reason = "closed"
				}
				sc.res.np = sc.seq.numPredicted
				sc.res.pending = append([]string(nil), sc.seq.pendingResponses...)
				sc.res.consumed = sc.step
			}
		}
	}
	total := 0
	for _, sc := range seqs {
		total += len(sc.script) + sc.promptLen + sc.join + 4
	}
	for call := 0; ; call++ {
		if call > 4*total+20 {
			return errors.New("multi loop did not terminate")
		}
		allDone := true
		for _, sc := range seqs {
			if !sc.started && call >= sc.join {
				if _, e := add(sc); e != nil {
					return e
				}
			}
			if !sc.done {
				allDone = false
			}
		}
		if allDone {
			return nil
		}
		if s.allNil() {
			continue // nothing active yet: the next planned sequence joins at a later call
		}
		if perr := s.processBatch(); perr != nil {
			return perr
		}
		drain()
	}
}

func verifMultiLine(batchSize, slots int, seqs []*verifMultiSeq) string {
	var sb strings.Builder
	fmt.Fprintf(&sb, "multi %d %d %d", batchSize, slots, len(seqs))
	for _, sc := range seqs {
		fmt.Fprintf(&sb, " %d %d %s", sc.join, sc.promptLen, strings.TrimPrefix(verifLoopLine(sc.limit, sc.stops, sc.script), "loop "))
	}
	return sb.String()
}

func verifParseMultiLine(line string) (batchSize, slots int, seqs []*verifMultiSeq, err error) {
	toks := strings.Fields(line)
	if len(toks) < 4 || toks[0] != "multi" {
		return 0, 0, nil, errors.New("not a multi line")
	}
	batchSize, _ = strconv.Atoi(toks[1])
	slots, _ = strconv.Atoi(toks[2])
	n, _ := strconv.Atoi(toks[3])
	p := 4
	for i := 0; i < n; i++ {
		sc := &verifMultiSeq{}
		sc.join, _ = strconv.Atoi(toks[p])
		sc.promptLen, _ = strconv.Atoi(toks[p+1])
		p += 2 // toks[p] = pinned flag, then limit, nstops, stops, nev, evs
		start := p
		ns, _ := strconv.Atoi(toks[p+2])
		p += 3 + ns
		ne, _ := strconv.Atoi(toks[p])
		p += 1 + ne
		sc.limit, sc.stops, sc.script, err = verifParseLoopLine("loop " + strings.Join(toks[start:p], " "))
		if err != nil {
			return
		}
		seqs = append(seqs, sc)
	}
	return
}

func verifMultiCase(out *zzverif.Out, batchSize, slots int, seqs []*verifMultiSeq) {
	line := verifMultiLine(batchSize, slots, seqs)
	err := verifRunMulti(batchSize, slots, seqs)
	out.Count("multi_cases")
	if err != nil {
		out.Case(line, "err:"+strings.ReplaceAll(err.Error(), "\n", " "))
		out.L2("loop-error", line, err.Error())
		return
	}
	for i, sc := range seqs {
		out.Count("cases")
		out.Count("multi_sequences")
		obs := fmt.Sprintf("%s np=%d out=%s pend=%s", sc.res.reason, sc.res.np, verifHexList(sc.res.chunks), verifHexList(sc.res.pending))
		// L1: the single-sequence model, on this sequence's own script
		out.Case(verifLoopLine(sc.limit, sc.stops, sc.script), obs)
		out.Count("multi_reason_" + sc.res.reason)
		// L2 (a): the property on this sequence's stream
		verifLoopL2(out, line, sc.stops, sc.script, sc.res)
		// L2 (b): the same observation as when it runs alone (real code against real code)
		ref, rerr := verifRunLoop(sc.limit, sc.stops, sc.script)
		if rerr != nil {
			out.L2("loop-error", line, rerr.Error())
			continue
		}
		refObs := fmt.Sprintf("%s np=%d out=%s pend=%s", ref.reason, ref.np, verifHexList(ref.chunks), verifHexList(ref.pending))
		if refObs != obs {
			out.L2("output-depends-on-other-sequences", line, fmt.Sprintf("sequence %d of %d: in the batch: %s | alone: %s", i, len(seqs), obs, refObs))
		}
	}
}

func verifGenMultiCase(r *zzverif.Rng) (int, int, []*verifMultiSeq) {
	slots := r.Range(2, 3)
	n := r.Range(2, 4)
	batchSize := zzverif.Pick(r, []int{1, 2, 3, 4, 512, 512})
	var seqs []*verifMultiSeq
	for i := 0; i < n; i++ {
		limit, stops, script := verifGenCase(r)
		// every script of a multi-sequence case terminates (the batch cannot go on without it)
		if len(script) == 0 || !script[len(script)-1].eos {
			script = append(script, verifEv{eos: true})
		}
		seqs = append(seqs, &verifMultiSeq{
			join:      zzverif.Pick(r, []int{0, 0, 0, 1, 2, 3, 5, 8}),
			promptLen: zzverif.Pick(r, []int{1, 1, 2, 3, 5}),
			limit:     limit, stops: stops, script: script,
		})
	}
	return batchSize, slots, seqs
}

func TestVerifC14Multi(t *testing.T) {
	out := zzverif.NewOut()
	defer out.Close()
	if rp := os.Getenv("VERIF_REPLAY"); rp != "" {
		b, err := os.ReadFile(rp)
		if err != nil {
			t.Fatal(err)
		}
		bs, slots, seqs, err := verifParseMultiLine(strings.TrimSpace(string(b)))
		if err != nil {
			t.Skip("not a multi case")
		}
		verifMultiCase(out, bs, slots, seqs)
		return
	}
	// corpus: one sequence hits a stop / its limit / holds a stop prefix while the other goes on
	mk := func(join, plen, limit int, stops []string, pieces ...string) *verifMultiSeq {
		sc := &verifMultiSeq{join: join, promptLen: plen, limit: limit, stops: stops}
		for _, p := range pieces {
			sc.script = append(sc.script, verifEv{piece: p})
		}
		sc.script = append(sc.script, verifEv{eos: true})
		return sc
	}
	for _, bs := range []int{1, 2, 512} {
		verifMultiCase(out, bs, 2, []*verifMultiSeq{
			mk(0, 1, 0, []string{"END"}, "a", "b", "EN", "D", "x"),
			mk(0, 2, 0, nil, "1", "2", "3", "4", "5", "6", "7"),
		})
		verifMultiCase(out, bs, 2, []*verifMultiSeq{
			mk(0, 1, 2, nil, "a", "b", "c", "d"),
			mk(1, 1, 0, []string{"<|"}, "x", "<", "y", "<", "|", "z"),
			mk(2, 3, 0, nil, "\xe2", "\x82", "\xac", "!"),
		})
	}
	root := zzverif.NewRng(zzverif.Seed() ^ 0x3417)
	n := zzverif.EnvInt("VERIF_N", 600)
	for i := 0; i < n; i++ {
		r := root.Fork()
		bs, slots, seqs := verifGenMultiCase(r)
		verifMultiCase(out, bs, slots, seqs)
	}
}
