package ollamarunner

// Verification driver for C19, runner side: what the REAL `(*Server).inputs` does with the
// (prompt, images) pair that chatPrompt hands over — the `[img-N]` tags of the prompt are looked
// up by ImageData.ID.  Added at build time with `go test -overlay`; never committed to /repo.
//
// Input pairs: (1) the pairs the REAL chatPrompt produced in the server driver's run
// (VERIF_C19_PAIRS, one `<flags> <prompthex> <nimgs> <id>*` line each), (2) generated adversarial
// pairs (invalid indices, duplicate ids, malformed tags).
//   ops.txt : resolve <prompthex> <nimgs> <id>*
//   impl.txt: ok <positions of the images consumed, in order> | err:invalid-image-index

import (
	"bufio"
	"fmt"
	"os"
	"strconv"
	"strings"
	"testing"

	"github.com/ollama/ollama/llm"
	"github.com/ollama/ollama/ml"
	"github.com/ollama/ollama/model"
	"github.com/ollama/ollama/model/input"
	"github.com/ollama/ollama/zzverif"
)

type c19Ctx struct{ ml.Context }

func (c19Ctx) Close() {}

type c19Backend struct{ ml.Backend }

func (c19Backend) NewContext() ml.Context { return c19Ctx{} }

// c19Model is a vision model as far as `inputs` is concerned: it records which image data it is
// asked to encode and which text parts it is asked to tokenize.
type c19Model struct {
	model.Base
	encoded []string
	parts   []string
}

func (m *c19Model) Forward(ml.Context, input.Batch) (ml.Tensor, error) { return nil, nil }
func (m *c19Model) Backend() ml.Backend                                { return c19Backend{} }
func (m *c19Model) Encode(s string, addSpecial bool) ([]int32, error) {
	m.parts = append(m.parts, s)
	return make([]int32, len(s)), nil
}
func (m *c19Model) Decode([]int32) (string, error) { return "", nil }
func (m *c19Model) Is(int32, model.Special) bool   { return false }
func (m *c19Model) EncodeMultimodal(_ ml.Context, data []byte) (any, error) {
	m.encoded = append(m.encoded, string(data))
	return string(data), nil
}
func (m *c19Model) PostTokenize(in []input.Input) ([]input.Input, error) { return in, nil }

type c19Pair struct {
	real   bool // produced by the real chatPrompt
	hyp    bool // user text contained no literal "[img-"
	strict bool // literal tag typed AND the template prints every content exactly once
	typed  map[int]int // image numbers the message TEXT makes the prompt mention (nil: unknown)
	prompt string
	ids    []int
}

func c19RunPair(out *zzverif.Out, p c19Pair) {
	fm := &c19Model{}
	s := &Server{model: fm}
	images := make([]llm.ImageData, len(p.ids))
	for i, id := range p.ids {
		images[i] = llm.ImageData{ID: id, Data: []byte(fmt.Sprintf("D%d", i))}
	}
	line := fmt.Sprintf("resolve %s %d", zzverif.Hex([]byte(p.prompt)), len(p.ids))
	for _, id := range p.ids {
		line += fmt.Sprintf(" %d", id)
	}
	ins, _, err := s.inputs(p.prompt, images)
	impl := ""
	switch {
	case err != nil && strings.HasPrefix(err.Error(), "invalid image index"):
		impl = "err:invalid-image-index"
	case err != nil:
		impl = "err:other:" + strings.ReplaceAll(err.Error(), " ", "_")
	default:
		var pos []string
		for _, d := range fm.encoded {
			pos = append(pos, d[1:])
		}
		impl = "ok -"
		if len(pos) > 0 {
			impl = "ok " + strings.Join(pos, ",")
		}
	}
	out.Case(line, impl)
	out.Count("cases")
	if err != nil {
		out.Count("outcome_err")
	} else {
		out.Count("outcome_ok")
		if len(fm.encoded) > 0 {
			out.Count("ok_with_images_consumed")
		}
	}
	if !p.real {
		return
	}
	out.Count("pairs_from_real_chatPrompt")
	// L2 on what the real chatPrompt produced: the runner accepts it, every tag N consumes the
	// image at position N, the text between the tags is the prompt without the tags.
	if !p.hyp {
		// Finding F5: some message text contains `[img-`.  The end-to-end clauses are evaluated all the same; a failure
		// is labelled (for known-finding matching) iff it is EXACTLY what the typed mentions explain: `invalid image
		// index: N` with N typed and not the id of a returned image; image i embedded 1 + (typed mentions of its id)
		// times with at least one typed mention.
		out.Count("l2_literal_tag_in_text_evaluated")
		const label = "literal image tag in message text: "
		isID := map[int]bool{}
		for _, id := range p.ids {
			isID[id] = true
		}
		if err != nil {
			var bad int
			if _, serr := fmt.Sscanf(err.Error(), "invalid image index: %d", &bad); serr == nil && p.typed != nil && p.typed[bad] > 0 && !isID[bad] {
				out.L2("runner-rejects-prompt", line, fmt.Sprintf("%sinputs() fails on a pair produced by chatPrompt: %s (image %d is mentioned %d times by message texts, %d images returned)", label, err.Error(), bad, p.typed[bad], len(p.ids)))
			} else {
				out.L2("runner-rejects-prompt", line, "inputs() fails on a pair produced by chatPrompt: "+err.Error())
			}
			return
		}
		if !p.strict || p.typed == nil {
			return
		}
		out.Count("l2_literal_tag_in_text_each_image_once_evaluated")
		used := map[string]int{}
		for _, d := range fm.encoded {
			used[d]++
		}
		for i := range p.ids {
			c, want := used[fmt.Sprintf("D%d", i)], 1+p.typed[p.ids[i]]
			switch {
			case c != want:
				out.L2("runner-image-consumed-not-once", line, fmt.Sprintf("the image at position %d (id %d) of the list chatPrompt returned is embedded %d times (%d mentions typed in message texts)", i, p.ids[i], c, p.typed[p.ids[i]]))
			case want != 1:
				out.L2("runner-image-consumed-not-once", line, fmt.Sprintf("%sthe image at position %d (id %d) of the list chatPrompt returned is embedded %d times (once for chatPrompt's tag, %d for mentions typed in message texts)", label, i, p.ids[i], c, p.typed[p.ids[i]]))
			}
		}
		return
	}
	if err != nil {
		out.L2("runner-rejects-prompt", line, "inputs() fails on a pair produced by chatPrompt: "+err.Error())
		return
	}
	rest := p.prompt
	for k, d := range fm.encoded {
		at := strings.Index(rest, "[img-")
		if at < 0 {
			out.L2("runner-image-without-tag", line, fmt.Sprintf("image %s consumed but no tag left", d))
			return
		}
		end := strings.Index(rest[at:], "]")
		n, _ := strconv.Atoi(rest[at+5 : at+end])
		if got, _ := strconv.Atoi(d[1:]); got != n || p.ids[got] != n {
			out.L2("runner-wrong-image", line, fmt.Sprintf("tag %d (occurrence %d) consumed the image at position %s with id %d", n, k, d[1:], p.ids[got]))
		}
		rest = rest[at+end+1:]
	}
	textIn := 0
	for _, in := range ins {
		if in.Multimodal == nil {
			textIn++
		}
	}
	textWant := len(p.prompt)
	for _, d := range fm.encoded {
		textWant -= len("[img-]") + len(d[1:])
	}
	if textIn != textWant {
		out.L2("runner-text-lost", line, fmt.Sprintf("%d text tokens (one per byte), prompt without its tags has %d bytes", textIn, textWant))
	}
}

var c19Frags = []string{"a", " b ", "[img-0]", "[img-1]", "[img-2]", "[img-3]", "[img-10]", "[img-]", "[img-", "[img]", "img-1]", "[img-01]", "[img-1", "]", "[", "[img-x]", "\n", "[img-007]", "<|image|>"}

func TestVerifC19Runner(t *testing.T) {
	out := zzverif.NewOut()
	defer out.Close()

	if p := os.Getenv("VERIF_REPLAY"); p != "" {
		raw, err := os.ReadFile(p)
		if err != nil {
			t.Fatal(err)
		}
		for _, ln := range strings.Split(string(raw), "\n") {
			f := strings.Fields(ln)
			if len(f) < 3 || f[0] != "resolve" {
				continue
			}
			pr := c19Pair{prompt: string(zzverif.Unhex(f[1]))}
			for _, x := range f[3:] {
				v, _ := strconv.Atoi(x)
				pr.ids = append(pr.ids, v)
			}
			c19RunPair(out, pr)
		}
		return
	}

	if p := os.Getenv("VERIF_C19_PAIRS"); p != "" {
		f, err := os.Open(p)
		if err != nil {
			t.Fatal(err)
		}
		sc := bufio.NewScanner(f)
		sc.Buffer(make([]byte, 1<<20), 1<<26)
		for sc.Scan() {
			fs := strings.Fields(sc.Text())
			if len(fs) < 3 {
				continue
			}
			flag, typedS, _ := strings.Cut(fs[0], "/")
			pr := c19Pair{real: true, hyp: flag == "H1", strict: flag == "H0S", prompt: string(zzverif.Unhex(fs[1]))}
			if flag != "H1" && typedS != "?" {
				pr.typed = map[int]int{}
				if typedS != "-" && typedS != "" {
					for _, x := range strings.Split(typedS, ".") {
						if v, err := strconv.Atoi(x); err == nil {
							pr.typed[v]++
						}
					}
				}
			}
			for _, x := range fs[3:] {
				v, _ := strconv.Atoi(x)
				pr.ids = append(pr.ids, v)
			}
			c19RunPair(out, pr)
		}
		f.Close()
	}

	root := zzverif.NewRng(zzverif.Seed()).Fork()
	n := zzverif.EnvInt("VERIF_N", 1000)
	for i := 0; i < n; i++ {
		r := root.Fork()
		var pr c19Pair
		for k := r.Pick3(0, 4, 10); k > 0; k-- {
			pr.prompt += zzverif.Pick(r, c19Frags)
		}
		ni := r.Pick3(0, 3, 5)
		for k := 0; k < ni; k++ {
			switch r.Intn(6) {
			case 0:
				pr.ids = append(pr.ids, r.Intn(4)) // duplicates / out of order
			case 1:
				pr.ids = append(pr.ids, 10)
			default:
				pr.ids = append(pr.ids, k)
			}
		}
		c19RunPair(out, pr)
	}
}

// TestVerifC19ProbeLiteralTag: finding F5 on the real runner code, no model involved.  The (prompt, images)
// pairs are what the real chatPrompt returns for [user "see [img-0]" + one image] and for [user "[img-5]"]
// (server/TestVerifC19ProbeLiteralTag prints them): the image is embedded twice / the request fails.
func TestVerifC19ProbeLiteralTag(t *testing.T) {
	fm := &c19Model{}
	s := &Server{model: fm}
	_, _, err := s.inputs("[user|[img-0]see [img-0]]", []llm.ImageData{{ID: 0, Data: []byte("IMG")}})
	t.Logf("literal tag + one image: err=%v, image embedded %d times", err, len(fm.encoded))
	if err != nil || len(fm.encoded) != 2 {
		t.Errorf("expected the image to be embedded twice")
	}
	fm = &c19Model{}
	s = &Server{model: fm}
	_, _, err = s.inputs("[user|[img-5]]", nil)
	t.Logf("literal tag, no image: err=%v", err)
	if err == nil || !strings.Contains(err.Error(), "invalid image index: 5") {
		t.Errorf("expected invalid image index")
	}
}
