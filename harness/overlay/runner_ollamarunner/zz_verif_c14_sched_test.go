package ollamarunner

// C14, consumer schedules.  The HTTP handler (`completion`) reads seq.responses on its own goroutine;
// how far it lags behind the decode loop must not change what is streamed: the streamed text is a
// function of (pieces, stops, limit) only.  Here the REAL loop (NewSequence -> LoadCacheSlot ->
// processBatch* -> removeSequence/flushPending) runs on a producer goroutine and a scripted reader
// plays the handler: after token i it reads r_i chunks (0 = stalled), it reads one chunk whenever
// the producer is blocked on the full channel (back-pressure), and it drains the channel once it is
// closed.  Everything runs inside a testing/synctest bubble, so "the producer is blocked" is
// observed deterministically (synctest.Wait) and no wall-clock time is involved.
//
// The sequence is created by the real Server.NewSequence, so the capacity of seq.responses is the
// one of the tree under test; it is passed to the oracle (`cap(seq.responses)`).
//
// Added with `go test -overlay`; never committed to /repo.

import (
	"errors"
	"fmt"
	"os"
	"strconv"
	"strings"
	"sync"
	"testing"
	"testing/synctest"
	"unicode/utf8"

	"golang.org/x/sync/semaphore"

	"github.com/ollama/ollama/sample"
	"github.com/ollama/ollama/zzverif"
)

type verifPhase struct{ tokens, reads int }

type verifSched struct {
	phases []verifPhase
	tail   int // reads per token once the phases are over
	quitAt int // > 0: after that many tokens the reader closes seq.quit and never reads again (client disconnect)
}

func (sc *verifSched) next() int {
	for len(sc.phases) > 0 {
		if sc.phases[0].tokens > 0 {
			sc.phases[0].tokens--
			return sc.phases[0].reads
		}
		sc.phases = sc.phases[1:]
	}
	return sc.tail
}

type verifSchedResult struct {
	verifLoopResult
	buf      []string // left in the channel when the script ran out (sequence still running)
	forced   int      // reads made only because the producer was blocked on the full channel
	capacity int
}

func verifRunSched(t *testing.T, limit int, stops []string, script []verifEv, sched verifSched) (res verifSchedResult, err error) {
	sc := verifSched{phases: append([]verifPhase(nil), sched.phases...), tail: sched.tail, quitAt: sched.quitAt}
	quitted := false
	synctest.Test(t, func(t *testing.T) {
		m := &verifModel{script: script}
		s := &Server{
			model:     m,
			batchSize: 512,
			parallel:  1,
			seqs:      make([]*Sequence, 1),
			seqsSem:   semaphore.NewWeighted(1),
			cache:     &InputCache{numCtx: 1 << 30, enabled: true, slots: []InputCacheSlot{{Id: 0}}},
		}
		s.cond = sync.NewCond(&s.mu)
		// what `completion` does
		seq, e := s.NewSequence("p", nil, NewSequenceParams{numPredict: limit, stop: stops, numKeep: 0,
			sampler: sample.NewSampler(0, 0, 0, 0, -1, nil)})
		if e != nil {
			err = e
			return
		}
		if !s.seqsSem.TryAcquire(1) {
			err = errors.New("semaphore")
			return
		}
		s.mu.Lock()
		seq.cache, seq.inputs, e = s.cache.LoadCacheSlot(seq.inputs)
		if e != nil {
			s.mu.Unlock()
			err = e
			return
		}
		s.seqs[0] = seq
		s.mu.Unlock()
		res.capacity = cap(seq.responses)

		stepCh := make(chan struct{})
		doneCh := make(chan error)
		go func() {
			for range stepCh {
				var perr error
				func() {
					defer func() {
						if r := recover(); r != nil {
							perr = fmt.Errorf("panic: %v", r)
						}
					}()
					perr = s.processBatch()
				}()
				doneCh <- perr
			}
		}()
		defer close(stepCh)

		closed := false
		read1 := func() bool { // non-blocking read of one chunk
			select {
			case c, ok := <-seq.responses:
				if !ok {
					closed = true
					return false
				}
				res.chunks = append(res.chunks, c)
				return true
			default:
				return false
			}
		}
		for iter := 0; ; iter++ {
			if iter > len(script)+3 {
				err = errors.New("loop did not terminate")
				return
			}
			stepCh <- struct{}{}
			var perr error
			for {
				synctest.Wait() // the producer is now blocked: on doneCh (call finished) or on the full channel
				got := false
				select {
				case perr = <-doneCh:
					got = true
				default:
				}
				if got {
					break
				}
				if quitted {
					err = errors.New("producer blocked although seq.quit is closed")
					return
				}
				if !read1() {
					err = errors.New("producer blocked but nothing to read")
					return
				}
				res.forced++
			}
			if s.seqs[0] == nil {
				if quitted { // the reader is gone: look at the channel only to see that it was closed
					for {
						c, ok := <-seq.responses
						if !ok {
							closed = true
							break
						}
						res.buf = append(res.buf, c)
					}
				}
				for read1() {
				}
				if !closed {
					err = errors.New("sequence removed but responses not closed")
					return
				}
				switch seq.doneReason.String() {
				case "stop", "length":
					res.reason = seq.doneReason.String()
				default:
					res.reason = "closed"
				}
				break
			}
			if perr != nil {
				if errors.Is(perr, errVerifScriptEnd) {
					res.reason = "running"
					for {
						select {
						case c := <-seq.responses:
							res.buf = append(res.buf, c)
							continue
						default:
						}
						break
					}
					break
				}
				err = perr
				return
			}
			if quitted {
				continue
			}
			for r := sc.next(); r > 0 && read1(); r-- {
			}
			if sc.quitAt > 0 && iter+1 == sc.quitAt {
				close(seq.quit)
				quitted = true
			}
		}
		res.np = seq.numPredicted
		res.pending = append([]string(nil), seq.pendingResponses...)
		res.consumed = m.step
	})
	return res, err
}

func verifSchedLine(capacity, limit int, stops []string, script []verifEv, sched verifSched) string {
	var sb strings.Builder
	op := "loopsched"
	if sched.quitAt > 0 {
		op = fmt.Sprintf("loopquit:%d", sched.quitAt) // L2 / replay only; there is no oracle command for it
	}
	fmt.Fprintf(&sb, "%s %d %d %d", op, verifPinnedFindStop, capacity, len(sched.phases))
	for _, ph := range sched.phases {
		fmt.Fprintf(&sb, " %d %d", ph.tokens, ph.reads)
	}
	fmt.Fprintf(&sb, " %d ", sched.tail)
	sb.WriteString(strings.TrimPrefix(verifLoopLine(limit, stops, script), fmt.Sprintf("loop %d ", verifPinnedFindStop)))
	return sb.String()
}

func verifParseSchedLine(line string) (limit int, stops []string, script []verifEv, sched verifSched, err error) {
	toks := strings.Fields(line)
	if len(toks) >= 6 && strings.HasPrefix(toks[0], "loopquit:") {
		sched.quitAt, _ = strconv.Atoi(strings.TrimPrefix(toks[0], "loopquit:"))
		toks[0] = "loopsched"
	}
	if len(toks) < 6 || toks[0] != "loopsched" {
		return 0, nil, nil, sched, errors.New("not a loopsched line")
	}
	np, _ := strconv.Atoi(toks[3])
	p := 4
	for i := 0; i < np; i++ {
		a, _ := strconv.Atoi(toks[p])
		b, _ := strconv.Atoi(toks[p+1])
		sched.phases = append(sched.phases, verifPhase{a, b})
		p += 2
	}
	sched.tail, _ = strconv.Atoi(toks[p])
	p++
	limit, stops, script, err = verifParseLoopLine("loop " + toks[1] + " " + strings.Join(toks[p:], " "))
	return
}

func verifSchedCase(t *testing.T, out *zzverif.Out, limit int, stops []string, script []verifEv, sched verifSched) {
	res, err := verifRunSched(t, limit, stops, script, sched)
	line := verifSchedLine(res.capacity, limit, stops, script, sched)
	out.Count("cases")
	out.Count("sched_cases")
	if err != nil {
		out.Case(line, "err:"+strings.ReplaceAll(err.Error(), "\n", " "))
		out.L2("loop-error", line, err.Error())
		return
	}
	if sched.quitAt > 0 {
		verifQuitL2(out, line, limit, stops, script, res)
		return
	}
	out.Case(line, fmt.Sprintf("%s np=%d recv=%s buf=%s pend=%s forced=%d", res.reason, res.np,
		verifHexList(res.chunks), verifHexList(res.buf), verifHexList(res.pending), res.forced))
	out.Count("sched_reason_" + res.reason)
	if res.forced > 0 {
		out.Count("sched_backpressure_runs")
		out.Add("sched_forced_reads", res.forced)
	}
	nchunks := len(res.chunks) + len(res.buf)
	switch {
	case nchunks > res.capacity:
		out.Count("sched_chunks_gt_cap")
	case nchunks == res.capacity:
		out.Count("sched_chunks_eq_cap")
	default:
		out.Count("sched_chunks_lt_cap")
	}
	// ---- L2 (a): the property itself on what the lagging reader received
	all := res.verifLoopResult
	all.chunks = append(append([]string(nil), res.chunks...), res.buf...)
	verifLoopL2(out, line, stops, script, all)
	// ---- L2 (b): the same chunks as a reader that keeps up receives (real code against real code)
	ref, rerr := verifRunLoop(limit, stops, script)
	if rerr != nil {
		out.L2("loop-error", line, rerr.Error())
		return
	}
	if ref.reason != res.reason || ref.np != res.np || strings.Join(ref.chunks, "\x00") != strings.Join(all.chunks, "\x00") ||
		strings.Join(ref.pending, "\x00") != strings.Join(res.pending, "\x00") {
		out.L2("output-depends-on-consumer-schedule", line, fmt.Sprintf("lagging: %s np=%d chunks=%d bytes=%d pend=%d; prompt reader: %s np=%d chunks=%d bytes=%d pend=%d",
			res.reason, res.np, len(all.chunks), len(strings.Join(all.chunks, "")), len(res.pending),
			ref.reason, ref.np, len(ref.chunks), len(strings.Join(ref.chunks, "")), len(ref.pending)))
	}
}

// verifQuitL2: the client disconnected after sched.quitAt tokens.  After that the select in flushPending is
// nondeterministic (send vs quit), so there is no exact model observation; what must hold: the chunks the reader
// holds are a prefix (chunk by chunk) of what a reader that stays receives, every chunk is valid UTF-8, the
// sequence is removed (reason "" = connection closed, or the natural one), nothing generated after removal.
func verifQuitL2(out *zzverif.Out, line string, limit int, stops []string, script []verifEv, res verifSchedResult) {
	out.Count("sched_quit_cases")
	ref, rerr := verifRunLoop(limit, stops, script)
	if rerr != nil {
		out.L2("loop-error", line, rerr.Error())
		return
	}
	for _, c := range res.chunks {
		if c == "" || !utf8.ValidString(c) {
			out.L2("chunk-invalid-utf8", line, fmt.Sprintf("chunk=%x", c))
		}
	}
	held := append(append([]string(nil), res.chunks...), res.buf...) // received, then sent but never read
	ok := len(held) <= len(ref.chunks)
	for i := 0; ok && i < len(held); i++ {
		ok = held[i] == ref.chunks[i]
	}
	if !ok {
		out.L2("disconnect-not-prefix", line, fmt.Sprintf("held %d chunks (%d bytes), staying reader gets %d chunks", len(held), len(strings.Join(held, "")), len(ref.chunks)))
	}
	if res.reason == "running" {
		return
	}
	if res.reason != "closed" && res.reason != ref.reason {
		out.L2("disconnect-reason", line, fmt.Sprintf("reason=%s staying reader: %s", res.reason, ref.reason))
	}
	if res.np > ref.np {
		out.L2("disconnect-overrun", line, fmt.Sprintf("np=%d staying reader: %d", res.np, ref.np))
	}
}

// ---------------------------------------------------------------- generator

var verifWords = []string{"a", "b ", "w1 ", "the ", "}", "\n", "é", "€", "😀", "日本", "<", "x|"}

// long scripts: the number of streamed chunks lies around and above the channel capacity
func verifGenSchedCase(r *zzverif.Rng, capacity int) (int, []string, []verifEv, verifSched) {
	var n int
	switch r.Intn(6) {
	case 0:
		n = r.Range(1, 20)
	case 1, 2:
		n = r.Range(capacity-5, capacity+8)
	case 3:
		n = r.Range(capacity+1, capacity+60)
	default:
		n = r.Range(capacity+1, 2*capacity+40)
	}
	var stops []string
	switch r.Intn(4) {
	case 0:
	case 1:
		stops = []string{"<|"}
	case 2:
		stops = []string{"STOP", "\n\n"}
	default:
		stops = []string{"zz"}
	}
	var script []verifEv
	badAt := -1
	if r.Chance(1, 8) {
		badAt = r.Intn(n)
	}
	for i := 0; i < n; i++ {
		w := zzverif.Pick(r, verifWords)
		if r.Chance(1, 12) && len(w) > 1 { // a character / word split across two tokens
			c := r.Range(1, len(w)-1)
			script = append(script, verifEv{piece: w[:c]}, verifEv{piece: w[c:]})
			continue
		}
		if i == badAt {
			w = "\xff" // an invalid byte (dropped by flushPending: F20a)
		}
		script = append(script, verifEv{piece: w})
	}
	limit := 0
	switch r.Intn(5) {
	case 0: // ends by a stop string completed by the last tokens
		if len(stops) > 0 {
			st := stops[0]
			c := r.Range(0, len(st)-1)
			if c > 0 {
				script = append(script, verifEv{piece: "q" + st[:c]})
			}
			script = append(script, verifEv{piece: st[c:] + "tail"})
		}
		script = append(script, verifEv{eos: true})
	case 1: // ends by the limit
		limit = r.Range(len(script)-3, len(script))
		if limit < 1 {
			limit = 1
		}
	case 2: // keeps running
	default:
		script = append(script, verifEv{eos: true})
	}
	var sched verifSched
	switch r.Intn(7) {
	case 0: // stalled until the end
		sched = verifSched{tail: 0}
	case 1: // stalled for k tokens around the capacity, then keeps up
		sched = verifSched{phases: []verifPhase{{r.Range(capacity-4, capacity+6), 0}}, tail: 1000}
	case 2: // stalled well beyond the capacity, then keeps up
		sched = verifSched{phases: []verifPhase{{r.Range(capacity+10, 2*capacity+20), 0}}, tail: 1000}
	case 3: // stalls, then reads exactly one per token (the channel stays full)
		sched = verifSched{phases: []verifPhase{{r.Range(capacity-2, capacity+20), 0}}, tail: 1}
	case 4: // bursts
		for i := 0; i < 4; i++ {
			sched.phases = append(sched.phases, verifPhase{r.Range(1, capacity), 0}, verifPhase{1, r.Range(1, capacity)})
		}
		sched.tail = r.Intn(3)
	case 5: // slow reader: one chunk every other token
		for i := 0; i < 200; i++ {
			sched.phases = append(sched.phases, verifPhase{1, 0}, verifPhase{1, 1})
		}
		sched.tail = 0
	default: // keeps up
		sched = verifSched{tail: 1000}
	}
	if r.Chance(1, 5) { // the client disconnects somewhere (early, around the capacity, near the end)
		sched.quitAt = zzverif.Pick(r, []int{1, r.Range(1, len(script)+1), r.Range(capacity-3, capacity+5), len(script) - 1, len(script)})
		if sched.quitAt < 1 {
			sched.quitAt = 1
		}
	}
	return limit, stops, script, sched
}

func TestVerifC14Sched(t *testing.T) {
	out := zzverif.NewOut()
	defer out.Close()
	if rp := os.Getenv("VERIF_REPLAY"); rp != "" {
		b, err := os.ReadFile(rp)
		if err != nil {
			t.Fatal(err)
		}
		limit, stops, script, sched, err := verifParseSchedLine(strings.TrimSpace(string(b)))
		if err != nil {
			t.Skip("not a loopsched case")
		}
		verifSchedCase(t, out, limit, stops, script, sched)
		return
	}
	// the capacity of the tree under test
	probe, err := verifRunSched(t, 0, nil, []verifEv{{piece: "a"}, {eos: true}}, verifSched{tail: 1})
	if err != nil {
		t.Fatal(err)
	}
	capacity := probe.capacity
	out.Add("responses_capacity", capacity)
	// corpus: a client that reads nothing until the end, generation ends by EOS / by the limit / by a stop string
	long := func(n int) []verifEv {
		var sc []verifEv
		for i := 0; i < n; i++ {
			sc = append(sc, verifEv{piece: fmt.Sprintf("w%d ", i)})
		}
		return sc
	}
	for _, n := range []int{capacity - 1, capacity, capacity + 1, capacity + 30} {
		verifSchedCase(t, out, 0, []string{"zz"}, append(long(n), verifEv{eos: true}), verifSched{tail: 0})
		verifSchedCase(t, out, n, nil, long(n+5), verifSched{tail: 0})
		verifSchedCase(t, out, 0, []string{"END"}, append(long(n), verifEv{piece: "EN"}, verifEv{piece: "D."}), verifSched{tail: 0})
		verifSchedCase(t, out, 0, nil, long(n), verifSched{phases: []verifPhase{{capacity + 10, 0}}, tail: 1})
	}
	root := zzverif.NewRng(zzverif.Seed() ^ 0x5c4ed)
	n := zzverif.EnvInt("VERIF_N", 400)
	for i := 0; i < n; i++ {
		r := root.Fork()
		limit, stops, script, sched := verifGenSchedCase(r, capacity)
		verifSchedCase(t, out, limit, stops, script, sched)
	}
}
