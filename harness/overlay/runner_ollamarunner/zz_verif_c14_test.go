package ollamarunner

// C14 driver for the per-token output loop: the REAL Server.processBatch / removeSequence /
// flushPending of this package are executed, one call of processBatch per generated token, with a
// scripted model behind the Server (the k-th Forward yields one-hot logits for token id k; Decode(k)
// is the k-th scripted piece; Is(k, EOS) says whether the k-th scripted event is end-of-sequence).
// Nothing of processBatch is replicated here.
//
// Added with `go test -overlay`; never committed to /repo.

import (
	"errors"
	"fmt"
	"os"
	"strconv"
	"strings"
	"sync"
	"testing"
	"unicode/utf8"

	"golang.org/x/sync/semaphore"

	"github.com/ollama/ollama/ml"
	"github.com/ollama/ollama/model"
	"github.com/ollama/ollama/model/input"
	"github.com/ollama/ollama/runner/common"
	"github.com/ollama/ollama/sample"
	"github.com/ollama/ollama/zzverif"
)

// ---------------------------------------------------------------- scripted model

type verifEv struct {
	eos   bool
	piece string
}

var errVerifScriptEnd = errors.New("verif: script exhausted")

type verifTensor struct {
	ml.Tensor
	f []float32
}

func (t *verifTensor) Floats() []float32 { return t.f }

type verifCtx struct{ ml.Context }

func (c *verifCtx) Input() ml.Context { return c }
func (c *verifCtx) FromIntSlice(s []int32, shape ...int) (ml.Tensor, error) {
	return &verifTensor{}, nil
}
func (c *verifCtx) Forward(...ml.Tensor) ml.Context { return c }
func (c *verifCtx) Compute(...ml.Tensor)            {}
func (c *verifCtx) Close()                          {}

type verifBackend struct{ ml.Backend }

func (b *verifBackend) NewContext() ml.Context { return &verifCtx{} }

type verifModel struct {
	model.Base
	script []verifEv
	step   int // number of successful Forward calls = tokens sampled
}

func (m *verifModel) Backend() ml.Backend { return &verifBackend{} }

func (m *verifModel) Forward(ctx ml.Context, batch input.Batch) (ml.Tensor, error) {
	if m.step >= len(m.script) {
		return nil, errVerifScriptEnd
	}
	if len(batch.Outputs) != 1 {
		return nil, fmt.Errorf("verif: expected exactly one output row, got %d", len(batch.Outputs))
	}
	f := make([]float32, len(m.script))
	f[m.step] = 1
	m.step++
	return &verifTensor{f: f}, nil
}

// a prompt of len(s) tokens, all id 0 (the drivers that build their Sequence through NewSequence use "p")
func (m *verifModel) Encode(s string, addSpecial bool) ([]int32, error) {
	return make([]int32, max(1, len(s))), nil
}
func (m *verifModel) Decode(ids []int32) (string, error) {
	var sb strings.Builder
	for _, id := range ids {
		sb.WriteString(m.script[id].piece)
	}
	return sb.String(), nil
}
func (m *verifModel) Is(id int32, sp model.Special) bool {
	return sp == model.SpecialEOS && m.script[id].eos
}

// ---------------------------------------------------------------- one run of the real loop

type verifLoopResult struct {
	reason   string // stop | length | closed | running
	np       int
	chunks   []string
	pending  []string
	consumed int // events consumed (= tokens sampled)
	cacheLen int // len(seq.cache.Inputs) at the end
}

func verifRunLoop(limit int, stops []string, script []verifEv) (res verifLoopResult, err error) {
	defer func() {
		if r := recover(); r != nil {
			err = fmt.Errorf("panic: %v", r)
		}
	}()
	m := &verifModel{script: script}
	s := &Server{
		model:     m,
		batchSize: 512,
		parallel:  1,
		seqs:      make([]*Sequence, 1),
		seqsSem:   semaphore.NewWeighted(1),
		cache:     &InputCache{numCtx: 1 << 30, enabled: true, slots: []InputCacheSlot{{Id: 0}}},
	}
	s.cond = sync.NewCond(&s.mu)
	seq := &Sequence{
		inputs:           []input.Input{{Token: 0}},
		numPromptInputs:  1,
		numPredict:       limit,
		pendingResponses: make([]string, 0),
		responses:        make(chan string, 100),
		quit:             make(chan bool, 1),
		embedding:        make(chan []float32, 1),
		sampler:          sample.NewSampler(0, 0, 0, 0, -1, nil),
		stop:             stops,
		cache:            &s.cache.slots[0],
	}
	seq.cache.InUse = true
	if !s.seqsSem.TryAcquire(1) {
		return res, errors.New("semaphore")
	}
	s.seqs[0] = seq

	drain := func() (closed bool) {
		for {
			select {
			case c, ok := <-seq.responses:
				if !ok {
					return true
				}
				res.chunks = append(res.chunks, c)
			default:
				return false
			}
		}
	}
	for iter := 0; ; iter++ {
		if iter > len(script)+3 {
			return res, errors.New("loop did not terminate")
		}
		perr := s.processBatch()
		closed := drain()
		if s.seqs[0] == nil {
			if !closed {
				return res, errors.New("sequence removed but responses not closed")
			}
			switch seq.doneReason.String() {
			case "stop", "length":
				res.reason = seq.doneReason.String()
			default:
				res.reason = "closed"
			}
			break
		}
		if perr != nil {
			if errors.Is(perr, errVerifScriptEnd) {
				res.reason = "running"
				break
			}
			return res, perr
		}
	}
	res.np = seq.numPredicted
	res.pending = append([]string(nil), seq.pendingResponses...)
	res.consumed = m.step
	res.cacheLen = len(seq.cache.Inputs)
	return res, nil
}

// ---------------------------------------------------------------- case line <-> case

// verifPinnedFindStop selects the model variant the oracle runs: 1 = FindStop as pinned (first
// listed stop), 0 = the repaired FindStop of proposed_fixes/C14-F7.patch (earliest occurrence).
// vlib/checks/c14.py passes it (PINNED_FINDSTOP); flip it there when the fix is applied to /repo.
var verifPinnedFindStop = zzverif.EnvInt("VERIF_C14_PINNED", 1)

func verifLoopLine(limit int, stops []string, script []verifEv) string {
	var sb strings.Builder
	fmt.Fprintf(&sb, "loop %d %d %d", verifPinnedFindStop, limit, len(stops))
	for _, st := range stops {
		sb.WriteString(" " + zzverif.Hex([]byte(st)))
	}
	fmt.Fprintf(&sb, " %d", len(script))
	for _, e := range script {
		if e.eos {
			sb.WriteString(" E")
		} else {
			sb.WriteString(" " + zzverif.Hex([]byte(e.piece)))
		}
	}
	return sb.String()
}

func verifParseLoopLine(line string) (limit int, stops []string, script []verifEv, err error) {
	toks := strings.Fields(line)
	if len(toks) < 5 || toks[0] != "loop" {
		return 0, nil, nil, errors.New("not a loop line")
	}
	limit, err = strconv.Atoi(toks[2]) // toks[1] is the model-variant flag
	if err != nil {
		return
	}
	ns, _ := strconv.Atoi(toks[3])
	p := 4
	for i := 0; i < ns; i++ {
		stops = append(stops, string(zzverif.Unhex(toks[p])))
		p++
	}
	ne, _ := strconv.Atoi(toks[p])
	p++
	for i := 0; i < ne; i++ {
		if toks[p] == "E" {
			script = append(script, verifEv{eos: true})
		} else {
			script = append(script, verifEv{piece: string(zzverif.Unhex(toks[p]))})
		}
		p++
	}
	return
}

func verifHexList(xs []string) string {
	var sb strings.Builder
	fmt.Fprintf(&sb, "%d", len(xs))
	for _, x := range xs {
		sb.WriteString(" " + zzverif.Hex([]byte(x)))
	}
	return sb.String()
}

// validPrefix: s is a prefix of some valid UTF-8 string (valid up to a trailing incomplete character).
// Independent of the model and of runner/common: uses unicode/utf8 only.
func verifValidPrefix(s string) bool {
	for len(s) > 0 {
		r, n := utf8.DecodeRuneInString(s)
		if r == utf8.RuneError && n <= 1 {
			return !utf8.FullRuneInString(s) // an incomplete but still extendable tail
		}
		s = s[n:]
	}
	return true
}

func verifSubsequence(sub, s string) bool {
	i := 0
	for j := 0; j < len(s) && i < len(sub); j++ {
		if s[j] == sub[i] {
			i++
		}
	}
	return i == len(sub)
}


// verifExplain: is the streamed text `o` the generated bytes `g` with only such bytes removed as flushPending's trim
// to the longest valid UTF-8 prefix can remove?  Every maximal removed run must START at a byte at which decoding `g`
// fails (an invalid byte, or a character that is never completed) — the trim then discards the rest of that pending
// window, valid or not — except a final run, which may also start where TruncateStop cut: at an occurrence of a stop
// in `g`, or at the first byte of a character that this cut left incomplete.  Returns also, for every byte of `o`,
// its position in `g` under one such explanation.  Independent of the model and of runner/common.
func verifExplain(o, g string, stops []string, endedByStop bool) (bool, []int) {
	n, m := len(g), len(o)
	invalid := make([]bool, n)
	for i := 0; i < n; {
		r, w := utf8.DecodeRuneInString(g[i:])
		if r == utf8.RuneError && w <= 1 {
			invalid[i] = true
			i++
		} else {
			i += w
		}
	}
	stopAt := func(i int) bool {
		if !endedByStop {
			return false
		}
		for j := i; j <= n && j <= i+3; j++ {
			if j > i {
				if r, w := utf8.DecodeRuneInString(g[i:j]); !(r == utf8.RuneError && w <= 1) {
					continue // g[:j] does not end in a character that starts at i and is cut short
				}
			}
			for _, st := range stops {
				if st != "" && strings.HasPrefix(g[j:], st) {
					return true
				}
			}
		}
		return false
	}
	memo := make([]int8, (n+1)*(m+1)*2)
	var can func(i, k, d int) bool
	can = func(i, k, d int) bool {
		if i == n {
			return k == m
		}
		ix := (i*(m+1)+k)*2 + d
		if memo[ix] != 0 {
			return memo[ix] > 0
		}
		ok := (k < m && g[i] == o[k] && can(i+1, k+1, 0)) ||
			((d == 1 || invalid[i]) && can(i+1, k, 1)) ||
			(k == m && stopAt(i))
		if ok {
			memo[ix] = 1
		} else {
			memo[ix] = -1
		}
		return ok
	}
	if !can(0, 0, 0) {
		return false, nil
	}
	pos := make([]int, 0, m)
	for i, k, d := 0, 0, 0; i < n && k < m; {
		if g[i] == o[k] && can(i+1, k+1, 0) {
			pos = append(pos, i)
			i, k, d = i+1, k+1, 0
		} else if (d == 1 || invalid[i]) && can(i+1, k, 1) {
			i, d = i+1, 1
		} else {
			break
		}
	}
	return len(pos) == m, pos
}

// verifDropsExplained: see verifExplain
func verifDropsExplained(o, g string, stops []string, endedByStop bool) bool {
	ok, _ := verifExplain(o, g, stops, endedByStop)
	return ok
}

// verifGluedOnly: every occurrence of a stop in the streamed text `o` spans bytes that were NOT adjacent in `g`
// (the removal of undecodable bytes glued two pieces of text together): the known consequence of F20a.  An
// occurrence whose bytes are adjacent in `g` was generated as such and should have ended the run.
func verifGluedOnly(o string, pos []int, stops []string) bool {
	for _, st := range stops {
		if st == "" {
			continue
		}
		for p := 0; p+len(st) <= len(o); p++ {
			if o[p:p+len(st)] != st {
				continue
			}
			glued := false
			for q := p + 1; q < p+len(st); q++ {
				if pos[q] != pos[q-1]+1 {
					glued = true
				}
			}
			if !glued {
				return false
			}
		}
	}
	return true
}

// verifTrimTail removes a trailing incomplete character of a valid-prefix string.
func verifTrimTail(s string) string {
	for i := 0; i < 4 && len(s) > 0 && !utf8.ValidString(s); i++ {
		s = s[:len(s)-1]
	}
	return s
}

// ---------------------------------------------------------------- L1 + L2 for one case

func verifLoopCase(out *zzverif.Out, limit int, stops []string, script []verifEv) {
	line := verifLoopLine(limit, stops, script)
	res, err := verifRunLoop(limit, stops, script)
	out.Count("cases")
	if err != nil {
		out.Case(line, "err:"+strings.ReplaceAll(err.Error(), "\n", " "))
		out.L2("loop-error", line, err.Error())
		return
	}
	out.Case(line, fmt.Sprintf("%s np=%d out=%s pend=%s", res.reason, res.np, verifHexList(res.chunks), verifHexList(res.pending)))
	out.Count("reason_" + res.reason)
	verifLoopL2(out, line, stops, script, res)
	// cache trimming next to TruncateStop (cacheKeep / cacheLenRun in the model): len(seq.cache.Inputs) at removal;
	// the prompt of this driver is one input
	if res.reason != "running" {
		t3 := strings.SplitN(line, " ", 3) // loop <pinned> <limit …>
		out.Case("cachelen "+t3[1]+" 1 "+t3[2], strconv.Itoa(res.cacheLen))
		out.Count("cachelen_cases")
	}
}

// verifLoopL2 evaluates the property on what the real code streamed (res.chunks = what the reader of
// seq.responses received, in order); no model involved.
func verifLoopL2(out *zzverif.Out, line string, stops []string, script []verifEv, res verifLoopResult) {
	// ---- L2: the property evaluated on what the real code did (no model involved)
	var gen strings.Builder
	sawEOS := false
	for _, e := range script[:res.consumed] {
		if e.eos {
			sawEOS = true
		} else {
			gen.WriteString(e.piece)
		}
	}
	g := gen.String()
	o := strings.Join(res.chunks, "")
	vp := verifValidPrefix(g)
	if vp {
		out.Count("gen_valid_prefix")
	} else {
		out.Count("gen_invalid")
	}
	if len(res.chunks) > 1 {
		out.Count("multi_chunk")
	}
	for _, c := range res.chunks {
		if c == "" || !utf8.ValidString(c) {
			out.L2("chunk-invalid-utf8", line, fmt.Sprintf("chunk=%x", c))
		}
	}
	if !strings.HasPrefix(g, o) {
		if vp {
			out.L2("prefix-valid-gen", line, fmt.Sprintf("out=%x gen=%x", o, g))
		} else {
			// F20: the generated bytes are not valid UTF-8 and flushPending dropped some of them;
			// anything else (bytes added, reordered) is a different failure
			// (a subsequence that this does not explain — valid text lost before an invalid byte, in a later window,
			// after a stop was cut — is NOT the known finding)
			class := "other"
			oo := o
			if res.reason == "running" {
				oo += strings.Join(res.pending, "") // still running: the tail is held back, not dropped
			}
			if verifDropsExplained(oo, g, stops, res.reason == "stop") {
				class = "invalid-utf8-bytes-dropped"
				out.Count("f20_dropped_bytes")
			} else if verifSubsequence(o, g) {
				class = "valid-text-lost"
			}
			out.L2("prefix-invalid-gen", line, fmt.Sprintf("class=%s out=%x gen=%x", class, o, g))
		}
	}
	if vp && strings.HasPrefix(g, o) {
		off := 0
		for _, c := range res.chunks {
			off += len(c)
			if off < len(g) && !utf8.RuneStart(g[off]) {
				out.L2("chunk-splits-char", line, fmt.Sprintf("offset=%d gen=%x", off, g))
			}
		}
	}
	if res.reason == "running" {
		out.Count("running")
		// which hold of stepPiece kept the pending pieces back (classification only; by the real predicates)
		if len(res.pending) > 0 {
			j := strings.Join(res.pending, "")
			if common.ContainsStopSuffix(j, stops) {
				out.Count("branch_hold_stop_suffix")
			} else if common.IncompleteUnicode(j) {
				out.Count("branch_hold_incomplete_unicode")
			}
		} else if res.consumed > 0 {
			out.Count("branch_flush_all")
		}
		if vp {
			// nothing may have been lost: out ++ pending = gen
			if o+strings.Join(res.pending, "") != g {
				out.L2("running-lost-text", line, fmt.Sprintf("out=%x pend=%x gen=%x", o, strings.Join(res.pending, ""), g))
			}
		}
		return
	}
	// which stops occur in the generated text, and where
	earliest, earliestStop := -1, ""
	firstListed, firstListedAt := "", -1
	nOccur := 0
	hasEmpty := false
	for _, st := range stops {
		if st == "" {
			hasEmpty = true
			continue
		}
		if i := strings.Index(g, st); i >= 0 {
			nOccur++
			if firstListedAt < 0 {
				firstListed, firstListedAt = st, i
			}
			if earliest < 0 || i < earliest {
				earliest, earliestStop = i, st
			}
		}
	}
	if hasEmpty {
		out.Count("has_empty_stop")
		return // "" occurs in every text; the stop clauses say nothing useful
	}
	for _, st := range stops {
		if !utf8.ValidString(st) {
			// stops reach the runner through encoding/json and are valid UTF-8; a stop that starts
			// or ends inside a character cannot be honoured together with whole-UTF-8 output.
			// Such cases are still compared with the model (L1) and checked for the UTF-8 clauses.
			out.Count("has_invalid_stop")
			return
		}
	}
	// the cause, from the script alone
	cause := "limit"
	if nOccur > 0 {
		cause = "stopstring"
	} else if sawEOS {
		cause = "eos"
	}
	out.Count("cause_" + cause)
	if nOccur > 1 {
		out.Count("stops_overlap_in_window")
	}
	want := map[string]string{"limit": "length", "eos": "stop", "stopstring": "stop"}[cause]
	if res.reason != want {
		out.L2("reason-map", line, fmt.Sprintf("cause=%s reason=%s", cause, res.reason))
	}
	if !vp {
		// generated bytes that are not valid UTF-8: the stop clauses stay on.  A stop string in the output is the known
		// consequence of F20a (class=after-invalid-bytes) only if the generated bytes did NOT contain that stop
		// contiguously and the output is the generated text minus bytes removed by the valid-prefix trim (the removal
		// glued two pieces of text together); anything else is reported as new.
		for _, st := range stops {
			if strings.Contains(o, st) {
				cl := "other"
				if ok, pos := verifExplain(o, g, stops, res.reason == "stop"); ok && !strings.HasPrefix(g, o) && verifGluedOnly(o, pos, stops) {
					cl = "after-invalid-bytes"
					out.Count("f20_stop_spelt_after_drop")
				}
				out.L2("stop-in-output", line, fmt.Sprintf("class=%s stop=%x out=%x gen=%x", cl, st, o, g))
				break
			}
		}
		return
	}
	// "as soon as": generation ends WITH the token that completes the earliest stop / with the EOS token / with the
	// limit-th token — no token is sampled after the terminating event
	{
		want, acc := -1, ""
		for k, e := range script[:res.consumed] {
			if e.eos {
				want = k + 1
				break
			}
			acc += e.piece
			hit := false
			for _, st := range stops {
				if strings.Contains(acc, st) {
					hit = true
				}
			}
			if hit {
				want = k + 1
				break
			}
		}
		if want >= 0 && res.consumed != want {
			out.L2("sampled-after-end", line, fmt.Sprintf("tokens_sampled=%d terminating_event_is_token=%d", res.consumed, want))
		}
	}
	class := "other"
	if nOccur > 1 && firstListedAt > earliest {
		class = "first-listed-not-earliest"
		out.Count("f7_shape")
	}
	for _, st := range stops {
		if strings.Contains(o, st) {
			out.L2("stop-in-output", line, fmt.Sprintf("class=%s stop=%x first_listed=%x@%d earliest=%x@%d out=%x", class, st, firstListed, firstListedAt, earliestStop, earliest, o))
			break
		}
	}
	if cause == "stopstring" {
		ok := false
		if strings.HasPrefix(g, o) {
			for _, st := range stops {
				if strings.HasPrefix(g[len(o):], st) {
					ok = true
				}
			}
		}
		if !ok {
			out.L2("not-ended-before-stop", line, fmt.Sprintf("class=%s out=%x gen=%x", class, o, g))
		}
		// cache trimming: after a stop string the cache keeps the prompt and exactly the tokens whose text was streamed in full
		// (stated for scripts without empty pieces: an empty piece at the cut belongs to neither side)
		{
			m, cum, empty := 0, 0, false
			for _, e := range script[:res.consumed] {
				if e.piece == "" {
					empty = true
				}
				cum += len(e.piece)
				if cum <= len(o) {
					m++
				}
			}
			// cacheLen is observed by the loop driver only (0 = not observed: handler / multi / sched drivers)
			if res.cacheLen > 0 && !empty && strings.HasPrefix(g, o) && res.cacheLen != 1+m {
				out.L2("cache-not-streamed-tokens", line, fmt.Sprintf("cache=%d prompt=%d tokens_streamed_in_full=%d out=%x", res.cacheLen, 1, m, o))
			}
		}
		if len(stops) == 1 && o != g[:earliest] {
			out.L2("single-stop-output", line, fmt.Sprintf("out=%x want=%x", o, g[:earliest]))
		}
		// any stop set: the output is the generated text up to the EARLIEST first occurrence of a stop
		if len(stops) > 1 && o != g[:earliest] {
			out.L2("stop-output-not-earliest", line, fmt.Sprintf("class=%s out=%x want=%x", class, o, g[:earliest]))
		}
	} else {
		// ends at EOS or at the limit: everything generated, except a trailing incomplete character
		if o != g {
			out.Count("branch_final_flush_trims")
		}
		if o != verifTrimTail(g) {
			out.L2("ends-eos-limit", line, fmt.Sprintf("cause=%s out=%x gen=%x", cause, o, g))
		}
	}
}

// ---------------------------------------------------------------- generators

var verifChars = []string{"a", "b", "}", "\n", " ", "<", "é", "€", "😀", "ß", "日"}

func verifGenText(r *zzverif.Rng, n int) string {
	var sb strings.Builder
	for i := 0; i < n; i++ {
		sb.WriteString(zzverif.Pick(r, verifChars))
	}
	return sb.String()
}

// split s into pieces at random byte positions (characters and stops get split across tokens)
func verifSplit(r *zzverif.Rng, s string, byChar bool) []string {
	var ps []string
	for len(s) > 0 {
		n := r.Pick3(1, 3, 7)
		if n > len(s) {
			n = len(s)
		}
		if byChar {
			for n < len(s) && !utf8.RuneStart(s[n]) {
				n++
			}
		}
		ps = append(ps, s[:n])
		s = s[n:]
	}
	return ps
}

var verifBadBytes = []string{"\xff", "\x80", "\xc0", "\xc3", "\xe2\x82", "\xf0\x9f", "\xf0\x9f\x98", "\xed\xa0\x80", "\xf5", "\xbf\xbf"}

func verifGenCase(r *zzverif.Rng) (int, []string, []verifEv) {
	nchar := r.Pick3(0, 8, 24)
	text := verifGenText(r, nchar)
	// stops
	var stops []string
	ns := zzverif.Pick(r, []int{0, 1, 1, 1, 2, 2, 3, 4})
	for i := 0; i < ns; i++ {
		switch r.Intn(10) {
		case 0, 1, 2, 3, 4: // a substring of the text, on character boundaries
			rs := []rune(text)
			if len(rs) > 0 {
				a := r.Intn(len(rs))
				b := a + r.Range(1, 3)
				if b > len(rs) {
					b = len(rs)
				}
				stops = append(stops, string(rs[a:b]))
				continue
			}
			fallthrough
		case 5, 6, 7:
			stops = append(stops, verifGenText(r, r.Range(1, 3)))
		case 8: // a stop that extends past what will be generated (suffix hold at the end)
			rs := []rune(text)
			if len(rs) > 0 {
				a := r.Intn(len(rs))
				stops = append(stops, string(rs[a:])+verifGenText(r, r.Range(1, 2)))
				continue
			}
			stops = append(stops, "ab")
		default:
			if r.Chance(1, 4) {
				stops = append(stops, "")
			} else {
				stops = append(stops, zzverif.Pick(r, []string{"\n\n", "}", "a", "<|", "é", "\x82"}))
			}
		}
	}
	pieces := verifSplit(r, text, r.Chance(1, 4))
	// malformed stream: sometimes inject invalid bytes / empty pieces
	if r.Chance(1, 5) {
		k := r.Range(1, 2)
		for i := 0; i < k; i++ {
			bad := zzverif.Pick(r, verifBadBytes)
			if len(pieces) == 0 || r.Bool() {
				at := r.Intn(len(pieces) + 1)
				pieces = append(pieces[:at], append([]string{bad}, pieces[at:]...)...)
			} else {
				at := r.Intn(len(pieces))
				c := r.Intn(len(pieces[at]) + 1)
				pieces[at] = pieces[at][:c] + bad + pieces[at][c:]
			}
		}
	}
	if r.Chance(1, 12) && len(pieces) > 0 {
		at := r.Intn(len(pieces) + 1)
		pieces = append(pieces[:at], append([]string{""}, pieces[at:]...)...)
	}
	// several pieces glued into one token (stops overlapping inside one flush window)
	if r.Chance(1, 4) && len(pieces) > 1 {
		at := r.Intn(len(pieces) - 1)
		pieces[at] = pieces[at] + pieces[at+1]
		pieces = append(pieces[:at+1], pieces[at+2:]...)
	}
	var script []verifEv
	for _, p := range pieces {
		script = append(script, verifEv{piece: p})
	}
	switch r.Intn(6) {
	case 0: // no EOS: ends by limit, by stop, or keeps running
	case 1: // EOS in the middle
		at := r.Intn(len(script) + 1)
		script = append(script[:at], append([]verifEv{{eos: true}}, script[at:]...)...)
	default:
		script = append(script, verifEv{eos: true})
	}
	limit := 0
	switch r.Intn(6) {
	case 0:
		limit = 0
	case 1:
		limit = -1
	case 2:
		limit = len(script) + r.Intn(3)
	default:
		limit = r.Range(1, len(script)+1)
	}
	return limit, stops, script
}

// exhaustive small scope: every way to cut a short text into pieces x stop sets x limits
func verifExhaustive(out *zzverif.Out, maxLen int) {
	texts := []string{"}\n\n", "a}\n\nb", "ab€a", "aé}b", "😀a\n", "a\xffb", "ab\xe2\x82", "abab"}
	stopSets := [][]string{nil, {"\n\n", "}"}, {"}", "\n\n"}, {"b"}, {"ab"}, {"€a"}, {"é}", "a"}, {"ba", "ab"}, {"\n"}, {"a\n\n"}, {"abc"}}
	for _, text := range texts {
		if len(text) > maxLen {
			continue
		}
		n := len(text)
		for mask := 0; mask < 1<<(n-1); mask++ {
			var script []verifEv
			start := 0
			for i := 1; i < n; i++ {
				if mask&(1<<(i-1)) != 0 {
					script = append(script, verifEv{piece: text[start:i]})
					start = i
				}
			}
			script = append(script, verifEv{piece: text[start:]})
			for _, stops := range stopSets {
				for _, lim := range []int{0, 1, 2, len(script)} {
					for _, eos := range []bool{false, true} {
						sc := script
						if eos {
							sc = append(append([]verifEv(nil), script...), verifEv{eos: true})
						}
						verifLoopCase(out, lim, stops, sc)
						out.Count("exhaustive_cases")
					}
				}
			}
		}
	}
}

func TestVerifC14Loop(t *testing.T) {
	out := zzverif.NewOut()
	defer out.Close()
	if rp := os.Getenv("VERIF_REPLAY"); rp != "" {
		b, err := os.ReadFile(rp)
		if err != nil {
			t.Fatal(err)
		}
		limit, stops, script, err := verifParseLoopLine(strings.TrimSpace(string(b)))
		if err != nil {
			t.Skip("not a loop case")
		}
		verifLoopCase(out, limit, stops, script)
		return
	}
	// corpus first: F7 witness and the F20 shapes
	verifLoopCase(out, 0, []string{"\n\n", "}"}, []verifEv{{piece: "}\n\n"}, {eos: true}})
	verifLoopCase(out, 0, []string{"ab"}, []verifEv{{piece: "a"}, {piece: "\xff"}, {piece: "b"}, {eos: true}})
	verifLoopCase(out, 0, nil, []verifEv{{piece: "a\xffb"}, {piece: "c"}, {eos: true}})
	// F20 (reason vocabulary): an EOS-terminated and a stop-string-terminated run report the same reason
	{
		a, _ := verifRunLoop(0, []string{"x"}, []verifEv{{piece: "a"}, {eos: true}})
		b, _ := verifRunLoop(0, []string{"x"}, []verifEv{{piece: "a"}, {piece: "x"}})
		if a.reason == b.reason {
			out.L2("reason-two-values-three-causes", "loop 1 0 1 78 2 61 E", fmt.Sprintf("class=eos-and-stop-string-share-reason eos=%s stopstring=%s", a.reason, b.reason))
		}
	}
	verifExhaustive(out, zzverif.EnvInt("VERIF_EXH", 5))
	root := zzverif.NewRng(zzverif.Seed())
	n := zzverif.EnvInt("VERIF_N", 3000)
	for i := 0; i < n; i++ {
		r := root.Fork()
		limit, stops, script := verifGenCase(r)
		verifLoopCase(out, limit, stops, script)
	}
}
