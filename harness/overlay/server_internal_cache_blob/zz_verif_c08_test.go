package blob

// Verification driver for C08 (blob cache: right size ⇒ right content).
// Added to the package at build time with `go test -overlay`; never committed to /repo.
//
// Phases (all on scratch directories below t.TempDir()):
//   hist  – random histories of Put/Import/Get/Link/Unlink/Resolve/Chunked over a few digests and names,
//           with faulty source readers; L1 = results + final disk vs the Lean model; L2 after every step.
//   crash – one write (Put / Import / Chunker.Put) executed in a CHILD process (this test binary re-executed)
//           under `strace … inject=<syscall>:signal=KILL:when=N` for every syscall kind and every N until the
//           child survives; the parent inspects what is left on disk (L1 against the model's prefix state, L2).
//   conc  – 2–4 goroutines Put the same digest; their readers hand out bytes only when the driver says so,
//           so the interleaving of their file writes is a deterministic function of the seed.

import (
	"bytes"
	"crypto/sha256"
	"encoding/hex"
	"errors"
	"fmt"
	"io"
	"io/fs"
	"os"
	"os/exec"
	"path/filepath"
	"regexp"
	"runtime"
	"sort"
	"strconv"
	"strings"
	"testing"

	"github.com/ollama/ollama/zzverif"
)

var errVSrc = errors.New("verif: source reader failed")

// ---------------------------------------------------------------- scripts and readers

type vScript struct {
	chunks [][]byte
	end    string // "eof" | "err"
	kind   string // generator label (stats only)
}

func (s vScript) String() string {
	var b strings.Builder
	fmt.Fprintf(&b, "%d", len(s.chunks))
	for _, c := range s.chunks {
		b.WriteString(" " + zzverif.Hex(c))
	}
	b.WriteString(" " + s.end)
	return b.String()
}

func (s vScript) endErr() error {
	if s.end == "err" {
		return errVSrc
	}
	return io.EOF
}

// vReader is a plain io.Reader (no WriterTo), delivering one scripted chunk per Read.
type vReader struct {
	chunks [][]byte
	rem    []byte
	end    error
}

func newVReader(s vScript) *vReader { return &vReader{chunks: s.chunks, end: s.endErr()} }

func (r *vReader) Read(p []byte) (int, error) {
	if len(r.rem) == 0 {
		if len(r.chunks) == 0 {
			return 0, r.end
		}
		r.rem = r.chunks[0]
		r.chunks = r.chunks[1:]
		if len(r.rem) == 0 {
			return 0, nil
		}
	}
	n := copy(p, r.rem)
	r.rem = r.rem[n:]
	return n, nil
}

func vSplit(r *zzverif.Rng, data []byte, mode int, empties bool) [][]byte {
	var out [][]byte
	switch mode {
	case 0: // single chunk
		if len(data) > 0 {
			out = append(out, data)
		}
	case 1: // one byte at a time: every byte position becomes a boundary between two write(2) calls
		for i := range data {
			out = append(out, data[i:i+1])
		}
	default:
		for len(data) > 0 {
			n := r.Range(1, len(data))
			if r.Chance(1, 2) && n > 3 {
				n = r.Range(1, 3)
			}
			out = append(out, data[:n])
			data = data[n:]
		}
	}
	if empties && r.Chance(1, 5) {
		i := r.Intn(len(out) + 1)
		out = append(out[:i], append([][]byte{{}}, out[i:]...)...)
	}
	return out
}

var vScriptKinds = []string{"exact", "exact", "exact", "short", "long", "flip", "errk", "other", "exact1"}

func vMkScript(r *zzverif.Rng, content []byte, kind string, empties bool) vScript {
	c := append([]byte(nil), content...)
	mode := r.Intn(3)
	s := vScript{end: "eof", kind: kind}
	switch kind {
	case "exact":
	case "exact1":
		mode = 1
	case "short":
		if len(c) > 0 {
			c = c[:r.Intn(len(c))]
		}
	case "long":
		c = append(c, r.Bytes(r.Range(1, 3))...)
	case "flip":
		if len(c) > 0 {
			c[r.Intn(len(c))] ^= byte(1 << r.Intn(8))
		}
	case "errk":
		c = c[:r.Intn(len(c)+1)]
		s.end = "err"
	case "other":
		c = r.Bytes(len(c))
	}
	s.chunks = vSplit(r, c, mode, empties)
	return s
}

func vErrClass(err error) string {
	switch {
	case err == nil:
		return "ok"
	case errors.Is(err, errVSrc):
		return "err:src"
	case errors.Is(err, io.ErrUnexpectedEOF):
		return "err:short"
	case errors.Is(err, fs.ErrNotExist):
		return "err:notexist"
	case errors.Is(err, errInvalidName):
		return "err:invalidname"
	case errors.Is(err, ErrInvalidDigest):
		return "err:invaliddigest"
	case strings.Contains(err.Error(), "changed underfoot"):
		return "err:underfoot"
	case strings.Contains(err.Error(), "exceeds expected size"):
		return "err:exceeds"
	case strings.Contains(err.Error(), "blob: expected"):
		return "err:sizemismatch"
	case strings.Contains(err.Error(), "file too large"): // proposed_fixes/C08-F28.patch
		return "err:toolarge"
	case strings.Contains(err.Error(), "negative size"): // proposed_fixes/C08-F29.patch
		return "err:negsize"
	}
	return "err:other:" + strings.ReplaceAll(err.Error(), " ", "_")
}

func vDigestOf(b []byte) Digest { return Digest{sha256.Sum256(b)} }
func vHexD(d Digest) string     { return hex.EncodeToString(d.sum[:]) }
func vUnhexD(s string) Digest {
	var d Digest
	copy(d.sum[:], zzverif.Unhex(s))
	return d
}

// vState renders a file like the oracle: absent | - | hex
func vState(path string) string {
	b, err := os.ReadFile(path)
	if err != nil {
		return "absent"
	}
	return zzverif.Hex(b)
}

// ---------------------------------------------------------------- ops

type vOp struct {
	kind        string
	d           Digest
	size        int64
	start, stop int64
	cd          Digest
	name        string
	scen        bool // first op of a directed scenario (generator bookkeeping only)
	hook        bool // link only: fire Resolve(name) from testHookBeforeFinalWrite (between verified copy and rename)
	s           vScript
	data        []byte // edit: the bytes written to the manifest file behind the cache's back
	puts        []vOp  // session: the Chunker.Puts (start, stop, cd, s) on ONE chunker
	complete    bool   // session: the puts tile the true content in order with good sources (generator bookkeeping)
}

func (o vOp) String() string {
	switch o.kind {
	case "session":
		var b strings.Builder
		fmt.Fprintf(&b, "session %s %d %d", vHexD(o.d), o.size, len(o.puts))
		for _, q := range o.puts {
			fmt.Fprintf(&b, " %d %d %s %s", q.start, q.stop, vHexD(q.cd), q.s)
		}
		return b.String()
	case "putneg":
		return fmt.Sprintf("putneg %s %s", vHexD(o.d), o.s)
	case "edit":
		return fmt.Sprintf("edit %s %s", zzverif.Hex([]byte(o.name)), zzverif.Hex(o.data))
	case "put":
		return fmt.Sprintf("put %s %d %s", vHexD(o.d), o.size, o.s)
	case "import":
		return fmt.Sprintf("import %d %s", o.size, o.s)
	case "get":
		return "get " + vHexD(o.d)
	case "link":
		if o.hook {
			return fmt.Sprintf("linkr %s %s", zzverif.Hex([]byte(o.name)), vHexD(o.d))
		}
		return fmt.Sprintf("link %s %s", zzverif.Hex([]byte(o.name)), vHexD(o.d))
	case "unlink":
		return "unlink " + zzverif.Hex([]byte(o.name))
	case "resolve":
		return "resolve " + zzverif.Hex([]byte(o.name))
	case "chunk":
		return fmt.Sprintf("chunk %s %d %d %d %s %s", vHexD(o.d), o.size, o.start, o.stop, vHexD(o.cd), o.s)
	}
	panic("bad op")
}

type vToks struct {
	t []string
	i int
}

func (p *vToks) next() string {
	if p.i >= len(p.t) {
		panic("verif: short case line")
	}
	s := p.t[p.i]
	p.i++
	return s
}
func (p *vToks) int() int64 {
	v, err := strconv.ParseInt(p.next(), 10, 64)
	if err != nil {
		panic(err)
	}
	return v
}
func (p *vToks) script() vScript {
	n := int(p.int())
	s := vScript{}
	for i := 0; i < n; i++ {
		s.chunks = append(s.chunks, zzverif.Unhex(p.next()))
	}
	s.end = p.next()
	return s
}
func (p *vToks) op() vOp {
	o := vOp{kind: p.next()}
	switch o.kind {
	case "put":
		o.d, o.size, o.s = vUnhexD(p.next()), p.int(), p.script()
	case "import":
		o.size, o.s = p.int(), p.script()
	case "get":
		o.d = vUnhexD(p.next())
	case "link", "linkr":
		o.hook = o.kind == "linkr"
		o.kind = "link"
		o.name, o.d = string(zzverif.Unhex(p.next())), vUnhexD(p.next())
	case "unlink", "resolve":
		o.name = string(zzverif.Unhex(p.next()))
	case "chunk":
		o.d, o.size, o.start, o.stop, o.cd, o.s = vUnhexD(p.next()), p.int(), p.int(), p.int(), vUnhexD(p.next()), p.script()
	case "session":
		o.d, o.size = vUnhexD(p.next()), p.int()
		for i, n := 0, int(p.int()); i < n; i++ {
			q := vOp{kind: "chunk", d: o.d, size: o.size}
			q.start, q.stop, q.cd, q.s = p.int(), p.int(), vUnhexD(p.next()), p.script()
			o.puts = append(o.puts, q)
		}
	case "putneg":
		o.d, o.size, o.s = vUnhexD(p.next()), -1, p.script()
	case "edit":
		o.name, o.data = string(zzverif.Unhex(p.next())), zzverif.Unhex(p.next())
	default:
		panic("verif: bad op " + o.kind)
	}
	return o
}

// vExec runs one op on the real cache; returns the canonical result and, for import/resolve, the digest.
func vExec(c *DiskCache, o vOp) (res string, dg *Digest) {
	defer func() {
		if e := recover(); e != nil {
			res = "panic:" + strings.ReplaceAll(fmt.Sprint(e), " ", "_")
		}
	}()
	switch o.kind {
	case "put", "putneg":
		return vErrClass(c.Put(o.d, newVReader(o.s), o.size)), nil
	case "edit":
		// a manifest written behind the cache's back, under the exact spelling of the name (hand edit / legacy cache)
		np, err := nameToPath(o.name)
		if err != nil {
			return vErrClass(err), nil
		}
		file := filepath.Join(c.dir, "manifests", np)
		if err := os.MkdirAll(filepath.Dir(file), 0o777); err != nil {
			return vErrClass(err), nil
		}
		return vErrClass(os.WriteFile(file, o.data, 0o666)), nil
	case "import":
		d, err := c.Import(newVReader(o.s), o.size)
		if err != nil {
			return vErrClass(err), nil
		}
		return "dig:" + vHexD(d), &d
	case "get":
		e, err := c.Get(o.d)
		if err != nil {
			return vErrClass(err), nil
		}
		return fmt.Sprintf("entry:%d", e.Size), nil
	case "link":
		if !o.hook {
			return vErrClass(c.Link(o.name, o.d)), nil
		}
		// a Resolve of the same name "concurrent" with the Link, at the one yield point the code offers: after the
		// copy's digest verified, before its final write (and so before the rename over the link)
		hooked, in := "nohook", false
		var hd *Digest
		c.testHookBeforeFinalWrite = func(*os.File) {
			if in {
				return // the hooked Resolve's own PutBytes
			}
			in = true
			defer func() { in = false }()
			d, err := c.Resolve(o.name)
			if err != nil {
				hooked = vErrClass(err)
			} else {
				hooked, hd = "dig:"+vHexD(d), &d
			}
		}
		err := c.Link(o.name, o.d)
		c.testHookBeforeFinalWrite = nil
		return vErrClass(err) + "/" + hooked, hd
	case "unlink":
		ok, err := c.Unlink(o.name)
		if err != nil {
			return vErrClass(err), nil
		}
		return fmt.Sprintf("unlinked:%v", ok), nil
	case "resolve":
		d, err := c.Resolve(o.name)
		if err != nil {
			return vErrClass(err), nil
		}
		return "dig:" + vHexD(d), &d
	case "session":
		// ONE Chunker for all the Puts: the stat happens once, in Chunked; the file stays open across the calls
		ck, err := c.Chunked(o.d, o.size)
		if err != nil {
			return vErrClass(err), nil
		}
		rs := []string{}
		for _, q := range o.puts {
			rs = append(rs, vErrClass(ck.Put(Chunk{Start: q.start, End: q.stop}, q.cd, newVReader(q.s))))
		}
		if ck.f != nil {
			ck.Close()
		}
		if len(rs) == 0 {
			return "none", nil
		}
		return strings.Join(rs, "+"), nil
	case "chunk":
		ck, err := c.Chunked(o.d, o.size)
		if err != nil {
			return vErrClass(err), nil
		}
		err = ck.Put(Chunk{Start: o.start, End: o.stop}, o.cd, newVReader(o.s))
		if ck.f != nil {
			ck.Close()
		}
		return vErrClass(err), nil
	}
	panic("bad op")
}

// ---------------------------------------------------------------- histories

var vNames = []string{
	"h/n/m:t", "H/N/M:T", "h/n/m:T", "h/n/m:t2", "host.x:80/ns/model:tag", "a-b/n/m:t", "a/n/m:t", "a.b/n/m:t",
	"h/n/m:t", "h/n/m:t", "h/n/m:t2",
	// invalid or not fully qualified
	"m:t", "h/n/m", "", ".h/n/m:t", "h/n.x/m:t", "h/n/m:t:u", "x/h/n/m:t", "h/n/m:t@", "h/n/m:t@sha256:zz",
}

type vHist struct {
	t        *testing.T
	out      *zzverif.Out
	c        *DiskCache
	dir      string
	caseLine string
	// L2 bookkeeping, all from the driver's own observations of the real disk
	stored     map[Digest]map[int64]bool // sizes under which a store of d was acknowledged
	lastWriter map[Digest]string         // kind of the op that last changed d's file
	linked     map[string]Digest         // lower-cased name -> digest of the last acknowledged Link (cleared by Unlink / refused Link)
	linkedWhy  map[string]string         // classification of that Link by the driver's own observations
	acked      map[Digest]bool           // a non-empty store of d was acknowledged and no later Put/chunk of d failed
	truth      map[Digest][]byte         // the true content of a digest, where an op of the history carries it
	chunkDeviates map[Digest]bool        // some Chunker.Put on d left a file other than vChunkExpect's
	handTwins  map[string]bool           // lower-cased manifest path -> an `edit` made a second spelling of it exist (by design the first in glob order wins)
}

// vSnap lists everything below the cache root: relative path -> "d" (directory) or "f:"+content.
func vSnap(root string) map[string]string {
	m := map[string]string{}
	filepath.WalkDir(root, func(p string, de fs.DirEntry, err error) error {
		if err != nil || p == root {
			return nil
		}
		rel, _ := filepath.Rel(root, p)
		if de.IsDir() {
			m[rel] = "d"
		} else if b, err := os.ReadFile(p); err == nil {
			m[rel] = "f:" + string(b)
		}
		return nil
	})
	return m
}

// vBlobOfPath: "blobs/sha256-<64 hex>" -> digest
func vBlobOfPath(rel string) (Digest, bool) {
	const pre = "blobs/sha256-"
	if !strings.HasPrefix(rel, pre) || len(rel) != len(pre)+64 {
		return Digest{}, false
	}
	b, err := hex.DecodeString(rel[len(pre):])
	if err != nil {
		return Digest{}, false
	}
	var d Digest
	copy(d.sum[:], b)
	return d, true
}

// confine is the disk-level frame condition of every operation, evaluated on the real directory tree:
// blob operations change nothing but the one blob file they name; name operations (Link / Unlink) change
// nothing outside manifests/ and create files only at manifests/<host>/<ns>/<model>/<tag>; Resolve changes
// nothing but the blob named by the digest it returns.
func (h *vHist) confine(step int, o vOp, dg *Digest, before, after map[string]string) {
	allowedBlob := ""
	switch o.kind {
	case "put", "chunk", "putneg", "session":
		allowedBlob = "blobs/sha256-" + vHexD(o.d)
	case "import", "resolve":
		if dg != nil {
			allowedBlob = "blobs/sha256-" + vHexD(*dg)
		}
	}
	paths := map[string]string{}
	for p, v := range before {
		if w, ok := after[p]; !ok {
			paths[p] = "removed"
		} else if w != v {
			paths[p] = "modified"
		}
	}
	for p := range after {
		if _, ok := before[p]; !ok {
			paths[p] = "created"
		}
	}
	sorted := make([]string, 0, len(paths))
	for p := range paths {
		sorted = append(sorted, p)
	}
	sort.Strings(sorted)
	for _, p := range sorted {
		if d, ok := vBlobOfPath(p); ok {
			h.lastWriter[d] = o.kind
			if o.kind == "session" {
				h.lastWriter[d] = "chunk" // the same writer: Chunker.Put
			}
		}
		ok := false
		switch o.kind {
		case "link", "unlink":
			if o.hook && dg != nil && p == "blobs/sha256-"+vHexD(*dg) {
				ok = true // the hooked Resolve stores the manifest it read as a blob
				break
			}
			rest := strings.TrimPrefix(p, "manifests/")
			depth := strings.Count(rest, "/") + 1
			isDir := after[p] == "d" || before[p] == "d"
			ok = ok || (rest != p && ((isDir && depth <= 3) || (!isDir && depth == 4)))
		case "edit":
			ok = true // the driver's own write
		default:
			ok = p == allowedBlob
		}
		h.out.Count("l2_confine_changed_paths")
		if !ok {
			h.out.L2("op-touches-foreign-file", h.caseLine, fmt.Sprintf("op=%s change=%s path=%s step=%d name=%q", o.kind, paths[p], p, step, o.name))
		}
	}
}

// checkStored is put_ok_retrievable evaluated on the real code: right after an acknowledged store of d under
// `size` (> 0) the blob is retrievable: Get ok, Size = size, real sha256 of the file = d.
func (h *vHist) checkStored(step int, via string, d Digest, size int64) {
	if size <= 0 {
		return // zero-length blobs are by design never "present" (TestPutZero / TestPutGetZero)
	}
	h.out.Count("l2_store_checked_" + via)
	e, err := h.c.Get(d)
	b, _ := h.blobBytes(d)
	if err != nil || e.Size != size || vDigestOf(b) != d {
		h.out.L2("store-ok-not-retrievable", h.caseLine,
			fmt.Sprintf("via=%s step=%d digest=%s size=%d get=%v,%d file=%s last-writer=%s", via, step, d.Short(), size, err, e.Size, zzverif.Hex(b), h.lastWriter[d]))
	}
}

func (h *vHist) blobBytes(d Digest) ([]byte, bool) {
	b, err := os.ReadFile(h.c.GetFile(d))
	return b, err == nil
}

func (h *vHist) manifestFile(name string) string {
	p, err := h.c.manifestPath(name)
	if err != nil {
		return ""
	}
	return p
}

// checkAllPresent is the core L2 monitor: every digest the cache reports present (Get ok) with a size it
// was stored under must hash to its digest.
func (h *vHist) checkAllPresent(step int, op vOp) {
	ds := make([]Digest, 0, len(h.stored))
	for d := range h.stored {
		ds = append(ds, d)
	}
	sort.Slice(ds, func(i, j int) bool { return ds[i].Compare(ds[j]) < 0 })
	for _, d := range ds {
		e, err := h.c.Get(d)
		if err != nil {
			continue
		}
		if !h.stored[d][e.Size] {
			continue
		}
		h.out.Count("l2_present_checked")
		b, _ := h.blobBytes(d)
		if vDigestOf(b) != d {
			h.out.L2("present-wrong-content", h.caseLine,
				fmt.Sprintf("last-writer=%s as-designed=%v step=%d op=%s digest=%s size=%d file=%s", h.lastWriter[d], !h.chunkDeviates[d], step, op.kind, d.Short(), e.Size, zzverif.Hex(b)))
		}
	}
}

// checkAcked: an acknowledged non-empty store of d stays retrievable until a Put / Chunker.Put of d itself is
// refused or truncates it: no other operation (in particular no name operation) may remove or change it.
func (h *vHist) checkAcked(step int, op vOp) {
	ds := make([]Digest, 0, len(h.acked))
	for d, a := range h.acked {
		if a {
			ds = append(ds, d)
		}
	}
	sort.Slice(ds, func(i, j int) bool { return ds[i].Compare(ds[j]) < 0 })
	for _, d := range ds {
		h.out.Count("l2_acked_checked")
		_, err := h.c.Get(d)
		b, _ := h.blobBytes(d)
		if err != nil || vDigestOf(b) != d {
			h.out.L2("acked-blob-lost", h.caseLine, fmt.Sprintf("last-writer=%s step=%d op=%s digest=%s get=%v file=%s", h.lastWriter[d], step, op.kind, d.Short(), err, zzverif.Hex(b)))
			h.acked[d] = false // report once
		}
	}
}

// vChunkExpect is what the DOCUMENTED chunk writer leaves in the file (finding F10-cache is about exactly this
// algorithm): a file that already has the declared size is not touched; otherwise the stream, cut at the chunk's
// length, is written in place at its offset piece by piece, except that the piece completing the chunk is written only
// if the digest of the whole chunk matches; nothing is undone on failure, nothing is truncated, gaps read as zeros.
// The real file after every Chunker.Put is compared with it: a chunk writer that accepts a corrupt chunk, writes at a
// wrong offset or touches other bytes DEVIATES (reported with the input), and only wrong content that this algorithm
// produces is attributed to F10-cache.
func vChunkExpect(before []byte, exists bool, o vOp) []byte {
	if exists && int64(len(before)) == o.size {
		return before
	}
	if o.kind == "session" { // the stat above is the only one; then every Put is applied to the open file
		f := before
		for _, q := range o.puts {
			f = vChunkApply(f, q)
		}
		if f == nil {
			f = []byte{}
		}
		return f
	}
	return vChunkApply(before, o)
}

func vChunkApply(before []byte, o vOp) []byte {
	f := append([]byte{}, before...)
	n := o.stop - o.start + 1
	var seen []byte
	remaining := n
	for _, c := range o.s.chunks {
		if remaining <= 0 {
			break
		}
		if int64(len(c)) >= remaining {
			c = c[:remaining]
		}
		remaining -= int64(len(c))
		if len(c) == 0 {
			continue
		}
		all := append(append([]byte(nil), seen...), c...)
		if int64(len(all)) == n && vDigestOf(all) != o.cd {
			break
		}
		off := int(o.start) + len(seen)
		for len(f) < off+len(c) {
			f = append(f, 0)
		}
		copy(f[off:], c)
		seen = all
	}
	return f
}

// vExplained: every byte of b that differs from the true content is a zero, a byte of the file the write started
// from, or a byte the chunk's own source delivers at that offset (crash phase: all a cut of the algorithm can leave)
func vExplained(b, truth, init []byte, o vOp) bool {
	src := bytes.Join(o.s.chunks, nil)
	for j := range b {
		switch {
		case j < len(truth) && b[j] == truth[j], b[j] == 0, j < len(init) && b[j] == init[j]:
		case j >= int(o.start) && j-int(o.start) < len(src) && src[j-int(o.start)] == b[j]:
		default:
			return false
		}
	}
	return true
}

// f10Holey: d's file was last changed by Chunker.Put, does not hash to d, and every Chunker.Put on it did exactly what the
// documented in-place algorithm does (vChunkExpect): that is what finding F10-cache explains.  Only such a file is
// exempt from the store-retrievable / acknowledged-blob monitors.
func (h *vHist) f10Holey(d Digest) bool {
	b, ok := h.blobBytes(d)
	return ok && h.lastWriter[d] == "chunk" && vDigestOf(b) != d && !h.chunkDeviates[d]
}

func (h *vHist) noteStored(d Digest, size int64) {
	if h.stored[d] == nil {
		h.stored[d] = map[int64]bool{}
	}
	h.stored[d][size] = true
}

func (h *vHist) run(ops []vOp) (results []string, keys map[Digest]bool) {
	keys = map[Digest]bool{}
	for i, o := range ops {
		var target *Digest
		switch o.kind {
		case "put", "get", "link", "chunk", "putneg", "session":
			d := o.d
			target = &d
			keys[d] = true
		}
		for _, cand := range [][]byte{o.data, bytes.Join(o.s.chunks, nil)} {
			if cand != nil {
				h.truth[vDigestOf(cand)] = cand
			}
		}
		var before []byte
		var beforeOK bool
		if target != nil {
			before, beforeOK = h.blobBytes(*target)
		}
		// observations needed by the Link / Resolve monitors, taken before the call
		var manBefore []byte
		var manBeforeOK bool
		var getBeforeErr error
		if o.kind == "link" || (o.kind == "resolve" && !strings.Contains(o.name, "@")) {
			if p := h.manifestFile(o.name); p != "" {
				if b, err := os.ReadFile(p); err == nil {
					manBefore, manBeforeOK = b, true
				}
			}
			if o.kind == "link" {
				_, getBeforeErr = h.c.Get(o.d)
			}
		}

		unlinkExisted := ""
		if o.kind == "unlink" {
			unlinkExisted = h.findFold(o.name)
		}
		snapBefore := vSnap(h.dir)
		res, dg := vExec(h.c, o)
		snapAfter := vSnap(h.dir)
		results = append(results, res)
		hookRes := ""
		if o.kind == "link" && o.hook {
			parts := strings.SplitN(res, "/", 2)
			res, hookRes = parts[0], parts[1]
			h.out.Count("linkr_hook_" + vResClass(hookRes))
			// every name that resolves, resolves to a digest that an acknowledged or the in-flight Link asked for
			if strings.HasPrefix(hookRes, "dig:") {
				got := vUnhexD(hookRes[4:])
				if got != o.d && !(manBeforeOK && vDigestOf(manBefore) == got) {
					first := "relink"
					if !manBeforeOK {
						first = "first-link"
					}
					h.out.L2("resolve-during-link-unasked", h.caseLine, fmt.Sprintf("%s step=%d name=%s resolved=%s asked=%s", first, i, o.name, got.Short(), o.d.Short()))
				}
			}
		}
		h.out.Count("op_" + o.kind)
		if o.kind == "session" {
			cls := "all-ok"
			if strings.Contains(res, "err:") {
				cls = "some-refused"
			}
			h.out.Count("res_session_" + cls)
		} else {
			h.out.Count("res_" + o.kind + "_" + vResClass(res))
		}
		// which branch of the model this operation is in, judged from the driver's own observations taken before the
		// call (the check fails closed when a branch the theorems talk about is never exercised)
		switch o.kind {
		case "put", "chunk", "session":
			switch {
			case beforeOK && int64(len(before)) == o.size:
				h.out.Count("branch_" + o.kind + "_same_size_shortcut")
			case beforeOK && int64(len(before)) > o.size:
				h.out.Count("branch_" + o.kind + "_over_longer") // put: O_TRUNC
			case beforeOK:
				h.out.Count("branch_" + o.kind + "_over_shorter")
			default:
				h.out.Count("branch_" + o.kind + "_absent")
			}
			if o.size == 0 {
				h.out.Count("branch_" + o.kind + "_size0")
			}
		case "link":
			switch {
			case res == "ok" && manBeforeOK && vDigestOf(manBefore) == o.d:
				h.out.Count("branch_link_already_linked")
			case res == "ok" && manBeforeOK:
				h.out.Count("branch_link_replaces")
			case res == "ok":
				h.out.Count("branch_link_first")
			case res == "err:notexist" && beforeOK && len(before) == 0:
				h.out.Count("branch_link_zero_length_refused")
			case res == "err:notexist" && !beforeOK:
				h.out.Count("branch_link_blob_missing")
			case manBeforeOK:
				h.out.Count("branch_link_refused_keeps_old")
			}
		case "resolve":
			if strings.Contains(o.name, "@") {
				h.out.Count("branch_resolve_at_digest")
			} else if dg != nil {
				if _, ok := snapBefore[filepath.ToSlash(filepath.Join("blobs", "sha256-"+vHexD(*dg)))]; ok {
					h.out.Count("branch_resolve_blob_existed")
				} else {
					h.out.Count("branch_resolve_creates_blob")
				}
			}
		case "unlink":
			if unlinkExisted != "" && res == "unlinked:true" {
				if want, err := nameToPath(o.name); err == nil && filepath.ToSlash(filepath.Join("manifests", want)) != unlinkExisted {
					h.out.Count("branch_unlink_other_spelling")
				}
			}
		}
		if strings.HasPrefix(res, "err:other") || strings.HasPrefix(res, "panic:") {
			h.out.L2("unexpected-error", h.caseLine, fmt.Sprintf("step=%d op=%s res=%s", i, o.kind, res))
		}
		if dg != nil {
			keys[*dg] = true
		}

		// who changed which file (sets lastWriter), and the frame condition of the operation
		h.confine(i, o, dg, snapBefore, snapAfter)

		switch o.kind {
		case "put":
			if tr, known := h.truth[o.d]; res == "ok" && known && o.size > 0 && int64(len(tr)) != o.size {
				// the caller stored d under a size that is NOT the size of the content hashing to d, and was answered ok:
				// only the same-size shortcut can do that (a leftover file of exactly that size — a partial or over-long
				// chunk file — is trusted without being read).  No content of that digest has that size, so "present with
				// the size it was stored under" is wrong by construction: its own class (finding F30), kept apart from
				// F10's holes, and from everything the monitors below say about disciplined stores.
				how := "no-file-of-that-size-before"
				if beforeOK && int64(len(before)) == o.size {
					how = "same-size-shortcut"
				}
				h.out.Count("branch_put_ok_under_wrong_size")
				h.out.L2("store-ok-under-wrong-size", h.caseLine, fmt.Sprintf("%s size=%d true-size=%d last-writer=%s step=%d digest=%s file=%s",
					how, o.size, len(tr), h.lastWriter[o.d], i, o.d.Short(), zzverif.Hex(before)))
				h.acked[o.d] = false
				break
			}
			if res == "ok" {
				h.noteStored(o.d, o.size)
				// (B) a successful store makes the blob retrievable; a full-size holey file left by Chunker.Put is
				// answered from the size shortcut: that is finding F10-cache, reported by checkAllPresent
				if !h.f10Holey(o.d) {
					h.checkStored(i, "put", o.d, o.size)
				}
				// Put(d, _, 0) = ok truncates a longer file by design (TestPutZero); a Put answered from the size
				// shortcut over a holey chunked file acknowledges nothing new (F10-cache)
				h.acked[o.d] = o.size > 0 && !h.f10Holey(o.d)
			} else {
				h.acked[o.d] = false // a refused Put legitimately truncates the file
			}
		case "putneg":
			// a negative size: no blob has it.  A refusal that empties the file is what a refused Put does
			// (TestPut pins that); an answer "ok" acknowledges nothing, and must not cost an acknowledged blob:
			// checkAcked reports that (finding F29)
			switch {
			case res == "ok" && beforeOK && len(before) > 0:
				h.out.Count("branch_putneg_ok_over_file")
			case res == "ok":
				h.out.Count("branch_putneg_ok_no_file")
			case res == "err:negsize":
				h.out.Count("branch_putneg_refused")
			default:
				h.out.Count("branch_putneg_" + strings.TrimPrefix(res, "err:"))
				h.acked[o.d] = false
			}
		case "edit":
			delete(h.linked, h.linkKey(o.name))
			if res == "ok" {
				h.out.Count("branch_edit_written")
				want, _ := nameToPath(o.name)
				rel := filepath.ToSlash(filepath.Join("manifests", want))
				ms, _ := fs.Glob(os.DirFS(h.dir), "manifests/*/*/*/*")
				n := 0
				for _, m := range ms {
					if strings.EqualFold(m, rel) {
						n++
					}
				}
				if n > 1 {
					h.handTwins[strings.ToLower(rel)] = true
					h.out.Count("branch_edit_makes_case_twin")
				}
			}
		case "import":
			if dg != nil {
				h.noteStored(*dg, o.size)
				want := bytes.Join(o.s.chunks, nil)
				if vDigestOf(want) != *dg {
					h.out.L2("import-wrong-digest", h.caseLine, fmt.Sprintf("step=%d", i))
				}
				h.checkStored(i, "import", *dg, o.size)
				if o.size > 0 {
					h.acked[*dg] = true
				}
			}
		case "chunk", "session":
			h.acked[o.d] = false
			if !strings.HasPrefix(res, "panic:") {
				h.out.Count("l2_chunk_twin_checked")
				exp := vChunkExpect(before, beforeOK, o)
				now, nowOK := h.blobBytes(o.d)
				if !nowOK || !bytes.Equal(now, exp) {
					h.chunkDeviates[o.d] = true
					h.out.L2("chunk-write-deviates", h.caseLine, fmt.Sprintf("step=%d res=%s chunk=[%d,%d] size=%d before=%s expected=%s file=%s",
						i, res, o.start, o.stop, o.size, zzverif.Hex(before), zzverif.Hex(exp), zzverif.Hex(now)))
				}
			}
			if res == "ok" || (o.kind == "session" && len(o.puts) > 0 && !strings.Contains(res, "err:") && !strings.HasPrefix(res, "panic:")) {
				h.noteStored(o.d, o.size)
			}
			// a session whose Puts tile the true content in order, each acknowledged, onto a file that was absent or
			// shorter IS a successful store (Lean: session_tiling_complete): the blob must be retrievable
			if o.kind == "session" && o.complete && !strings.Contains(res, "err:") && (!beforeOK || int64(len(before)) < o.size) {
				h.out.Count("branch_session_complete_ok")
				h.checkStored(i, "session", o.d, o.size)
				h.acked[o.d] = o.size > 0
			}
		case "unlink":
			delete(h.linked, h.linkKey(o.name))
			// after Unlink(n) returns without error, n — in every case spelling — no longer resolves and Links()
			// does not list it; the bool says whether something was removed
			if want, nerr := nameToPath(o.name); nerr == nil && !strings.HasPrefix(res, "err:") && !strings.HasPrefix(res, "panic:") {
				h.out.Count("l2_unlink_checked")
				twin := h.handTwins[strings.ToLower(filepath.ToSlash(filepath.Join("manifests", want)))]
				if still := h.findFold(o.name); still != "" && !twin {
					h.out.L2("unlink-leaves-link", h.caseLine, fmt.Sprintf("returned=%s existed-before=%q still=%q step=%d name=%s", res, unlinkExisted, still, i, o.name))
				}
				if (res == "unlinked:true") != (unlinkExisted != "") {
					h.out.L2("unlink-wrong-bool", h.caseLine, fmt.Sprintf("returned=%s existed-before=%q step=%d name=%s", res, unlinkExisted, i, o.name))
				}
				for l, err := range h.c.Links() {
					if err == nil && !twin && strings.EqualFold(l, pathToName(filepath.ToSlash(want))) {
						h.out.L2("unlink-leaves-link", h.caseLine, fmt.Sprintf("returned=%s Links-still-lists=%q step=%d name=%s", res, l, i, o.name))
					}
				}
			}
		case "link":
			delete(h.linked, h.linkKey(o.name))
			if res == "ok" {
				why := "plain"
				switch {
				case beforeOK && len(before) == 0 && h.acked[o.d]:
					why = "acked-blob-zero-length"
				case beforeOK && len(before) == 0:
					why = "blob-file-zero-length"
				}
				h.linked[h.linkKey(o.name)], h.linkedWhy[h.linkKey(o.name)] = o.d, why
				// (C) a name is linked only to a manifest blob that exists (by the cache's own Get)
				// (the empty blob is stored as an empty file, which Get never reports present — by design; linking
				// the empty manifest is what upstream's TestPushZero does)
				if getBeforeErr != nil && !(o.d == vDigestOf(nil) && beforeOK && len(before) == 0) {
					detail := "blob-file-missing"
					if beforeOK && len(before) == 0 {
						detail = "blob-file-zero-length"
						if h.acked[o.d] {
							detail = "acked-blob-zero-length"
						}
					}
					h.out.L2("link-absent-blob", h.caseLine, fmt.Sprintf("%s step=%d name=%s", detail, i, o.name))
				}
				// (D) after Link(name, d) = ok the bytes linked under name are d's bytes
				now, err := os.ReadFile(h.manifestFile(o.name))
				if err != nil || vDigestOf(now) != o.d {
					detail := "other"
					switch {
					case beforeOK && len(before) == 0 && h.acked[o.d]:
						detail = "acked-blob-zero-length"
					case beforeOK && len(before) == 0:
						detail = "blob-file-zero-length"
					case manBeforeOK && beforeOK && len(manBefore) == len(before) && !bytes.Equal(manBefore, before):
						detail = "relink-same-size"
					}
					h.out.L2("link-ok-wrong-manifest", h.caseLine,
						fmt.Sprintf("%s step=%d name=%s linked=%s want=%s", detail, i, o.name, vDigestOf(now).Short(), o.d.Short()))
				}
			} else if manBeforeOK {
				// (F) a refused Link leaves the existing link alone
				now, err := os.ReadFile(h.manifestFile(o.name))
				if err != nil || !bytes.Equal(now, manBefore) {
					h.out.L2("failed-link-clobbers-manifest", h.caseLine,
						fmt.Sprintf("res=%s step=%d name=%s before=%s after=%s", res, i, o.name, zzverif.Hex(manBefore), zzverif.Hex(now)))
				}
			}
		case "resolve":
			if dg != nil && !strings.Contains(o.name, "@") {
				// (E) Resolve returns the digest of exactly the bytes linked, and makes them a blob
				if lim := vReadLimit(); manBeforeOK && len(manBefore) > lim && vDigestOf(manBefore[:lim]) == *dg {
					// finding F28: a manifest longer than readAndSum's limit resolves to the digest of its prefix
					h.out.L2("resolve-not-hash-of-file", h.caseLine, fmt.Sprintf("oversize-manifest size=%d read-limit=%d resolved=digest-of-prefix step=%d name=%s", len(manBefore), lim, i, o.name))
					h.out.Count("branch_resolve_oversize_prefix")
					h.noteStored(*dg, int64(lim))
					delete(h.linked, h.linkKey(o.name))
					break
				}
				if !manBeforeOK || vDigestOf(manBefore) != *dg {
					h.out.L2("resolve-not-hash-of-file", h.caseLine, fmt.Sprintf("step=%d name=%s", i, o.name))
				}
				h.noteStored(*dg, int64(len(manBefore)))
				if !h.f10Holey(*dg) {
					h.checkStored(i, "resolve", *dg, int64(len(manBefore)))
				}
				// Link(name, d) = ok earlier, nothing touched the name since ⇒ Resolve(name) = d = sha256(bytes linked)
				if ld, ok := h.linked[h.linkKey(o.name)]; ok {
					h.out.Count("l2_link_then_resolve_checked")
					if ld != *dg {
						h.out.L2("link-then-resolve-differs", h.caseLine, fmt.Sprintf("%s step=%d name=%s linked=%s resolved=%s",
							h.linkedWhy[h.linkKey(o.name)], i, o.name, ld.Short(), dg.Short()))
					}
				}
			}
		}
		h.checkAllPresent(i, o)
		h.checkAcked(i, o)
		h.checkLinks(i, o, res)
	}
	return results, keys
}

// vReadLimit: the limit Resolve / Link pass to readAndSum, extracted from the source by the check
func vReadLimit() int { return zzverif.EnvInt("VERIF_C08_RLIM", 1<<20) }

// findFold: the manifest file (relative path) that name denotes under case folding, found by the driver's own
// directory listing (independent of manifestPath); "" if none or the name is invalid.
func (h *vHist) findFold(name string) string {
	want, err := nameToPath(name)
	if err != nil {
		return ""
	}
	ms, _ := fs.Glob(os.DirFS(h.dir), "manifests/*/*/*/*")
	for _, m := range ms {
		if strings.EqualFold(m, filepath.ToSlash(filepath.Join("manifests", want))) {
			return m
		}
	}
	return ""
}

// checkLinks: Links() lists exactly the manifests on disk (driver's own listing), a name just linked is among
// them, and no two manifests are equal under case folding (names are case-insensitive: Link must reuse the
// existing spelling).
func (h *vHist) checkLinks(step int, o vOp, res string) {
	if o.kind != "link" && o.kind != "unlink" {
		return
	}
	h.out.Count("l2_links_checked")
	ms, _ := fs.Glob(os.DirFS(h.dir), "manifests/*/*/*/*")
	var want []string
	for _, m := range ms {
		want = append(want, pathToName(m))
	}
	var got []string
	for l, err := range h.c.Links() {
		if err != nil {
			got = append(got, "error:"+strings.ReplaceAll(err.Error(), " ", "_"))
			break
		}
		got = append(got, l)
	}
	if strings.Join(got, "\x00") != strings.Join(want, "\x00") {
		h.out.L2("links-differ-from-disk", h.caseLine, fmt.Sprintf("step=%d op=%s Links=%q disk=%q", step, o.kind, got, want))
	}
	for i := 1; i < len(ms); i++ {
		for j := 0; j < i; j++ {
			if strings.EqualFold(ms[i], ms[j]) && !h.handTwins[strings.ToLower(ms[i])] {
				h.out.L2("case-twin-manifests", h.caseLine, fmt.Sprintf("step=%d op=%s %q %q", step, o.kind, ms[j], ms[i]))
			}
		}
	}
	if o.kind == "link" && res == "ok" && h.findFold(o.name) == "" {
		h.out.L2("links-differ-from-disk", h.caseLine, fmt.Sprintf("linked-name-not-on-disk step=%d name=%s", step, o.name))
	}
}

// linkKey identifies the manifest a name denotes (case-insensitively), or "" for an invalid name.
func (h *vHist) linkKey(name string) string {
	return strings.ToLower(h.manifestFile(name))
}

func vResClass(res string) string {
	if strings.HasPrefix(res, "dig:") || strings.HasPrefix(res, "entry:") {
		return res[:strings.IndexByte(res, ':')]
	}
	return res
}

// dump renders the final disk like the oracle's `hist` command.
func (h *vHist) dump(keys map[Digest]bool) string {
	hs := make([]string, 0, len(keys))
	for d := range keys {
		hs = append(hs, vHexD(d))
	}
	sort.Strings(hs)
	var blobs []string
	present := 0
	for _, hx := range hs {
		if b, ok := h.blobBytes(vUnhexD(hx)); ok {
			blobs = append(blobs, hx[:8]+"="+zzverif.Hex(b))
			present++
		}
	}
	extra := ""
	if ents, err := os.ReadDir(filepath.Join(h.dir, "blobs")); err != nil || len(ents) != present {
		extra = fmt.Sprintf(" EXTRA-BLOB-FILES(%d!=%d)", len(ents), present)
	}
	var mans []string
	ms, _ := fs.Glob(os.DirFS(h.dir), "manifests/*/*/*/*")
	for _, m := range ms {
		parts := strings.Split(strings.TrimPrefix(m, "manifests/"), "/")
		for i := range parts {
			parts[i] = zzverif.Hex([]byte(parts[i]))
		}
		b, _ := os.ReadFile(filepath.Join(h.dir, m))
		mans = append(mans, strings.Join(parts, "/")+"="+zzverif.Hex(b))
	}
	return fmt.Sprintf("%s | %s%s", strings.Join(blobs, ","), strings.Join(mans, ","), extra)
}

func vGenHist(r *zzverif.Rng) []vOp {
	// contents: several share a size (the same-size shortcuts are what the property hinges on)
	sizes := []int{0, 1, 7, 7, 12, 12, r.Range(2, 24)}
	var contents [][]byte
	for _, n := range sizes {
		contents = append(contents, r.Bytes(n))
	}
	bogus := Digest{}
	copy(bogus.sum[:], r.Bytes(32))
	// hostile names: parts that begin with '.', "." and ".." parts, and names whose would-be manifest path
	// lands on a blob file of this history (manifests/../blobs/./sha256-<hex>)
	hostile := []string{"../n/m:t", "h/../m:t", "h/n/..:t", "h/n/m:..", "./n/m:t", "h/n/.:t", ".../n/m:t", "h/n/.m:t", "h/n/m:.t",
		"..:80/n/m:t", "-h/n/m:t", "h/-n/m:t", "../blobs/x:y", "../../x/y:z"}
	for _, ci := range []int{2, 3, 4} {
		hostile = append(hostile, "../blobs/.:sha256-"+vHexD(vDigestOf(contents[ci])))
	}
	pickName := func() string {
		if r.Chance(1, 6) {
			return zzverif.Pick(r, hostile)
		}
		return zzverif.Pick(r, vNames)
	}
	var imported []Digest
	nops := r.Range(4, 26)
	var ops []vOp
	pickD := func() (Digest, []byte) {
		if r.Chance(1, 12) {
			return bogus, r.Bytes(r.Range(0, 9))
		}
		if len(imported) > 0 && r.Chance(1, 8) {
			return zzverif.Pick(r, imported), nil
		}
		c := zzverif.Pick(r, contents)
		return vDigestOf(c), c
	}
	// scenario prefixes aimed at the branches the property hinges on (then the random walk continues)
	switch r.Intn(8) {
	case 0: // re-link of a name to a different manifest of the SAME size
		name := zzverif.Pick(r, vNames[:8])
		a, b := contents[2], contents[3]
		ops = append(ops, vOp{kind: "put", d: vDigestOf(a), size: 7, s: vMkScript(r, a, "exact", false)},
			vOp{kind: "put", d: vDigestOf(b), size: 7, s: vMkScript(r, b, "exact", false)},
			vOp{kind: "link", name: name, d: vDigestOf(a)}, vOp{kind: "link", name: name, d: vDigestOf(b)},
			vOp{kind: "resolve", name: name})
	case 1: // failed Put, then Link to it
		c := contents[r.Range(1, len(contents)-1)]
		ops = append(ops, vOp{kind: "put", d: vDigestOf(c), size: int64(len(c)), s: vMkScript(r, c, zzverif.Pick(r, []string{"short", "flip", "errk", "long"}), false)},
			vOp{kind: "link", name: zzverif.Pick(r, vNames[:8]), d: vDigestOf(c)})
	case 2: // re-link to a different size, resolve, unlink, resolve
		name := zzverif.Pick(r, vNames[:8])
		a, b := contents[1], contents[4]
		ops = append(ops, vOp{kind: "put", d: vDigestOf(a), size: int64(len(a)), s: vMkScript(r, a, "exact", false)},
			vOp{kind: "put", d: vDigestOf(b), size: int64(len(b)), s: vMkScript(r, b, "exact1", false)},
			vOp{kind: "link", name: name, d: vDigestOf(b)}, vOp{kind: "link", name: strings.ToUpper(name), d: vDigestOf(a)},
			vOp{kind: "resolve", name: name})
	}
	switch r.Intn(10) {
	case 3: // Link under one spelling, Unlink / Resolve under another, re-Link (hooked), Unlink
		name := zzverif.Pick(r, []string{"h/n/m:t", "Host.x:80/Ns/Model:Tag", "a-b/n/m:t"})
		other := zzverif.Pick(r, []string{strings.ToUpper(name), strings.ToLower(name), name})
		a, b := contents[r.Range(1, 3)], contents[r.Range(3, 5)]
		ops = append(ops, vOp{kind: "put", d: vDigestOf(a), size: int64(len(a)), s: vMkScript(r, a, "exact", false)},
			vOp{kind: "put", d: vDigestOf(b), size: int64(len(b)), s: vMkScript(r, b, "exact", false)},
			vOp{kind: "link", name: name, d: vDigestOf(a), hook: r.Bool()}, vOp{kind: "link", name: other, d: vDigestOf(b), hook: r.Bool()},
			vOp{kind: "unlink", name: other}, vOp{kind: "resolve", name: name}, vOp{kind: "unlink", name: name})
	case 2: // two stored blobs of one size; Link / Resolve / Unlink through a name aimed at the first one's file
		a, b := contents[2], contents[3]
		name := "../blobs/.:sha256-" + vHexD(vDigestOf(a))
		ops = append(ops, vOp{kind: "put", d: vDigestOf(a), size: 7, s: vMkScript(r, a, "exact", false)},
			vOp{kind: "put", d: vDigestOf(b), size: 7, s: vMkScript(r, b, "exact", false)},
			vOp{kind: "link", name: name, d: vDigestOf(b)}, vOp{kind: "get", d: vDigestOf(a)},
			vOp{kind: "resolve", name: name}, vOp{kind: "unlink", name: name}, vOp{kind: "get", d: vDigestOf(a)})
	case 4: // a stored, acknowledged blob; Put of the same digest under a negative size from a source that delivers nothing
		c := contents[r.Range(1, len(contents)-1)]
		d := vDigestOf(c)
		ops = append(ops, vOp{kind: "put", d: d, size: int64(len(c)), s: vMkScript(r, c, "exact", false)},
			vOp{kind: "putneg", d: d, size: vNegSize(r), s: vMkScript(r, nil, "exact", r.Bool())}, vOp{kind: "get", d: d})
	case 5: // a manifest written behind the cache's back (no such blob): Resolve adopts it; then a second spelling
		c := contents[r.Range(1, len(contents)-1)]
		name := zzverif.Pick(r, []string{"h/n/m:t", "Host.x:80/Ns/Model:Tag", "a-b/n/m:t"})
		ops = append(ops, vOp{kind: "edit", name: name, data: c}, vOp{kind: "resolve", name: strings.ToUpper(name)},
			vOp{kind: "get", d: vDigestOf(c)}, vOp{kind: "edit", name: strings.ToUpper(name), data: contents[1]},
			vOp{kind: "resolve", name: name}, vOp{kind: "unlink", name: name}, vOp{kind: "resolve", name: name})
	case 0, 1: // a failed / partial earlier store of d, then Import of the true bytes, then Get / Link / Resolve
		c := contents[r.Range(1, len(contents)-1)]
		d := vDigestOf(c)
		name := zzverif.Pick(r, vNames[:8])
		if r.Chance(2, 3) {
			ops = append(ops, vOp{kind: "put", d: d, size: int64(len(c)), s: vMkScript(r, c, zzverif.Pick(r, []string{"short", "flip", "errk", "long", "other"}), false)})
		} else if len(c) >= 2 { // a low chunk only: a short file, like a writer that died mid-copy
			b := int64(r.Intn(len(c) - 1))
			ops = append(ops, vOp{kind: "chunk", d: d, size: int64(len(c)), start: 0, stop: b, cd: vDigestOf(c[:b+1]), data: c, s: vMkScript(r, c[:b+1], "exact", false)})
		}
		ops = append(ops, vOp{kind: "import", size: int64(len(c)), s: vMkScript(r, c, zzverif.Pick(r, []string{"exact", "exact1"}), false)},
			vOp{kind: "get", d: d}, vOp{kind: "link", name: name, d: d}, vOp{kind: "resolve", name: name})
	}
	if len(ops) > 0 {
		ops[0].scen = true
	}
	for len(ops) < nops {
		switch x := r.Intn(100); {
		case x < 2:
			d, c := pickD()
			var sc vScript
			switch r.Intn(4) {
			case 0, 1:
				sc = vMkScript(r, nil, "exact", true)
			case 2:
				sc = vMkScript(r, c, "exact", true)
			default:
				sc = vMkScript(r, c, "errk", true)
			}
			ops = append(ops, vOp{kind: "putneg", d: d, size: vNegSize(r), s: sc})
		case x < 5:
			data := r.Bytes(zzverif.Pick(r, []int{0, 1, 7, 12, 5}))
			if r.Chance(1, 2) {
				data = zzverif.Pick(r, contents)
			}
			ops = append(ops, vOp{kind: "edit", name: pickName(), data: data})
		case x < 28:
			d, c := pickD()
			size := int64(len(c))
			if r.Chance(1, 8) {
				size = int64(zzverif.Pick(r, []int{0, len(c) + 1, max(len(c)-1, 0), 7, 12}))
			}
			ops = append(ops, vOp{kind: "put", d: d, size: size, s: vMkScript(r, c, zzverif.Pick(r, vScriptKinds), true)})
		case x < 35:
			c := r.Bytes(zzverif.Pick(r, []int{0, 1, 7, 12, 5}))
			if r.Chance(1, 2) {
				c = zzverif.Pick(r, contents) // a digest that Put / Chunked / an earlier failure may already have touched
			}
			s := vMkScript(r, c, zzverif.Pick(r, []string{"exact", "exact", "exact", "short", "long", "errk"}), true)
			size := int64(len(c))
			ops = append(ops, vOp{kind: "import", size: size, s: s})
			if s.kind == "exact" {
				imported = append(imported, vDigestOf(c))
			}
		case x < 45:
			d, _ := pickD()
			ops = append(ops, vOp{kind: "get", d: d})
		case x < 63:
			d, _ := pickD()
			ops = append(ops, vOp{kind: "link", name: pickName(), d: d, hook: r.Chance(1, 3)})
		case x < 70:
			ops = append(ops, vOp{kind: "unlink", name: pickName()})
		case x < 88:
			name := pickName()
			if r.Chance(1, 10) {
				d, _ := pickD()
				name = zzverif.Pick(r, []string{"", "h/n/m:t", "x"}) + "@" + zzverif.Pick(r, []string{"sha256:", "sha256-", "sha255:", "sha256"}) + vHexD(d)[:zzverif.Pick(r, []int{64, 64, 64, 63})]
			}
			ops = append(ops, vOp{kind: "resolve", name: name})
		default:
			c := contents[r.Range(2, len(contents)-1)]
			d := vDigestOf(c)
			size := int64(len(c))
			a := int64(r.Intn(len(c)))
			b := a + int64(r.Intn(len(c)-int(a)))
			if r.Chance(1, 10) {
				b += int64(r.Range(1, 3)) // chunk reaching past the declared size
			}
			var part []byte
			if int(b) < len(c) {
				part = c[a : b+1]
			} else {
				part = append(append([]byte(nil), c[a:]...), r.Bytes(int(b)+1-len(c))...)
			}
			cd := vDigestOf(part)
			if r.Chance(1, 10) {
				cd = bogus
			}
			if r.Chance(1, 3) {
				ops = append(ops, vGenSession(r, c, bogus))
				continue
			}
			ops = append(ops, vOp{kind: "chunk", d: d, size: size, start: a, stop: b, cd: cd, data: c,
				s: vMkScript(r, part, zzverif.Pick(r, []string{"exact", "exact", "exact", "exact1", "short", "long", "flip", "errk"}), true)})
		}
	}
	return ops
}

// vGenSession: one Chunker, several Puts.  Half of the sessions tile the true content in order from good sources (a complete
// chunked download); the others shuffle, drop, repeat or corrupt chunks, or reach past the declared size.
func vGenSession(r *zzverif.Rng, c []byte, bogus Digest) vOp {
	o := vOp{kind: "session", d: vDigestOf(c), size: int64(len(c)), data: c, complete: true}
	var cuts []int
	for off := 0; off < len(c); {
		n := r.Range(1, len(c)-off)
		if r.Chance(1, 2) && n > 4 {
			n = r.Range(1, 4)
		}
		cuts = append(cuts, off)
		off += n
	}
	for i, a := range cuts {
		b := len(c) - 1
		if i+1 < len(cuts) {
			b = cuts[i+1] - 1
		}
		part := c[a : b+1]
		o.puts = append(o.puts, vOp{kind: "chunk", d: o.d, size: o.size, start: int64(a), stop: int64(b), cd: vDigestOf(part),
			s: vMkScript(r, part, zzverif.Pick(r, []string{"exact", "exact", "exact1"}), true)})
	}
	if r.Chance(1, 2) {
		return o
	}
	o.complete = false
	for n := r.Range(1, 3); n > 0 && len(o.puts) > 0; n-- {
		i := r.Intn(len(o.puts))
		switch r.Intn(5) {
		case 0: // drop
			o.puts = append(o.puts[:i], o.puts[i+1:]...)
		case 1: // swap with another
			j := r.Intn(len(o.puts))
			o.puts[i], o.puts[j] = o.puts[j], o.puts[i]
		case 2: // a faulty source
			q := o.puts[i]
			q.s = vMkScript(r, c[q.start:q.stop+1], zzverif.Pick(r, []string{"short", "long", "flip", "errk", "other"}), true)
			o.puts[i] = q
		case 3: // wrong chunk digest
			o.puts[i].cd = bogus
		default: // repeat
			o.puts = append(o.puts, o.puts[i])
		}
	}
	return o
}

// vNegSize: some negative int64 (the model does not distinguish them)
func vNegSize(r *zzverif.Rng) int64 {
	return zzverif.Pick(r, []int64{-1, -1, -2, -7, -1 << 40, -1 << 63})
}

// vWeirdDirs: cache directory names with glob metacharacters, spaces, a trailing dot, non-ASCII.  The cache's
// behaviour must not depend on the PATH of its directory (the model has no such parameter, which is why L1 is exact
// in these directories too); a share of the histories and the directed scenarios run in them.
var vWeirdDirs = []string{"models [v2]", "a]b", "st*ar", "q?m", `back\slash`, "with space", "dot.", "üñí-日本語", "[", "{x,y}", "[a-z]*", "-dash", "x[!y]z"}

// vHistDir picks the cache directory of a history from its case seed (so that a replay uses the same one)
func vHistDir(base string, idx int, cs uint64, ops []vOp) string {
	scen := len(ops) > 0 && ops[0].scen
	if cs%5 == 0 || (scen && cs%2 == 0) {
		return filepath.Join(base, fmt.Sprintf("h%d", idx), vWeirdDirs[int(cs/5%uint64(len(vWeirdDirs)))])
	}
	return filepath.Join(base, fmt.Sprintf("h%d", idx))
}

func vRunHist(t *testing.T, out *zzverif.Out, base string, idx int, caseLine string, ops []vOp, dir string) {
	if dir != filepath.Join(base, fmt.Sprintf("h%d", idx)) {
		out.Count("hist_cases_weird_dir")
		defer os.RemoveAll(filepath.Join(base, fmt.Sprintf("h%d", idx)))
	}
	c, err := Open(dir)
	if err != nil {
		t.Fatal(err)
	}
	defer os.RemoveAll(dir)
	h := &vHist{t: t, out: out, c: c, dir: dir, caseLine: caseLine, stored: map[Digest]map[int64]bool{}, lastWriter: map[Digest]string{}, acked: map[Digest]bool{}, linked: map[string]Digest{}, linkedWhy: map[string]string{}, handTwins: map[string]bool{}, truth: map[Digest][]byte{}, chunkDeviates: map[Digest]bool{}}
	results, keys := h.run(ops)
	out.Case(vHistLine(ops), strings.Join(results, ";")+" | "+h.dump(keys))
	out.Count("cases")
	out.Count("hist_cases")
}

func vHistLine(ops []vOp) string {
	parts := make([]string, len(ops))
	for i, o := range ops {
		parts[i] = o.String()
	}
	// which Link the model runs: 0 = pinned in-place, 1 = temp+rename (fix 834f6be9a), 2 = 1 + zero-length
	// refusal (proposed_fixes/C08-F8-zero.patch); detected from the source by the check
	variant := zzverif.EnvInt("VERIF_C08_FIXED", 0)
	// round 7: + is readAndSum strict (C08-F28.patch)?  is a negative size refused (C08-F29.patch)?  the read limit
	return fmt.Sprintf("histl %d %d %d %d %d %s", variant, zzverif.EnvInt("VERIF_C08_STRICT", 0), zzverif.EnvInt("VERIF_C08_REFUSE", 0),
		vReadLimit(), len(ops), strings.Join(parts, " "))
}

// ---------------------------------------------------------------- crash points (strace kill injection)

type vCrashCase struct {
	init    string // absent | - | hex
	op      vOp
	content []byte // the true content of the target digest (put / chunk)
	blob    string // link only: state of the blob file (absent | - | hex)
	via     string // "resolve": the Put is the PutBytes inside Resolve(name) of a prepared manifest holding `content`
}

const vCrashLinkName = "h/n/m:t"

func vCrashLinkPath(dir string) string { return filepath.Join(dir, "manifests", "h", "n", "m", "t") }

func (cc vCrashCase) spec() string {
	switch cc.op.kind {
	case "bigput": // content regenerated in the child from the seed kept in cc.blob
		return fmt.Sprintf("bigput %s %s %d", cc.init, cc.blob, cc.op.size)
	case "link": // crash link <Link variant> <manifest init> <blob file state> <digest>
		return fmt.Sprintf("link %d %s %s %s", zzverif.EnvInt("VERIF_C08_FIXED", 0), cc.init, cc.blob, vHexD(cc.op.d))
	case "put":
		return fmt.Sprintf("put %s %s %d %s", cc.init, vHexD(cc.op.d), cc.op.size, cc.op.s)
	case "import":
		return fmt.Sprintf("import %s %d %s", cc.init, cc.op.size, cc.op.s)
	case "chunk":
		return fmt.Sprintf("chunk %s %d %d %d %s %s", cc.init, cc.op.size, cc.op.start, cc.op.stop, vHexD(cc.op.cd), cc.op.s)
	}
	panic("bad crash op")
}

// target digest of the write (for import: the digest of the streamed data)
func (cc vCrashCase) target() Digest {
	if cc.op.kind == "import" {
		return vDigestOf(bytes.Join(cc.op.s.chunks, nil))
	}
	return cc.op.d
}

var vCrashKinds = map[string]string{ // model effect kind -> syscalls that implement it on linux
	"open":   "openat,open,creat",
	"write":  "write,pwrite64,writev,pwritev",
	"trunc":  "ftruncate,truncate,fallocate",
	"rename": "rename,renameat,renameat2",
	"unlink": "unlink,unlinkat",
}

// TestVerifC08Child is the child mode: perform exactly one cache write and record its result.
func TestVerifC08Child(t *testing.T) {
	spec := os.Getenv("VERIF_C08_CHILD")
	if spec == "" {
		t.Skip("child mode only")
	}
	runtime.LockOSThread() // strace's inject counters are per thread
	dir := os.Getenv("VERIF_C08_DIR")
	p := &vToks{t: strings.Fields(spec)}
	kind := p.next()
	_ = p.next() // init state: prepared by the parent
	o := vOp{kind: kind}
	switch kind {
	case "put":
		o.d, o.size, o.s = vUnhexD(p.next()), p.int(), p.script()
	case "import":
		o.size, o.s = p.int(), p.script()
	case "bigput": // bigput <init> <content seed> <size>: the content is regenerated from the seed
		seed, _ := strconv.ParseUint(p.next(), 10, 64)
		content := zzverif.NewRng(seed).Bytes(int(p.int()))
		o.kind, o.d, o.size, o.s = "put", vDigestOf(content), int64(len(content)), vScript{chunks: [][]byte{content}, end: "eof"}
	case "link":
		_, _ = p.next(), p.next() // manifest init (already consumed: variant), blob state: prepared by the parent
		o.name, o.d = vCrashLinkName, vUnhexD(p.next())
	case "chunk":
		o.d = vUnhexD(os.Getenv("VERIF_C08_DIGEST"))
		o.size, o.start, o.stop, o.cd, o.s = p.int(), p.int(), p.int(), vUnhexD(p.next()), p.script()
	}
	c, err := Open(dir)
	if err != nil {
		t.Fatal(err)
	}
	if os.Getenv("VERIF_C08_VIA") == "resolve" {
		o = vOp{kind: "resolve", name: vCrashLinkName} // its PutBytes is the Put the parent enumerates
	}
	res, _ := vExec(c, o)
	os.WriteFile(filepath.Join(dir, "result.txt"), []byte(res), 0o666)
}

func vPrepare(t *testing.T, dir string, d Digest, init string) *DiskCache {
	os.RemoveAll(dir)
	c, err := Open(dir)
	if err != nil {
		t.Fatal(err)
	}
	if init != "absent" {
		if err := os.WriteFile(c.GetFile(d), zzverif.Unhex(init), 0o666); err != nil {
			t.Fatal(err)
		}
	}
	return c
}

// vCrashRun executes the case in a child killed at the n-th syscall of the kind; returns "killed"/"survived".
func vCrashRun(t *testing.T, dir string, cc vCrashCase, c *DiskCache, kind string, n int) string {
	path := c.GetFile(cc.target())
	if cc.op.kind == "link" {
		path = vCrashLinkPath(dir)
	}
	sys := vCrashKinds[kind]
	cmd := exec.Command("strace", "-f", "-qq", "-o", "/dev/null", "-P", path,
		"-e", "trace="+sys, "-e", fmt.Sprintf("inject=%s:signal=KILL:when=%d", sys, n),
		os.Args[0], "-test.run=^TestVerifC08Child$", "-test.count=1")
	if kind == "trace" { // no injection: record every store syscall on the path
		all := []string{}
		for _, k := range []string{"open", "write", "trunc", "rename", "unlink"} {
			all = append(all, vCrashKinds[k])
		}
		cmd = exec.Command("strace", "-f", "-qq", "-o", filepath.Join(filepath.Dir(dir), "trace.txt"), "-P", path,
			"-e", "trace="+strings.Join(all, ","), os.Args[0], "-test.run=^TestVerifC08Child$", "-test.count=1")
	}
	tmp := filepath.Join(dir, "tmp")
	os.MkdirAll(tmp, 0o777)
	if cc.via == "resolve" {
		os.MkdirAll(filepath.Dir(vCrashLinkPath(dir)), 0o777)
		if err := os.WriteFile(vCrashLinkPath(dir), cc.content, 0o666); err != nil {
			t.Fatal(err)
		}
	}
	cmd.Env = append(os.Environ(), "VERIF_C08_CHILD="+cc.spec(), "VERIF_C08_DIR="+dir, "VERIF_C08_VIA="+cc.via,
		"VERIF_C08_DIGEST="+vHexD(cc.target()), "TMPDIR="+tmp)
	outb, err := cmd.CombinedOutput()
	if err == nil {
		return "survived"
	}
	var ee *exec.ExitError
	if errors.As(err, &ee) && (ee.ExitCode() == -1 || ee.ExitCode() == 137) {
		return "killed"
	}
	t.Fatalf("strace child failed: %v\n%s", err, outb)
	return ""
}

// vGenCrash: force = "" (random kind) | "put" | "import" (a complete one: reaches the rename) | "chunk"
func vGenCrash(r *zzverif.Rng, force string) vCrashCase {
	n := r.Range(1, 14)
	content := r.Bytes(n)
	d := vDigestOf(content)
	var init string
	switch r.Intn(5) {
	case 0, 1:
		init = "absent"
	case 2:
		init = zzverif.Hex(r.Bytes(r.Intn(n))) // shorter garbage (possibly empty)
	case 3:
		init = zzverif.Hex(r.Bytes(n + r.Range(1, 4))) // longer garbage
	default:
		init = zzverif.Hex(content[:r.Intn(n)]) // a previous crash's partial file
	}
	x := r.Intn(10)
	switch force {
	case "resolve": // Resolve(name) of a hand-written manifest: PutBytes(sha256(content), content) from any prior blob state
		return vCrashCase{content: content, init: init, via: "resolve", op: vOp{kind: "put", d: d, size: int64(n), s: vScript{chunks: [][]byte{content}, end: "eof", kind: "exact"}}}
	case "put":
		x = 0
	case "import":
		x = 7
	case "chunk":
		x = 9
	}
	switch {
	case x < 7:
		kind := zzverif.Pick(r, []string{"exact", "exact", "exact1", "exact1", "exact1", "short", "long", "flip", "errk", "other"})
		return vCrashCase{content: content, init: init, op: vOp{kind: "put", d: d, size: int64(n), s: vMkScript(r, content, kind, false)}}
	case x < 8:
		kind := zzverif.Pick(r, []string{"exact", "exact1", "short", "errk"})
		if force == "import" {
			kind = zzverif.Pick(r, []string{"exact", "exact1"})
		}
		s := vMkScript(r, content, kind, false)
		if s.end == "eof" && kind != "short" {
			// the blob name is the digest of what is streamed
			return vCrashCase{content: content, init: init, op: vOp{kind: "import", size: int64(n), s: s}}
		}
		return vCrashCase{content: content, init: "absent", op: vOp{kind: "import", size: int64(n), s: s}}
	default:
		a := r.Intn(n)
		b := a + r.Intn(n-a)
		part := content[a : b+1]
		kind := zzverif.Pick(r, []string{"exact", "exact1", "short", "flip", "errk"})
		return vCrashCase{content: content, init: init, op: vOp{kind: "chunk", d: d, size: int64(n), start: int64(a), stop: int64(b), cd: vDigestOf(part),
			s: vMkScript(r, part, kind, false)}}
	}
}

func vRunCrash(t *testing.T, out *zzverif.Out, base string, caseLine string, cc vCrashCase) {
	dir := filepath.Join(base, "crash")
	defer os.RemoveAll(dir)
	d := cc.target()
	size := cc.op.size
	out.Count("cases")
	if cc.via != "" {
		out.Count("crash_cases_" + cc.via)
	} else {
		out.Count("crash_cases_" + cc.op.kind)
	}
	if cc.op.kind == "put" || cc.op.kind == "chunk" {
		// the REAL syscall trace of the store: exact L1 against the model's effect list, and the shape predicate
		c := vPrepare(t, dir, d, cc.init)
		len0 := int64(0)
		if cc.init != "absent" {
			len0 = int64(len(zzverif.Unhex(cc.init)))
		}
		shapeSize := size
		if cc.op.kind == "chunk" {
			shapeSize = 0 // a chunk write is not a whole-file store: F10-cache; only the L1 on its trace
		}
		effs := vTraceCheck(t, out, dir, cc, c, caseLine+" :: trace "+cc.spec(), shapeSize, len0)
		if len(effs) == 0 {
			effs = []string{"-"}
		}
		out.Case("trace "+cc.spec(), strings.Join(effs, " "))
	}
	for _, kind := range []string{"open", "write", "trunc", "rename"} {
		for n := 1; n < 200; n++ {
			c := vPrepare(t, dir, d, cc.init)
			outcome := vCrashRun(t, dir, cc, c, kind, n)
			st := vState(c.GetFile(d))
			op := fmt.Sprintf("crash %s %s %d", cc.spec(), kind, n)
			line := caseLine + " :: " + op
			if outcome == "survived" {
				res, _ := os.ReadFile(filepath.Join(dir, "result.txt"))
				rs := string(res)
				if strings.HasPrefix(rs, "dig:") {
					rs = "ok"
				}
				out.Case(op, "survived "+st+" "+rs)
				out.Count("crash_runs_survived")
			} else {
				out.Case(op, "killed "+st)
				out.Count("crash_runs_killed_" + kind)
			}
			// L2: whatever a crash leaves behind, a file of the stored size has the right content ...
			if e, err := c.Get(d); err == nil && e.Size == size {
				out.Count("crash_full_size_states")
				b, _ := os.ReadFile(c.GetFile(d))
				if vDigestOf(b) != d {
					detail := "plain"
					if cc.op.kind == "chunk" {
						init := []byte(nil)
						if cc.init != "absent" {
							init = zzverif.Unhex(cc.init)
						}
						detail = fmt.Sprintf("last-writer=chunk as-designed=%v", vExplained(b, cc.content, init, cc.op))
					}
					out.L2("crash-present-wrong-content", line, fmt.Sprintf("%s outcome=%s file=%s", detail, outcome, zzverif.Hex(b)))
				}
			}
			// an acknowledged store (child survived, result ok) is retrievable
			if outcome == "survived" && cc.op.kind != "chunk" && size > 0 {
				res, _ := os.ReadFile(filepath.Join(dir, "result.txt"))
				if rs := string(res); rs == "ok" || strings.HasPrefix(rs, "dig:") {
					out.Count("l2_store_checked_crash_" + cc.op.kind)
					e, err := c.Get(d)
					b, _ := os.ReadFile(c.GetFile(d))
					if err != nil || e.Size != size || vDigestOf(b) != d {
						out.L2("store-ok-not-retrievable", line, fmt.Sprintf("via=crash-%s init=%s get=%v,%d file=%s", cc.op.kind, cc.init, err, e.Size, zzverif.Hex(b)))
					}
				}
			}
			// ... and a retry with the true content repairs or completes it (put only: content known);
			// odd crash points retry through Import, even ones through Put
			if cc.op.kind == "put" && outcome == "killed" && n%2 == 1 && vDigestOf(cc.content) == d {
				out.Count("l2_store_checked_crash_retry_import")
				got, err := c.Import(bytes.NewReader(cc.content), size)
				e, gerr := c.Get(d)
				b, _ := os.ReadFile(c.GetFile(d))
				if err != nil || got != d || gerr != nil || e.Size != size || !bytes.Equal(b, cc.content) {
					out.L2("store-ok-not-retrievable", line, fmt.Sprintf("via=import-after-crash err=%v get=%v,%d file=%s", err, gerr, e.Size, zzverif.Hex(b)))
				}
			} else if cc.op.kind == "put" && outcome == "killed" {
				content := cc.content
				if vDigestOf(content) == d {
					err := c.Put(d, bytes.NewReader(content), size)
					b, _ := os.ReadFile(c.GetFile(d))
					if err != nil || !bytes.Equal(b, content) {
						out.L2("crash-retry-not-repaired", line, fmt.Sprintf("err=%v file=%s", err, zzverif.Hex(b)))
					}
				}
			}
			if outcome == "survived" {
				break
			}
		}
	}
}

// vGenCrashLink: one Link(name, d) from a prepared manifest state (first link / replacement of an existing link of
// another size / of the same size / same content / empty) and blob file state.
func vGenCrashLink(r *zzverif.Rng) vCrashCase {
	n := r.Range(1, 14)
	content := r.Bytes(n)
	d := vDigestOf(content)
	cc := vCrashCase{content: content, op: vOp{kind: "link", name: vCrashLinkName, d: d}}
	switch x := r.Intn(20); {
	case x < 16:
		cc.blob = zzverif.Hex(content)
	case x < 18:
		cc.blob = zzverif.Hex(r.Bytes(n)) // same size, does not hash to d
	case x < 19:
		cc.blob = "-"
	default:
		cc.blob = "absent"
	}
	switch x := r.Intn(10); {
	case x < 4:
		cc.init = "absent" // first link of the name
	case x < 6:
		cc.init = zzverif.Hex(r.Bytes(n + r.Range(1, 5)))
	case x < 8:
		cc.init = zzverif.Hex(r.Bytes(n))
	case x < 9:
		cc.init = zzverif.Hex(content)
	default:
		cc.init = "-"
	}
	return cc
}

// vRunCrashLink kills the child inside Link at every syscall on the MANIFEST path (its open for readAndSum, the
// rename; under an in-place Link also the create, the write, the ftruncate / unlink of the error path).
func vRunCrashLink(t *testing.T, out *zzverif.Out, base string, caseLine string, cc vCrashCase) {
	dir := filepath.Join(base, "crash")
	defer os.RemoveAll(dir)
	d := cc.op.d
	out.Count("cases")
	out.Count("crash_cases_link")
	mpath := vCrashLinkPath(dir)
	for _, kind := range []string{"open", "write", "trunc", "rename", "unlink"} {
		for n := 1; n < 50; n++ {
			os.RemoveAll(dir)
			c, err := Open(dir)
			if err != nil {
				t.Fatal(err)
			}
			if cc.blob != "absent" {
				os.WriteFile(c.GetFile(d), zzverif.Unhex(cc.blob), 0o666)
			}
			if cc.init != "absent" {
				os.MkdirAll(filepath.Dir(mpath), 0o777)
				os.WriteFile(mpath, zzverif.Unhex(cc.init), 0o666)
			}
			outcome := vCrashRun(t, dir, cc, c, kind, n)
			st := vState(mpath)
			op := fmt.Sprintf("crash %s %s %d", cc.spec(), kind, n)
			line := caseLine + " :: " + op
			rs := ""
			if outcome == "survived" {
				res, _ := os.ReadFile(filepath.Join(dir, "result.txt"))
				rs = string(res)
				out.Case(op, "survived "+st+" "+rs)
				out.Count("crash_runs_survived")
			} else {
				out.Case(op, "killed "+st)
				out.Count("crash_runs_killed_link_" + kind)
			}
			// L2 after every cut: if the name resolves, it resolves to a digest that an acknowledged Link (the prepared
			// manifest) or the in-flight one asked for — and the manifest's bytes hash to it
			if g, err := os.ReadFile(mpath); err == nil {
				out.Count("l2_crash_link_resolves_checked")
				got := vDigestOf(g)
				if got != d && !(cc.init != "absent" && got == vDigestOf(zzverif.Unhex(cc.init))) {
					first := "relink"
					if cc.init == "absent" {
						first = "first-link"
					}
					out.L2("crash-link-unasked-digest", line, fmt.Sprintf("%s outcome=%s manifest=%s resolves-to=%s asked=%s", first, outcome, zzverif.Hex(g), got.Short(), d.Short()))
				}
				if rd, err := c.Resolve(vCrashLinkName); err != nil || rd != got {
					out.L2("resolve-not-hash-of-file", line, fmt.Sprintf("after-crash err=%v", err))
				}
			}
			if outcome == "survived" && rs == "ok" {
				if g, err := os.ReadFile(mpath); err != nil || vDigestOf(g) != d {
					out.L2("link-ok-wrong-manifest", line, fmt.Sprintf("crash-phase manifest=%s want=%s", vState(mpath), d.Short()))
				}
			}
			if outcome == "survived" {
				break
			}
		}
	}
}

// ---------------------------------------------------------------- real syscall traces of stores

var (
	vReOpen  = regexp.MustCompile(`^\d+\s+(?:openat\(AT_FDCWD, |open\(|creat\()"[^"]*", ([A-Z_|0-9]+)`)
	vReWrite = regexp.MustCompile(`^\d+\s+write\(\d+, .*, \d+\)\s+= (\d+)$`)
	vRePwr   = regexp.MustCompile(`^\d+\s+pwrite64\(\d+, .*, \d+, (\d+)\)\s+= (\d+)$`)
	vReTrunc = regexp.MustCompile(`^\d+\s+f?truncate\((?:\d+|"[^"]*"), (\d+)\)\s+= 0$`)
	vReFall  = regexp.MustCompile(`^\d+\s+fallocate\(\d+, ([^,]+), (\d+), (\d+)\)\s+= 0$`)
	vReRen   = regexp.MustCompile(`^\d+\s+rename(?:at2?)?\(`)
	vReUnl   = regexp.MustCompile(`^\d+\s+unlink(?:at)?\(.*= 0$`)
	// "<pid> write(3, "..."..., 32768 <unfinished ...>"  /  "<pid> <... write resumed>) = 32768"
	vReStoreCall  = regexp.MustCompile(`^\d+\s+(?:open|openat|creat|write|pwrite64|ftruncate|truncate|fallocate|rename|renameat|renameat2|unlink|unlinkat)\(`)
	vReUnfinished = regexp.MustCompile(`^((\d+)\s+.*) <unfinished \.\.\.>$`)
	vReResumed    = regexp.MustCompile(`^(\d+)\s+<\.\.\. (\w+) resumed>(.*)$`)
)

// vParseTrace turns the strace log of one store into length effects, rendered like the oracle's `trace` command:
// o<trunc> w<off>:<n> t<n> u  (sequential write(2)s get their offsets from a per-open position; renames are "r").
func vParseTrace(t *testing.T, file string) []string {
	raw, err := os.ReadFile(file)
	if err != nil {
		t.Fatal(err)
	}
	var effs []string
	pos := int64(0)
	// strace -f splits a syscall into "<unfinished ...>" / "<... name resumed>" halves whenever another thread's line
	// (typically the Go runtime's SIGURG preemption signal) is printed while it is in progress: re-join the halves per
	// pid at the place of the resumed half (a writer is pinned to one thread, so its own order is unaffected)
	pending := map[string]string{}
	for _, line := range strings.Split(strings.TrimSpace(string(raw)), "\n") {
		if m := vReUnfinished.FindStringSubmatch(line); m != nil {
			pending[m[2]] = m[1]
			continue
		}
		if m := vReResumed.FindStringSubmatch(line); m != nil {
			head, ok := pending[m[1]]
			if !ok {
				if !vReStoreCall.MatchString(m[1] + " " + m[2] + "(") {
					continue // the second half of a syscall this parser does not speak about
				}
				t.Fatalf("verif: strace resumed half without its first half: %q", line)
			}
			delete(pending, m[1])
			line = head + m[3]
		}
		switch {
		case line == "" || strings.Contains(line, "+++ exited") || strings.Contains(line, "+++ killed") || strings.Contains(line, "--- SIG") || strings.Contains(line, "<detached ...>"):
		case !vReStoreCall.MatchString(line):
			// not one of the store syscalls this parser speaks about: strace noise that depends on timing ("???() = ?"
			// for a thread that exits while strace attaches, exit_group, ...).  Lines that DO name a store syscall and
			// cannot be parsed still fail closed below.
		case strings.HasSuffix(line, "= ?"):
			// the syscall never returned (the process exited during it): no effect to record
		case vReOpen.MatchString(line):
			flags := vReOpen.FindStringSubmatch(line)[1]
			if strings.Contains(line, "= -1") || (strings.Contains(flags, "O_RDONLY") && !strings.Contains(flags, "O_CREAT")) {
				continue // failed open / read-only open: no store effect
			}
			pos = 0
			if strings.Contains(flags, "O_TRUNC") {
				effs = append(effs, "o1")
			} else {
				effs = append(effs, "o0")
			}
		case vReWrite.MatchString(line):
			n, _ := strconv.ParseInt(vReWrite.FindStringSubmatch(line)[1], 10, 64)
			effs = append(effs, fmt.Sprintf("w%d:%d", pos, n))
			pos += n
		case vRePwr.MatchString(line):
			m := vRePwr.FindStringSubmatch(line)
			effs = append(effs, fmt.Sprintf("w%s:%s", m[1], m[2]))
		case vReTrunc.MatchString(line):
			effs = append(effs, "t"+vReTrunc.FindStringSubmatch(line)[1])
		case vReFall.MatchString(line):
			m := vReFall.FindStringSubmatch(line)
			off, _ := strconv.ParseInt(m[2], 10, 64)
			ln, _ := strconv.ParseInt(m[3], 10, 64)
			if !strings.Contains(m[1], "KEEP_SIZE") && !strings.Contains(m[1], "PUNCH") {
				effs = append(effs, fmt.Sprintf("t%d", off+ln)) // extends the file to off+len (never shrinks; close enough for the shape)
			}
		case vReRen.MatchString(line):
			effs = append(effs, "r")
		case vReUnl.MatchString(line):
			effs = append(effs, "u")
		default:
			t.Fatalf("verif: cannot parse strace line %q", line)
		}
	}
	return effs
}

// vNoEarlyFull is the Go twin of the model's `noEarlyFull` (the oracle's `shape` command re-evaluates the Lean one on
// the same trace; the two answers are compared as an L1 case): after every effect, len = size ⇒ written ≥ size.
func vNoEarlyFull(size, len0 int64, effs []string) (bool, string) {
	ln, written := len0, int64(0)
	for i, e := range effs {
		switch e[0] {
		case 'o':
			if e == "o1" {
				ln = 0
			}
		case 'w':
			var off, n int64
			fmt.Sscanf(e, "w%d:%d", &off, &n)
			if n != 0 && off+n > ln {
				ln = off + n
			}
			written += n
		case 't':
			fmt.Sscanf(e, "t%d", &ln)
		case 'u':
			ln = 0
		}
		if ln == size && written < size {
			return false, fmt.Sprintf("effect #%d %s brings the file to its final size %d after only %d data bytes", i+1, e, size, written)
		}
	}
	return true, ""
}

// vTraceCheck runs the store once under strace without injection and evaluates the shape on the real trace.
// Returns the length effects.
func vTraceCheck(t *testing.T, out *zzverif.Out, dir string, cc vCrashCase, c *DiskCache, line string, size, len0 int64) []string {
	if o := vCrashRun(t, dir, cc, c, "trace", 0); o != "survived" {
		t.Fatalf("trace run did not survive")
	}
	effs := vParseTrace(t, filepath.Join(filepath.Dir(dir), "trace.txt"))
	os.Remove(filepath.Join(filepath.Dir(dir), "trace.txt"))
	out.Count("trace_runs")
	out.Add("trace_effects", len(effs))
	if size > 0 {
		ok, why := vNoEarlyFull(size, len0, effs)
		var shown []string
		for _, e := range effs {
			if e != "r" {
				shown = append(shown, e)
			}
		}
		out.Case(fmt.Sprintf("shape %d %d %d %s", size, len0, len(shown), strings.Join(shown, " ")), fmt.Sprint(ok))
		if !ok {
			out.L2("trace-shape", line, why)
		}
	}
	return effs
}

// ---------------------------------------------------------------- large blobs

var vBigSizes = []int{1 << 20, 4<<20 - 1, 4 << 20, 4<<20 + 1, 16 << 20}

// vRunBig: Put of a large blob in a strace-killed child at a few points (every ftruncate/fallocate, the first two
// writes, a middle one, the last one), L2 only (the oracle protocol carries contents in hex: no L1 for megabytes;
// the trace shape and the re-hash do not need the model).
func vRunBig(t *testing.T, out *zzverif.Out, base string, idx int, cs uint64) {
	r := zzverif.NewRng(cs)
	size := vBigSizes[idx%len(vBigSizes)]
	seed := r.U64()
	content := zzverif.NewRng(seed).Bytes(size)
	d := vDigestOf(content)
	init := "absent"
	if r.Chance(1, 3) {
		init = zzverif.Hex(r.Bytes(r.Range(1, 64)))
	}
	len0 := int64(0)
	if init != "absent" {
		len0 = int64(len(zzverif.Unhex(init)))
	}
	cc := vCrashCase{init: init, content: content, blob: fmt.Sprint(seed), op: vOp{kind: "bigput", d: d, size: int64(size)}}
	dir := filepath.Join(base, "crash")
	defer os.RemoveAll(dir)
	caseLine := fmt.Sprintf("big seed=%d idx=%d :: bigput %s %d %d", cs, idx, init, seed, size)
	out.Count("cases")
	out.Count(fmt.Sprintf("big_cases_size_%d", size))
	c := vPrepare(t, dir, d, init)
	effs := vTraceCheck(t, out, dir, cc, c, caseLine, int64(size), len0)
	if b, _ := os.ReadFile(c.GetFile(d)); !bytes.Equal(b, content) {
		out.L2("store-ok-not-retrievable", caseLine, "via=bigput untraced-run file differs from content")
	}
	nw, nt := 0, 0
	for _, e := range effs {
		switch e[0] {
		case 'w':
			nw++
		case 't':
			nt++
		}
	}
	type kp struct {
		kind string
		n    int
	}
	var points []kp
	for i := 1; i <= nt+1; i++ {
		points = append(points, kp{"trunc", i})
	}
	seen := map[int]bool{}
	for _, n := range []int{1, 2, nw / 2, nw} {
		if n >= 1 && !seen[n] {
			seen[n] = true
			points = append(points, kp{"write", n})
		}
	}
	for _, p := range points {
		c := vPrepare(t, dir, d, init)
		outcome := vCrashRun(t, dir, cc, c, p.kind, p.n)
		line := fmt.Sprintf("%s kill=%s#%d", caseLine, p.kind, p.n)
		out.Count("big_runs_" + outcome)
		if e, err := c.Get(d); err == nil && e.Size == int64(size) {
			out.Count("crash_full_size_states")
			b, _ := os.ReadFile(c.GetFile(d))
			if vDigestOf(b) != d {
				zeros := 0
				for i := len(b) - 1; i >= 0 && b[i] == 0; i-- {
					zeros++
				}
				out.L2("crash-present-wrong-content", line, fmt.Sprintf("plain outcome=%s size=%d zero-tail=%d", outcome, size, zeros))
			}
		}
		if outcome == "killed" {
			err := c.Put(d, bytes.NewReader(content), int64(size))
			b, _ := os.ReadFile(c.GetFile(d))
			if err != nil || !bytes.Equal(b, content) {
				out.L2("crash-retry-not-repaired", line, fmt.Sprintf("err=%v len=%d", err, len(b)))
			}
		}
	}
}

// vRunBigConc: two good writers of one large blob, seeded interleaving, L2 after every event (no L1: see vRunBig)
func vRunBigConc(t *testing.T, out *zzverif.Out, base string, idx int, cs uint64) {
	r := zzverif.NewRng(cs)
	size := []int{4 << 20, 4<<20 + 1, 1 << 20}[idx%3]
	content := r.Bytes(size)
	cc := vConcCase{init: "absent", content: content, big: true}
	for w := 0; w < 2; w++ {
		s := vScript{end: "eof", kind: "exact"}
		for off := 0; off < size; off += 32 << 10 { // io.Copy's buffer: one item per Read
			s.chunks = append(s.chunks, content[off:min(off+32<<10, size)])
		}
		cc.scripts = append(cc.scripts, s)
	}
	out.Count(fmt.Sprintf("bigconc_cases_size_%d", size))
	vRunConc(t, out, base, fmt.Sprintf("bigconc seed=%d idx=%d size=%d", cs, idx, size), &cc, r)
}

// ---------------------------------------------------------------- concurrent writers

type vGated struct {
	items   [][]byte
	end     error
	arrived chan struct{}
	goCh    chan struct{}
}

func (g *vGated) Read(p []byte) (int, error) {
	g.arrived <- struct{}{}
	<-g.goCh
	if len(g.items) == 0 {
		return 0, g.end
	}
	n := copy(p, g.items[0])
	g.items = g.items[1:]
	return n, nil
}

type vConcCase struct {
	init    string
	content []byte
	scripts []vScript
	events  []string // s<i> | d<i>
	big     bool     // large blob: no state recording, no L1 line
}

func (cc vConcCase) line() string {
	d := vDigestOf(cc.content)
	parts := make([]string, len(cc.scripts))
	for i, s := range cc.scripts {
		parts[i] = s.String()
	}
	return fmt.Sprintf("conc %s %s %d %d %s %d %s", cc.init, vHexD(d), len(cc.content), len(cc.scripts),
		strings.Join(parts, " "), len(cc.events), strings.Join(cc.events, " "))
}

func vGenConc(r *zzverif.Rng) vConcCase {
	n := r.Range(1, 12)
	cc := vConcCase{content: r.Bytes(n)}
	switch r.Intn(6) {
	case 0, 1, 2:
		cc.init = "absent"
	case 3:
		cc.init = zzverif.Hex(r.Bytes(r.Intn(n)))
	case 4:
		cc.init = zzverif.Hex(r.Bytes(n + r.Range(1, 3)))
	default:
		cc.init = zzverif.Hex(cc.content)
	}
	nw := r.Range(2, 4)
	allGood := r.Chance(1, 2)
	for i := 0; i < nw; i++ {
		kind := zzverif.Pick(r, []string{"exact", "exact1"})
		if !allGood && (i == nw-1 || r.Chance(1, 3)) {
			kind = zzverif.Pick(r, []string{"short", "long", "flip", "errk", "other"})
		}
		cc.scripts = append(cc.scripts, vMkScript(r, cc.content, kind, false))
	}
	return cc
}

// vRunConc runs the writers as goroutines; when `events` is empty the schedule is drawn from r and recorded.
func vRunConc(t *testing.T, out *zzverif.Out, base string, caseLine string, cc *vConcCase, r *zzverif.Rng) {
	d := vDigestOf(cc.content)
	size := int64(len(cc.content))
	dir := filepath.Join(base, "conc")
	c := vPrepare(t, dir, d, cc.init)
	defer os.RemoveAll(dir)
	nw := len(cc.scripts)
	gs := make([]*vGated, nw)
	fin := make([]chan error, nw)
	state := make([]int, nw) // 0 not started, 1 blocked in Read, 2 returned
	results := make([]string, nw)
	acked := false
	good := true
	for i, s := range cc.scripts {
		gs[i] = &vGated{items: s.chunks, end: s.endErr(), arrived: make(chan struct{}), goCh: make(chan struct{})}
		fin[i] = make(chan error, 1)
		if s.kind != "exact" && s.kind != "exact1" {
			good = false
		}
		if s.kind == "" && (s.end != "eof" || !bytes.Equal(bytes.Join(s.chunks, nil), cc.content)) {
			good = false
		}
	}
	who := "all-good"
	if !good {
		who = "bad-cowriter"
	}
	// tag of a failure AT THE FAILING INSTANT (harness review): finding F9 explains wrong content only if a faulty
	// writer has already run (>= 1 step) and every wrong byte is a zero (the hole its Truncate(0) leaves when a good
	// writer goes on writing further up) or a byte that faulty writer's own source delivers at that offset
	tag := func(b []byte) string {
		if good {
			return "all-good"
		}
		var bad [][]byte
		for i, s := range cc.scripts {
			isGood := (s.kind == "exact" || s.kind == "exact1") || (s.kind == "" && s.end == "eof" && bytes.Equal(bytes.Join(s.chunks, nil), cc.content))
			if !isGood && state[i] != 0 {
				bad = append(bad, bytes.Join(s.chunks, nil))
			}
		}
		if len(bad) == 0 {
			return "bad-cowriter-idle"
		}
		for j := range b {
			if (j < len(cc.content) && b[j] == cc.content[j]) || b[j] == 0 {
				continue
			}
			ok := false
			for _, data := range bad {
				ok = ok || (j < len(data) && data[j] == b[j])
			}
			if !ok {
				return "bad-cowriter-unexplained"
			}
		}
		return "bad-cowriter-active"
	}
	wait := func(i int) {
		select {
		case <-gs[i].arrived:
			state[i] = 1
		case err := <-fin[i]:
			state[i] = 2
			results[i] = vErrClass(err)
			if err == nil {
				acked = true
			}
		}
	}
	var states []string
	replaying := len(cc.events) > 0
	var events []string
	// Put ‖ Import (L2 only: the model's `Sys` has no inode identity): in a share of the schedules an Import of the TRUE
	// content by another caller lands at a random point.  It renames a complete temporary file over the name, so every
	// writer that has the old file open — faulty ones included — goes on writing into an unlinked inode, and every writer
	// that starts later sees the right size: from that point on the blob must stay complete, whatever the co-writers do.
	importAt, imported := -1, false
	if !replaying && !cc.big && r.Chance(1, 6) {
		importAt = r.Intn(7)
	}
	for step := 0; ; step++ {
		var ev string
		if step == importAt {
			got, err := c.Import(bytes.NewReader(cc.content), size)
			out.Count("conc_import_events")
			if err != nil || got != d {
				out.L2("concurrent-import-failed", caseLine+" :: "+cc.line(), fmt.Sprintf("%s after-event=%d err=%v", who, step, err))
			} else {
				imported = true
			}
		}
		if imported {
			if b, _ := os.ReadFile(c.GetFile(d)); !bytes.Equal(b, cc.content) {
				out.L2("concurrent-import-then-file-changed", caseLine+" :: "+cc.line(), fmt.Sprintf("%s import-before-event=%d now-before-event=%d events=%s file=%s", who, importAt, step, strings.Join(events, ","), zzverif.Hex(b)))
				imported = false // report once
			}
		}
		if replaying {
			if step >= len(cc.events) {
				break
			}
			ev = cc.events[step]
		} else {
			var elig []int
			for i := range state {
				if state[i] != 2 {
					elig = append(elig, i)
				}
			}
			if len(elig) == 0 {
				break
			}
			i := zzverif.Pick(r, elig)
			if state[i] == 0 {
				ev = fmt.Sprintf("s%d", i)
			} else {
				ev = fmt.Sprintf("d%d", i)
			}
		}
		i, _ := strconv.Atoi(ev[1:])
		if ev[0] == 's' {
			go func() { fin[i] <- c.Put(d, gs[i], size) }()
		} else {
			gs[i].goCh <- struct{}{}
		}
		wait(i)
		events = append(events, ev)
		if !cc.big {
			states = append(states, vState(c.GetFile(d)))
		}
		// L2 at every instant: present with the stored size ⇒ right content
		if e, err := c.Get(d); err == nil && e.Size == size {
			out.Count("conc_full_size_states")
			b, _ := os.ReadFile(c.GetFile(d))
			if vDigestOf(b) != d {
				if cc.big {
					zeros := 0
					for i := len(b) - 1; i >= 0 && b[i] == 0; i-- {
						zeros++
					}
					out.L2("concurrent-present-wrong-content", caseLine, fmt.Sprintf("%s after-event=%d(%s) size=%d zero-tail=%d", tag(nil), step, ev, size, zeros))
				} else {
					out.L2("concurrent-present-wrong-content", caseLine+" :: "+cc.line(), fmt.Sprintf("%s after-event=%d(%s) file=%s", tag(b), step, ev, zzverif.Hex(b)))
				}
			}
		}
	}
	cc.events = events
	// drain writers a replayed (truncated) schedule left blocked, so that no goroutine outlives the case
	for i := range state {
		for state[i] == 1 {
			gs[i].goCh <- struct{}{}
			wait(i)
		}
	}
	for i := range results {
		switch {
		case state[i] == 0:
			results[i] = "init"
		case results[i] == "":
			results[i] = "running"
		}
	}
	// an acknowledged store survives its co-writers
	if acked && !replaying {
		b, err := os.ReadFile(c.GetFile(d))
		if err != nil || !bytes.Equal(b, cc.content) {
			if cc.big {
				out.L2("concurrent-acked-blob-lost", caseLine, fmt.Sprintf("%s final-len=%d results=%s", tag(nil), len(b), strings.Join(results, ",")))
			} else {
				out.L2("concurrent-acked-blob-lost", caseLine+" :: "+cc.line(), fmt.Sprintf("%s final=%s results=%s", tag(b), vState(c.GetFile(d)), strings.Join(results, ",")))
			}
		}
	}
	if importAt >= 0 && importAt < len(events)+1 && !cc.big {
		out.Count("conc_cases_with_import") // no L1: the oracle's `conc` command has no Import event
		if b, _ := os.ReadFile(c.GetFile(d)); importAt <= len(events) && !bytes.Equal(b, cc.content) {
			out.L2("concurrent-import-then-file-changed", caseLine+" :: "+cc.line(), fmt.Sprintf("%s import-before-event=%d final events=%s file=%s", who, importAt, strings.Join(events, ","), zzverif.Hex(b)))
		}
	} else if !cc.big {
		out.Case(cc.line(), strings.Join(states, ",")+" | "+strings.Join(results, ","))
	}
	out.Count("cases")
	out.Count("conc_cases_" + who)
	out.Add("conc_events", len(events))
}

// ---------------------------------------------------------------- the read limit of Resolve / Link (round 7)

// vRunReadSum: the real readAndSum over a small whole domain of (file length, limit): exact L1 against the model's
// `readAndSum` (what is read is the first `limit` bytes, and only those are hashed; strict variant: error).
func vRunReadSum(t *testing.T, out *zzverif.Out, base string) {
	strict := zzverif.EnvInt("VERIF_C08_STRICT", 0)
	file := filepath.Join(base, "readsum.bin")
	defer os.Remove(file)
	r := zzverif.NewRng(zzverif.Seed() ^ 0x5ead)
	for n := 0; n <= 6; n++ {
		content := r.Bytes(n)
		if err := os.WriteFile(file, content, 0o666); err != nil {
			t.Fatal(err)
		}
		for lim := 0; lim <= 7; lim++ {
			data, d, err := readAndSum(file, int64(lim))
			impl := vErrClass(err)
			if err == nil {
				impl = zzverif.Hex(data) + " " + vHexD(d)
				// L2 (no model): the digest returned is the digest of the data returned, which is a prefix of the file,
				// and the whole file whenever it fits
				if vDigestOf(data) != d || !bytes.HasPrefix(content, data) || (n <= lim && len(data) != n) {
					out.L2("readsum-inconsistent", fmt.Sprintf("readsum seed=%d :: n=%d lim=%d", zzverif.Seed(), n, lim), "digest/data/file disagree")
				}
			}
			out.Case(fmt.Sprintf("readsum %d %d %s", strict, lim, zzverif.Hex(content)), impl)
			out.Count("readsum_cases")
			if n > lim {
				out.Count("readsum_cases_over_limit")
			}
		}
	}
	if _, _, err := readAndSum(filepath.Join(base, "no-such-file"), 5); !errors.Is(err, fs.ErrNotExist) {
		out.L2("readsum-inconsistent", "readsum :: missing file", fmt.Sprint(err))
	}
}

// vRunEdge: manifests around the read limit that Resolve and Link pass to readAndSum (extracted from the source by
// the check: VERIF_C08_RLIM), through the ordinary history runner: exact L1 (the oracle hashes the megabyte too) and
// every L2 monitor.  Sizes limit-1, limit, limit+1, limit+k; the manifest gets there by Put+Link and by a write
// behind the cache's back.
func vRunEdge(t *testing.T, out *zzverif.Out, base string, idx int, cs uint64) {
	r := zzverif.NewRng(cs)
	lim := vReadLimit()
	size := lim + []int{1, 0, -1, r.Range(2, 4096)}[idx%4]
	c := r.Bytes(size)
	d := vDigestOf(c)
	e := r.Bytes(lim + r.Range(1, 9))
	ops := []vOp{
		{kind: "put", d: d, size: int64(size), s: vScript{chunks: [][]byte{c}, end: "eof", kind: "exact"}},
		{kind: "link", name: "h/n/m:t", d: d}, {kind: "resolve", name: "H/n/m:t"}, {kind: "get", d: d},
		{kind: "link", name: "h/n/m:t", d: d}, // already linked: the no-op test reads the manifest through readAndSum too
		{kind: "edit", name: "a/n/m:t", data: e}, {kind: "resolve", name: "a/n/m:t"}, {kind: "get", d: vDigestOf(e)},
		{kind: "get", d: vDigestOf(e[:lim])}, {kind: "link", name: "a/n/m:t", d: d}, {kind: "resolve", name: "a/n/m:t"},
	}
	out.Count(fmt.Sprintf("edge_cases_size_limit%+d", min(size-lim, 2)))
	dir := filepath.Join(base, fmt.Sprintf("h%d", idx))
	vRunHist(t, out, base, idx, fmt.Sprintf("edge seed=%d idx=%d :: manifest of %d bytes, read limit %d (ops regenerated from the seed)", cs, idx, size, lim), ops, dir)
}

// ---------------------------------------------------------------- Tie 1: facts about the tree, obtained by executing it

// TestVerifC08Facts determines BY BEHAVIOUR (not by reading the source, so that a refactoring of Link / Resolve /
// copyNamedFile cannot confuse it) which variant of the code is in the tree; the check turns the answers into
// Generated/C08_LinkVariant.lean + Generated/C08_ReadLimit.lean and into the flags of the oracle's `histl` command:
//   link_fixed     re-Link of a name to a different manifest of the SAME size takes effect (temp + rename; F8 fixed)
//   link_zerocheck Link refuses a zero-length blob file whose digest is not that of the empty string (F8-zero fixed)
//   resolve_limit  the largest manifest size that Resolve hashes completely (found by doubling + bisection)
//   read_strict    a larger manifest is an error (C08-F28.patch) rather than cut
//   link_limit     the largest manifest size for which Link's "already linked" test recognises the manifest (the link
//                  file keeps its inode)
//   neg_refused    Put under a negative size is an error that leaves the file alone (C08-F29.patch)
func TestVerifC08Facts(t *testing.T) {
	outDir := os.Getenv("VERIF_OUT")
	if outDir == "" {
		t.Skip("verification driver: run through /verif/check")
	}
	t.Setenv("TMPDIR", t.TempDir())
	c, err := Open(filepath.Join(t.TempDir(), "cache"))
	if err != nil {
		t.Fatal(err)
	}
	b2i := func(b bool) int {
		if b {
			return 1
		}
		return 0
	}
	must := func(err error) {
		t.Helper()
		if err != nil {
			t.Fatal(err)
		}
	}
	a, b := []byte("aaaaaaa"), []byte("bbbbbbb")
	must(PutBytes(c, vDigestOf(a), a))
	must(PutBytes(c, vDigestOf(b), b))
	must(c.Link("h/n/same:t", vDigestOf(a)))
	c.Link("h/n/same:t", vDigestOf(b))
	m, _ := os.ReadFile(filepath.Join(c.dir, "manifests", "h", "n", "same", "t"))
	linkFixed := bytes.Equal(m, b)

	dz := vDigestOf([]byte("never stored"))
	must(os.WriteFile(c.GetFile(dz), nil, 0o666))
	zeroCheck := errors.Is(c.Link("h/n/zero:t", dz), fs.ErrNotExist)

	content := zzverif.NewRng(0xc08).Bytes(1<<23 + 8)
	manifest := func(name string) string {
		np, err := nameToPath(name)
		must(err)
		file := filepath.Join(c.dir, "manifests", np)
		must(os.MkdirAll(filepath.Dir(file), 0o777))
		return file
	}
	// whole(n): a manifest of n bytes resolves to the digest of all its bytes
	resolveErr := false
	whole := func(n int) bool {
		must(os.WriteFile(manifest("h/n/probe:t"), content[:n], 0o666))
		d, err := c.Resolve("h/n/probe:t")
		resolveErr = err != nil
		return err == nil && d == vDigestOf(content[:n])
	}
	// noop(n): Link of a name whose manifest (n bytes) already is the blob's content leaves the link file in place
	noop := func(n int) bool {
		file := manifest("h/n/probe2:t")
		must(os.WriteFile(file, content[:n], 0o666))
		must(PutBytes(c, vDigestOf(content[:n]), content[:n]))
		before, err := os.Stat(file)
		must(err)
		must(c.Link("h/n/probe2:t", vDigestOf(content[:n])))
		after, err := os.Stat(file)
		must(err)
		return os.SameFile(before, after)
	}
	// largest n in [1, 2^23] with p(n), assuming p is downward closed; 0 if p(1) fails or no bound was found
	search := func(p func(int) bool) int {
		if !p(1) {
			return 0
		}
		lo := 1 // p(lo)
		for lo < 1<<23 && p(lo*2) {
			lo *= 2
		}
		if lo >= 1<<23 {
			return 0
		}
		hi := lo * 2 // !p(hi)
		for hi-lo > 1 {
			mid := (lo + hi) / 2
			if p(mid) {
				lo = mid
			} else {
				hi = mid
			}
		}
		return lo
	}
	resolveLimit := search(whole)
	whole(resolveLimit + 1)
	strict := resolveErr
	linkLimit := search(noop)

	must(PutBytes(c, vDigestOf(a), a))
	nerr := c.Put(vDigestOf(a), bytes.NewReader(nil), -1)
	left, _ := os.ReadFile(c.GetFile(vDigestOf(a)))
	negRefused := nerr != nil && bytes.Equal(left, a)

	facts := fmt.Sprintf("link_fixed=%d\nlink_zerocheck=%d\nresolve_limit=%d\nread_strict=%d\nlink_limit=%d\nneg_refused=%d\n",
		b2i(linkFixed), b2i(zeroCheck), resolveLimit, b2i(strict), linkLimit, b2i(negRefused))
	must(os.WriteFile(filepath.Join(outDir, "facts.txt"), []byte(facts), 0o666))
}

// ---------------------------------------------------------------- entry point

func TestVerifC08(t *testing.T) {
	if os.Getenv("VERIF_OUT") == "" {
		t.Skip("verification driver: run through /verif/check")
	}
	out := zzverif.NewOut()
	defer out.Close()
	base := t.TempDir()
	tmp := filepath.Join(base, "tmp")
	os.MkdirAll(tmp, 0o777)
	t.Setenv("TMPDIR", tmp)
	root := zzverif.NewRng(zzverif.Seed())

	if rp := os.Getenv("VERIF_REPLAY"); rp != "" {
		raw, err := os.ReadFile(rp)
		if err != nil {
			t.Fatal(err)
		}
		vReplay(t, out, base, strings.TrimSpace(string(raw)))
		return
	}

	phases := os.Getenv("VERIF_C08_PHASES")
	if phases == "" {
		phases = "hist,crash,conc,big,edge"
	}
	if strings.Contains(phases, "edge") {
		vRunReadSum(t, out, base)
		for i, n := 0, zzverif.EnvInt("VERIF_NEDGE", 3); i < n; i++ {
			vRunEdge(t, out, base, i, root.U64())
		}
	}
	if strings.Contains(phases, "hist") {
		for i, n := 0, zzverif.EnvInt("VERIF_N", 300); i < n; i++ {
			cs := root.U64()
			ops := vGenHist(zzverif.NewRng(cs))
			dir := vHistDir(base, i, cs, ops)
			vRunHist(t, out, base, i, fmt.Sprintf("hist seed=%d dir=%q", cs, filepath.Base(dir))+" :: "+vHistLine(ops), ops, dir)
		}
	}
	if strings.Contains(phases, "big") {
		if _, err := exec.LookPath("strace"); err != nil {
			t.Fatal("strace not found: crash points cannot be enumerated")
		}
		for i, n := 0, zzverif.EnvInt("VERIF_NBIG", 5); i < n; i++ {
			vRunBig(t, out, base, i, root.U64())
		}
		for i, n := 0, zzverif.EnvInt("VERIF_NBIGCONC", 2); i < n; i++ {
			vRunBigConc(t, out, base, i, root.U64())
		}
	}
	if strings.Contains(phases, "conc") {
		for i, n := 0, zzverif.EnvInt("VERIF_NCONC", 300); i < n; i++ {
			cs := root.U64()
			r := zzverif.NewRng(cs)
			cc := vGenConc(r)
			vRunConc(t, out, base, fmt.Sprintf("conc seed=%d", cs), &cc, r)
		}
	}
	if strings.Contains(phases, "crash") {
		if _, err := exec.LookPath("strace"); err != nil {
			t.Fatal("strace not found: crash points cannot be enumerated")
		}
		for i, n := 0, zzverif.EnvInt("VERIF_NCRASH", 12); i < n; i++ {
			cs := root.U64()
			if i%3 == 2 {
				vRunCrashLink(t, out, base, fmt.Sprintf("crashlink seed=%d", cs), vGenCrashLink(zzverif.NewRng(cs)))
				continue
			}
			// every ninth case is a complete Import (the only store with a rename), every ninth a chunk write
			force := map[int]string{0: "resolve", 1: "import", 4: "chunk", 7: "put"}[i%9]
			cc := vGenCrash(zzverif.NewRng(cs), force)
			vRunCrash(t, out, base, fmt.Sprintf("crash seed=%d force=%s", cs, force), cc)
		}
	}
}

// vReplay re-runs one recorded case line: "<mode> seed=<n> :: <oracle command>".
func vReplay(t *testing.T, out *zzverif.Out, base, line string) {
	head := strings.Fields(strings.SplitN(line, " :: ", 2)[0])
	mode := head[0]
	var cs uint64
	if len(head) > 1 && strings.HasPrefix(head[1], "seed=") {
		cs, _ = strconv.ParseUint(head[1][5:], 10, 64)
	}
	switch mode {
	case "hist":
		ops := vGenHist(zzverif.NewRng(cs))
		vRunHist(t, out, base, 0, line, ops, vHistDir(base, 0, cs, ops))
	case "conc":
		r := zzverif.NewRng(cs)
		cc := vGenConc(r)
		vRunConc(t, out, base, fmt.Sprintf("conc seed=%d", cs), &cc, r)
	case "crash":
		force := ""
		if len(head) > 2 && strings.HasPrefix(head[2], "force=") {
			force = head[2][6:]
		}
		vRunCrash(t, out, base, fmt.Sprintf("crash seed=%d force=%s", cs, force), vGenCrash(zzverif.NewRng(cs), force))
	case "big", "bigconc":
		idx := 0
		if len(head) > 2 && strings.HasPrefix(head[2], "idx=") {
			idx, _ = strconv.Atoi(head[2][4:])
		}
		if mode == "big" {
			vRunBig(t, out, base, idx, cs)
		} else {
			vRunBigConc(t, out, base, idx, cs)
		}
	case "crashlink":
		vRunCrashLink(t, out, base, fmt.Sprintf("crashlink seed=%d", cs), vGenCrashLink(zzverif.NewRng(cs)))
	case "edge":
		idx := 0
		if len(head) > 2 && strings.HasPrefix(head[2], "idx=") {
			idx, _ = strconv.Atoi(head[2][4:])
		}
		vRunEdge(t, out, base, idx, cs)
	default:
		t.Fatalf("cannot replay %q", line)
	}
}
