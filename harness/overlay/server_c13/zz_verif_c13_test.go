package server

// C13 driver for server/modelpath.go: ParseModelPath, ModelPath.GetManifestPath, GetBlobsPath,
// plus the tie of the Lean model of path/filepath Clean/Join to the real functions.

import (
	"fmt"
	"os"
	"path/filepath"
	"strings"
	"testing"

	"github.com/ollama/ollama/types/model"
	"github.com/ollama/ollama/zzverif"
)

func c13MPCase(out *zzverif.Out, root, s string) {
	op := "mp " + zzverif.Hex([]byte(root)) + " " + zzverif.Hex([]byte(s))
	mp := ParseModelPath(s)
	p, err := mp.GetManifestPath()
	ph := "!"
	if err == nil {
		ph = zzverif.Hex([]byte(p))
	}
	h := func(x string) string { return zzverif.Hex([]byte(x)) }
	out.Case(op, fmt.Sprintf("f=%s,%s,%s,%s,%s path=%s", h(mp.ProtocolScheme), h(mp.Registry), h(mp.Namespace), h(mp.Repository), h(mp.Tag), ph))
	out.Count("cases")
	if err != nil {
		out.Count("mp_rejected")
		return
	}
	out.Count("mp_accepted")
	if why := zzverif.C13Confined(root, "manifests", p, 4); why != "" {
		out.L2("manifest-path-escapes", op, why+" path="+zzverif.Hex([]byte(p)))
	}
	// every accepted part is ASCII (valid parts are), so the path is re-readable by every reader of the store
	if strings.IndexFunc(p, func(c rune) bool { return c >= 0x80 }) >= 0 && strings.IndexFunc(root, func(c rune) bool { return c >= 0x80 }) < 0 {
		out.L2("accepted-name-invalid-part", op, "non-ASCII byte in the manifest path "+zzverif.Hex([]byte(p)))
	}
	// the legacy parser and types/model agree on what it printed: same parts, same path
	n := model.ParseName(mp.GetFullTagname())
	if !n.IsValid() || n.Host != mp.Registry || n.Namespace != mp.Namespace || n.Model != mp.Repository || n.Tag != mp.Tag {
		out.L2("cross-modelpath-to-model", op, "model.ParseName(GetFullTagname()) = "+zzverif.C13Fields(n.Host, n.Namespace, n.Model, n.Tag))
	} else if filepath.Join(root, "manifests", n.Filepath()) != p {
		out.L2("cross-modelpath-to-model", op, "different manifest path")
	}
	back := ParseModelPath(n.String())
	if back.Registry != mp.Registry || back.Namespace != mp.Namespace || back.Repository != mp.Repository || back.Tag != mp.Tag {
		out.L2("roundtrip-modelpath", op, "ParseModelPath(String()) differs")
	}
}

func c13BlobCase(out *zzverif.Out, root, s string) {
	op := "blobs " + zzverif.Hex([]byte(root)) + " " + zzverif.Hex([]byte(s))
	p, err := GetBlobsPath(s)
	out.Count("cases")
	if err != nil {
		out.Case(op, "err")
		out.Count("blobs_rejected")
		return
	}
	out.Case(op, "ok "+zzverif.Hex([]byte(p)))
	if s == "" {
		// documented overload: the empty digest names the blobs directory itself
		out.Count("blobs_empty_digest")
		if p != filepath.Join(root, "blobs") {
			out.L2("blob-path-escapes", op, "empty digest -> "+p)
		}
		return
	}
	out.Count("blobs_accepted")
	if why := zzverif.C13Confined(root, "blobs", p, 1); why != "" {
		out.L2("blob-path-escapes", op, why+" path="+zzverif.Hex([]byte(p)))
	}
	base := filepath.Base(p)
	if len(base) != 7+64 || !strings.HasPrefix(base, "sha256-") || strings.Trim(base[7:], "0123456789abcdefABCDEF") != "" {
		out.L2("blob-path-shape", op, "file name "+base)
	}
}

func c13CleanCase(out *zzverif.Out, s string) {
	out.Case("clean "+zzverif.Hex([]byte(s)), zzverif.Hex([]byte(filepath.Clean(s))))
	out.Count("cases")
}

func c13JoinCase(out *zzverif.Out, parts []string) {
	var sb strings.Builder
	fmt.Fprintf(&sb, "join %d", len(parts))
	for _, p := range parts {
		sb.WriteString(" " + zzverif.Hex([]byte(p)))
	}
	out.Case(sb.String(), zzverif.Hex([]byte(filepath.Join(parts...))))
	out.Count("cases")
}

// c13FoldFamily: the DIRECTED family "every string that strings.EqualFold maps onto a default part or onto a stored
// spelling": for each base part, every single-character substitution by a simple-fold partner (LONG S for s/S, KELVIN
// SIGN for k/K, the other letter case), placed in host, namespace, model and tag position of an otherwise default name,
// in fully written and in abbreviated (defaults merged in) form.  f gets the name string and its four intended parts.
func c13FoldFamily(f func(name string, parts [4]string, pos int)) {
	bases := []string{"registry.ollama.ai", "library", "latest", "mistral", "Phi-3.5k", "ks", "_sk", "K"}
	def := [4]string{"registry.ollama.ai", "library", "m", "latest"}
	seen := map[string]bool{}
	for _, b := range bases {
		var variants []string
		for i := 0; i < len(b); i++ {
			c := b[i]
			var subs []string
			switch {
			case c == 's' || c == 'S':
				subs = append(subs, "\u017f")
			case c == 'k' || c == 'K':
				subs = append(subs, "\u212a")
			}
			if c >= 'a' && c <= 'z' || c >= 'A' && c <= 'Z' {
				subs = append(subs, string([]byte{c ^ 0x20}))
			}
			for _, sub := range subs {
				variants = append(variants, b[:i]+sub+b[i+1:])
			}
		}
		variants = append(variants, b, strings.ToUpper(b))
		for _, v := range variants {
			for pos := 0; pos < 4; pos++ {
				p := def
				p[pos] = v
				full := p[0] + "/" + p[1] + "/" + p[2] + ":" + p[3]
				names := []string{full}
				switch pos { // abbreviated forms in which the other parts come from the defaults
				case 1:
					names = append(names, p[1]+"/"+p[2])
				case 2:
					names = append(names, p[2], p[2]+":"+p[3])
				case 3:
					names = append(names, p[2]+":"+p[3])
				}
				for _, nm := range names {
					if !seen[nm] {
						seen[nm] = true
						f(nm, p, pos)
					}
				}
			}
		}
	}
}

func TestVerifC13(t *testing.T) {
	out := zzverif.NewOut()
	defer out.Close()
	models := filepath.Join(t.TempDir(), "models dir")
	t.Setenv("OLLAMA_MODELS", models)
	if rp := os.Getenv("VERIF_REPLAY"); rp != "" {
		b, _ := os.ReadFile(rp)
		f := strings.Fields(strings.TrimSpace(string(b)))
		switch {
		case len(f) == 3 && f[0] == "mp":
			c13MPCase(out, models, string(zzverif.Unhex(f[2])))
		case len(f) == 3 && f[0] == "blobs":
			c13BlobCase(out, models, string(zzverif.Unhex(f[2])))
		case len(f) == 2 && f[0] == "clean":
			c13CleanCase(out, string(zzverif.Unhex(f[1])))
		}
		return
	}
	root := zzverif.NewRng(zzverif.Seed() + 3000)
	exh := zzverif.EnvInt("VERIF_EXH", 3)
	zzverif.C13Exhaustive(zzverif.C13Alphabet, exh, func(s string) {
		c13MPCase(out, models, s)
		c13BlobCase(out, models, s)
		c13BlobCase(out, models, "sha256"+s)
		out.Count("exhaustive")
	})
	c13FoldFamily(func(nm string, parts [4]string, pos int) {
		c13MPCase(out, models, nm)
		out.Count("fold_family")
	})
	// filepath.Clean / Join against the model, exhaustively over path-shaped strings
	pathAlpha := []byte{'/', '.', 'a', 'B', 0}
	zzverif.C13Exhaustive(pathAlpha, exh+3, func(s string) {
		c13CleanCase(out, s)
		out.Count("exhaustive_clean")
	})
	elems := []string{"", "/", ".", "..", "a", "a/b", "/r", "a/", "../x", "./", "a//b"}
	for _, a := range elems {
		for _, b := range elems {
			c13JoinCase(out, []string{a, b})
			for _, c := range elems {
				c13JoinCase(out, []string{a, b, c})
			}
		}
	}
	n := zzverif.EnvInt("VERIF_N", 3000)
	for i := 0; i < n; i++ {
		r := root.Fork()
		class, s := zzverif.C13Name(r)
		out.Count("name_class_" + class)
		c13MPCase(out, models, s)
		class, s = zzverif.C13Digest(r)
		out.Count("digest_class_" + class)
		c13BlobCase(out, models, s)
		// random paths through Clean
		k := r.Intn(8)
		var parts []string
		for j := 0; j < k; j++ {
			parts = append(parts, zzverif.Pick(r, []string{"", ".", "..", "a", "bc", "...", "a.b", "\x00", "..a"}))
		}
		p := strings.Join(parts, "/")
		if r.Bool() {
			p = "/" + p
		}
		c13CleanCase(out, p)
	}
}
