package server

// C13 driver for server/modelpath.go: ParseModelPath, ModelPath.GetManifestPath, GetBlobsPath,
// plus the tie of the Lean model of path/filepath Clean/Join to the real functions.

import (
	"bytes"
	"crypto/sha256"
	"encoding/json"
	"errors"
	"fmt"
	"net/http"
	"net/http/httptest"
	"os"
	"path/filepath"
	"sort"
	"strings"
	"testing"

	"github.com/ollama/ollama/types/model"
	"github.com/ollama/ollama/zzverif"
)

func c13MPCase(out *zzverif.Out, root, s string) {
	op := "mp " + zzverif.Hex([]byte(root)) + " " + zzverif.Hex([]byte(s))
	mp := ParseModelPath(s)
	p, err := mp.GetManifestPath()
	ph := "!"
	if err == nil {
		ph = zzverif.Hex([]byte(p))
	}
	h := func(x string) string { return zzverif.Hex([]byte(x)) }
	out.Case(op, fmt.Sprintf("f=%s,%s,%s,%s,%s path=%s full=%s short=%s nsrepo=%s", h(mp.ProtocolScheme), h(mp.Registry), h(mp.Namespace), h(mp.Repository), h(mp.Tag), ph,
		h(mp.GetFullTagname()), h(mp.GetShortTagname()), h(mp.GetNamespaceRepository())))
	out.Count("cases")
	if err != nil {
		out.Count("mp_rejected")
		return
	}
	out.Count("mp_accepted")
	if why := zzverif.C13Confined(root, "manifests", p, 4); why != "" {
		out.L2("manifest-path-escapes", op, why+" path="+zzverif.Hex([]byte(p)))
	}
	// every accepted part is ASCII (valid parts are), so the path is re-readable by every reader of the store
	if strings.IndexFunc(p, func(c rune) bool { return c >= 0x80 }) >= 0 && strings.IndexFunc(root, func(c rune) bool { return c >= 0x80 }) < 0 {
		out.L2("accepted-name-invalid-part", op, "non-ASCII byte in the manifest path "+zzverif.Hex([]byte(p)))
	}
	// the legacy parser and types/model agree on what it printed: same parts, same path
	n := model.ParseName(mp.GetFullTagname())
	if !n.IsValid() || n.Host != mp.Registry || n.Namespace != mp.Namespace || n.Model != mp.Repository || n.Tag != mp.Tag {
		out.L2("cross-modelpath-to-model", op, "model.ParseName(GetFullTagname()) = "+zzverif.C13Fields(n.Host, n.Namespace, n.Model, n.Tag))
	} else if filepath.Join(root, "manifests", n.Filepath()) != p {
		out.L2("cross-modelpath-to-model", op, "different manifest path")
	}
	back := ParseModelPath(n.String())
	if back.Registry != mp.Registry || back.Namespace != mp.Namespace || back.Repository != mp.Repository || back.Tag != mp.Tag {
		out.L2("roundtrip-modelpath", op, "ParseModelPath(String()) differs")
	}
	// both printers of the legacy ModelPath are read back unchanged by both parsers (same parts, same manifest path)
	for which, printed := range map[string]string{"full": mp.GetFullTagname(), "short": mp.GetShortTagname()} {
		b := ParseModelPath(printed)
		if b.Registry != mp.Registry || b.Namespace != mp.Namespace || b.Repository != mp.Repository || b.Tag != mp.Tag || b.ProtocolScheme != DefaultProtocolScheme {
			out.L2("roundtrip-modelpath", op, "ParseModelPath("+which+" tag name) differs: "+zzverif.C13Fields(b.Registry, b.Namespace, b.Repository, b.Tag))
		}
		if bp, err := b.GetManifestPath(); err != nil || bp != p {
			out.L2("roundtrip-modelpath", op, "manifest path of the "+which+" tag name differs: "+bp)
		}
		m := model.ParseName(printed)
		if !m.IsValid() || m.Host != mp.Registry || m.Namespace != mp.Namespace || m.Model != mp.Repository || m.Tag != mp.Tag {
			out.L2("cross-modelpath-to-model", op, "model.ParseName("+which+" tag name) = "+zzverif.C13Fields(m.Host, m.Namespace, m.Model, m.Tag))
		}
	}
	// on the ORIGINAL string: whenever types/model accepts it too, both parsers read the same four parts
	if m := model.ParseName(s); m.IsValid() {
		out.Count("mp_and_model_accept")
		if m.Host != mp.Registry || m.Namespace != mp.Namespace || m.Model != mp.Repository || m.Tag != mp.Tag {
			out.L2("cross-modelpath-to-model", op, "both accept the input but model.ParseName reads "+zzverif.C13Fields(m.Host, m.Namespace, m.Model, m.Tag))
		}
	} else {
		out.Count("mp_accepts_model_rejects")
	}
}

// c13OddRootMP: ParseModelPath + GetManifestPath under a models directory given as an arbitrary string.
func c13OddRootMP(out *zzverif.Out, root, s string) {
	op := "mp " + zzverif.Hex([]byte(root)) + " " + zzverif.Hex([]byte(s))
	mp := ParseModelPath(s)
	p, err := mp.GetManifestPath()
	ph := "!"
	if err == nil {
		ph = zzverif.Hex([]byte(p))
	}
	h := func(x string) string { return zzverif.Hex([]byte(x)) }
	out.Case(op, fmt.Sprintf("f=%s,%s,%s,%s,%s path=%s full=%s short=%s nsrepo=%s", h(mp.ProtocolScheme), h(mp.Registry), h(mp.Namespace), h(mp.Repository), h(mp.Tag), ph,
		h(mp.GetFullTagname()), h(mp.GetShortTagname()), h(mp.GetNamespaceRepository())))
	out.Count("cases")
	out.Count("mp_odd_root")
	if err != nil {
		return
	}
	out.Count("mp_odd_root_accepted")
	// below Clean(root): exactly manifests/<h>/<n>/<m>/<t>, no component that climbs
	rel, rerr := filepath.Rel(filepath.Clean(root), p)
	comps := strings.Split(rel, "/")
	bad := rerr != nil || len(comps) != 5 || comps[0] != "manifests" || p != filepath.Clean(p)
	for _, c := range comps {
		if c == "" || c == "." || c == ".." {
			bad = true
		}
	}
	if bad {
		out.L2("manifest-path-escapes", op, fmt.Sprintf("under models directory %q: %q (relative: %q)", root, p, rel))
	}
}

// c13Leaves lists the leaf directories below base (sorted), relative paths excluded: absolute paths.
func c13Leaves(base string) []string {
	var res []string
	var rec func(d string)
	rec = func(d string) {
		ents, _ := os.ReadDir(d)
		sub := 0
		for _, e := range ents {
			if e.IsDir() {
				sub++
				rec(filepath.Join(d, e.Name()))
			}
		}
		if sub == 0 {
			res = append(res, d)
		}
	}
	rec(base)
	return res
}

func c13BlobCase(out *zzverif.Out, root, s string) {
	op := "blobs " + zzverif.Hex([]byte(root)) + " " + zzverif.Hex([]byte(s))
	if root != filepath.Clean(root) {
		out.Count("blobs_odd_root")
	}
	// the directory side effect: start from a store that does not exist, see which directories the call leaves behind
	raw := root
	root = filepath.Clean(raw) // the op line carries the configured string; the monitors speak about the directory it names
	os.RemoveAll(root)
	p, err := GetBlobsPath(s)
	mk := "!"
	var made []string
	for _, d := range c13Leaves(c13Base) {
		if d != filepath.Dir(root) {
			made = append(made, d)
		}
	}
	if len(made) > 0 {
		mk = zzverif.Hex([]byte(strings.Join(made, ",")))
	}
	for _, d := range made {
		if d != filepath.Join(root, "blobs") {
			out.L2("blob-mkdir-escapes", op, "GetBlobsPath created the directory "+d)
		}
	}
	if err != nil && len(made) > 0 {
		out.L2("blob-mkdir-escapes", op, "a refused digest left a directory behind: "+strings.Join(made, ","))
	}
	// digest aliases: the sha256-<hex> and sha256:<hex> spellings (canonicalDigest) address the same blob file
	can := canonicalDigest(s)
	out.Case("canon "+zzverif.Hex([]byte(s)), zzverif.Hex([]byte(can)))
	if cp, cerr := GetBlobsPath(can); (cerr == nil) != (err == nil) || cp != p {
		out.L2("digest-alias-different-blob", op, fmt.Sprintf("canonicalDigest = %q addresses %q, the digest itself %q", can, cp, p))
	}
	out.Count("cases")
	if err != nil {
		out.Case(op, "err mk="+mk)
		out.Count("blobs_rejected")
		return
	}
	out.Case(op, "ok "+zzverif.Hex([]byte(p))+" mk="+mk)
	if s == "" {
		// documented overload: the empty digest names the blobs directory itself
		out.Count("blobs_empty_digest")
		if p != filepath.Join(root, "blobs") {
			out.L2("blob-path-escapes", op, "empty digest -> "+p)
		}
		return
	}
	out.Count("blobs_accepted")
	if why := zzverif.C13Confined(root, "blobs", p, 1); why != "" {
		out.L2("blob-path-escapes", op, why+" path="+zzverif.Hex([]byte(p)))
	}
	base := filepath.Base(p)
	if len(base) != 7+64 || !strings.HasPrefix(base, "sha256-") || strings.Trim(base[7:], "0123456789abcdefABCDEF") != "" {
		out.L2("blob-path-shape", op, "file name "+base)
	}
}

func c13CleanCase(out *zzverif.Out, s string) {
	out.Case("clean "+zzverif.Hex([]byte(s)), zzverif.Hex([]byte(filepath.Clean(s))))
	out.Count("cases")
}

func c13JoinCase(out *zzverif.Out, parts []string) {
	var sb strings.Builder
	fmt.Fprintf(&sb, "join %d", len(parts))
	for _, p := range parts {
		sb.WriteString(" " + zzverif.Hex([]byte(p)))
	}
	out.Case(sb.String(), zzverif.Hex([]byte(filepath.Join(parts...))))
	out.Count("cases")
}

// c13FoldFamily: the DIRECTED family "every string that strings.EqualFold maps onto a default part or onto a stored
// spelling": for each base part, every single-character substitution by a simple-fold partner (LONG S for s/S, KELVIN
// SIGN for k/K, the other letter case), placed in host, namespace, model and tag position of an otherwise default name,
// in fully written and in abbreviated (defaults merged in) form.  f gets the name string and its four intended parts.
func c13FoldFamily(f func(name string, parts [4]string, pos int)) {
	bases := []string{"registry.ollama.ai", "library", "latest", "mistral", "Phi-3.5k", "ks", "_sk", "K"}
	def := [4]string{"registry.ollama.ai", "library", "m", "latest"}
	seen := map[string]bool{}
	for _, b := range bases {
		var variants []string
		for i := 0; i < len(b); i++ {
			c := b[i]
			var subs []string
			switch {
			case c == 's' || c == 'S':
				subs = append(subs, "\u017f")
			case c == 'k' || c == 'K':
				subs = append(subs, "\u212a")
			}
			if c >= 'a' && c <= 'z' || c >= 'A' && c <= 'Z' {
				subs = append(subs, string([]byte{c ^ 0x20}))
			}
			for _, sub := range subs {
				variants = append(variants, b[:i]+sub+b[i+1:])
			}
		}
		variants = append(variants, b, strings.ToUpper(b))
		for _, v := range variants {
			for pos := 0; pos < 4; pos++ {
				p := def
				p[pos] = v
				full := p[0] + "/" + p[1] + "/" + p[2] + ":" + p[3]
				names := []string{full}
				switch pos { // abbreviated forms in which the other parts come from the defaults
				case 1:
					names = append(names, p[1]+"/"+p[2])
				case 2:
					names = append(names, p[2], p[2]+":"+p[3])
				case 3:
					names = append(names, p[2]+":"+p[3])
				}
				for _, nm := range names {
					if !seen[nm] {
						seen[nm] = true
						f(nm, p, pos)
					}
				}
			}
		}
	}
}

var c13Base string

func TestVerifC13(t *testing.T) {
	out := zzverif.NewOut()
	defer out.Close()
	// the models directory sits four levels below a directory of its own, so that a directory created outside it by
	// up to four ".." is still seen by the walk of c13Base
	c13Base = t.TempDir()
	models := filepath.Join(c13Base, "l1", "l2", "l3", "models dir")
	os.MkdirAll(filepath.Dir(models), 0o755)
	t.Setenv("OLLAMA_MODELS", models)
	if rp := os.Getenv("VERIF_REPLAY"); rp != "" {
		b, _ := os.ReadFile(rp)
		f := strings.Fields(strings.TrimSpace(string(b)))
		switch {
		case len(f) == 3 && f[0] == "mp":
			c13MPCase(out, models, string(zzverif.Unhex(f[2])))
		case len(f) == 3 && f[0] == "blobs":
			c13BlobCase(out, models, string(zzverif.Unhex(f[2])))
		case len(f) == 2 && f[0] == "clean":
			c13CleanCase(out, string(zzverif.Unhex(f[1])))
		case len(f) == 3 && f[0] == "copy":
			c13CopyReplay(t, out, string(zzverif.Unhex(f[1])), string(zzverif.Unhex(f[2])))
		case len(f) == 2 && f[0] == "canon":
			c13BlobCase(out, models, string(zzverif.Unhex(f[1])))
		case len(f) >= 2 && f[0] == "enum":
			var rels []string
			for _, x := range f[2:] {
				rels = append(rels, string(zzverif.Unhex(x)))
			}
			c13EnumCase(t, out, rels, nil)
		}
		return
	}
	root := zzverif.NewRng(zzverif.Seed() + 3000)
	exh := zzverif.EnvInt("VERIF_EXH", 3)
	zzverif.C13Exhaustive(zzverif.C13Alphabet, exh, func(s string) {
		c13MPCase(out, models, s)
		c13BlobCase(out, models, s)
		c13BlobCase(out, models, "sha256"+s)
		out.Count("exhaustive")
	})
	c13FoldFamily(func(nm string, parts [4]string, pos int) {
		c13MPCase(out, models, nm)
		out.Count("fold_family")
	})
	// filepath.Clean / Join against the model, exhaustively over path-shaped strings
	pathAlpha := []byte{'/', '.', 'a', 'B', 0}
	zzverif.C13Exhaustive(pathAlpha, exh+3, func(s string) {
		c13CleanCase(out, s)
		out.Count("exhaustive_clean")
	})
	elems := []string{"", "/", ".", "..", "a", "a/b", "/r", "a/", "../x", "./", "a//b"}
	for _, a := range elems {
		for _, b := range elems {
			c13JoinCase(out, []string{a, b})
			for _, c := range elems {
				c13JoinCase(out, []string{a, b, c})
			}
		}
	}
	n := zzverif.EnvInt("VERIF_N", 3000)
	for i := 0; i < n; i++ {
		r := root.Fork()
		class, s := zzverif.C13Name(r)
		out.Count("name_class_" + class)
		c13MPCase(out, models, s)
		class, s = zzverif.C13Digest(r)
		out.Count("digest_class_" + class)
		c13BlobCase(out, models, s)
		// random paths through Clean
		k := r.Intn(8)
		var parts []string
		for j := 0; j < k; j++ {
			parts = append(parts, zzverif.Pick(r, []string{"", ".", "..", "a", "bc", "...", "a.b", "\x00", "..a"}))
		}
		p := strings.Join(parts, "/")
		if r.Bool() {
			p = "/" + p
		}
		c13CleanCase(out, p)
	}
	// models directories that are not clean absolute paths (OLLAMA_MODELS is used verbatim)
	oddNames := []string{"m", "h/n/m:t", "../x", "a/../b:t", "", "x://h/n/m", "h/n/m", "n/m:1.0", "h/n/..:t", "./m", "m:"}
	for i := 0; i < 12; i++ {
		_, nm := zzverif.C13Name(root.Fork())
		oddNames = append(oddNames, nm)
	}
	oddDigests := []string{"", "sha256:" + strings.Repeat("a", 64), "sha256-" + strings.Repeat("B", 64), "../sha256:" + strings.Repeat("a", 64), "sha256:" + strings.Repeat("a", 63), "sha256:" + strings.Repeat("/", 64)}
	for _, oddAbs := range []string{c13Base + "/l1/l2/l3/../l3/models dir", c13Base + "/l1//l2/l3/models dir/", c13Base + "/l1/l2/l3/./models dir/.", c13Base + "/l1/l2/l3/x/../models dir//"} {
		t.Setenv("OLLAMA_MODELS", oddAbs)
		for _, nm := range oddNames {
			c13OddRootMP(out, oddAbs, nm)
		}
		for _, d := range oddDigests {
			c13BlobCase(out, oddAbs, d)
		}
	}
	// relative roots and "/" itself: only the calls that create nothing (the test's working directory is the source tree)
	for _, oddRel := range []string{"m", "./m/", "a/../m", "../s", ".", "..", "a//b/", "./", "x/../..", "/", "//", "/..", "/a/..", "../../x/./y", "a/./../../b"} {
		t.Setenv("OLLAMA_MODELS", oddRel)
		for _, nm := range oddNames {
			c13OddRootMP(out, oddRel, nm)
		}
	}
	t.Setenv("OLLAMA_MODELS", models)
	// the real HTTP handlers over a scratch store with decoys outside it
	c13HandlerSuite(t, out)
	t.Setenv("OLLAMA_MODELS", models)
	// enumeration of the store (server.Manifests) and CopyModel over directories with odd entries
	eroot := zzverif.NewRng(zzverif.Seed() + 3500)
	ne := n / 40
	if ne < 40 {
		ne = 40
	}
	for i := 0; i < ne; i++ {
		r := eroot.Fork()
		c13EnumCase(t, out, c13GenEnum(r), r)
	}
	t.Setenv("OLLAMA_MODELS", models)
}

var c13EnumComps = [4][]string{
	{"registry.ollama.ai", "h", "H", "localhost:5000", "a.b", ".h", "h h", "é", "-h", "_", "..."},
	{"library", "n", "N", "a.b", ".n", "n-1", "n:1", "_n", "\u212a"},
	{"m", "M", "m.1", ".m", "m:1", "m@x", "_", "-m", "mistral", "\xff"},
	{"latest", "t", "T", "1.0", ".t", "t:1", "t t", "_", strings.Repeat("t", 80), strings.Repeat("t", 81)},
}

// c13GenEnum draws the files of one models/manifests tree: mostly depth 4, some shallower / deeper.
func c13GenEnum(r *zzverif.Rng) []string {
	var rels []string
	for k := r.Range(1, 9); k > 0; k-- {
		var q []string
		for lvl := 0; lvl < 4; lvl++ {
			c := zzverif.Pick(r, c13EnumComps[lvl])
			if r.Chance(2, 3) {
				c = c13EnumComps[lvl][r.Intn(3)]
			}
			q = append(q, c)
		}
		switch r.Intn(10) {
		case 0:
			q = q[:3]
		case 1:
			q = append(q, "x")
		}
		rels = append(rels, strings.Join(q, "/"))
	}
	return rels
}

// c13WalkFiles lists the regular files exactly four levels below dir in fs.Glob order (each level sorted by name).
func c13WalkFiles(dir string, depth int) []string {
	var res []string
	ents, _ := os.ReadDir(dir)
	for _, e := range ents {
		if depth == 1 {
			if !e.IsDir() {
				res = append(res, e.Name())
			}
		} else if e.IsDir() {
			for _, sub := range c13WalkFiles(filepath.Join(dir, e.Name()), depth-1) {
				res = append(res, e.Name()+"/"+sub)
			}
		}
	}
	return res
}

// c13EnumCase builds a manifests tree holding the files rels ("{}" each), runs the real server.Manifests over it and
// ties what it loads to the model; then (r != nil) one CopyModel from a loaded name.
func c13EnumCase(t *testing.T, out *zzverif.Out, rels []string, r *zzverif.Rng) {
	base := t.TempDir()
	models := filepath.Join(base, "store")
	t.Setenv("OLLAMA_MODELS", models)
	manifests := filepath.Join(models, "manifests")
	for _, rel := range rels {
		p := filepath.Join(manifests, rel)
		if os.MkdirAll(filepath.Dir(p), 0o755) == nil {
			os.WriteFile(p, []byte("{}"), 0o644)
		}
	}
	if r != nil && r.Chance(1, 4) { // a DIRECTORY at depth 4 (skipped by Manifests)
		os.MkdirAll(filepath.Join(manifests, "h/n/m/dir4"), 0o755)
	}
	files := c13WalkFiles(manifests, 4)
	idx := map[string]int{}
	var sb strings.Builder
	fmt.Fprintf(&sb, "enum %d", len(files))
	for i, f := range files {
		idx[f] = i
		sb.WriteString(" " + zzverif.Hex([]byte(f)))
	}
	op := sb.String()
	out.Count("cases")
	out.Count("enum_cases")
	ms, err := Manifests(true)
	if err != nil {
		out.Case(op, "error "+err.Error())
		return
	}
	type ent struct {
		n   model.Name
		rel string
		pos int
	}
	var ents []ent
	for n, m := range ms {
		rel := strings.TrimPrefix(m.filepath, manifests+"/")
		pos, ok := idx[rel]
		if !ok {
			pos = len(files)
			out.L2("enum-opens-other-file", op, fmt.Sprintf("name %q was loaded from %q, which the walk of the store does not list", n.String(), m.filepath))
		}
		if rel != n.Host+"/"+n.Namespace+"/"+n.Model+"/"+n.Tag {
			out.L2("enum-opens-other-file", op, fmt.Sprintf("name %q was loaded from %q", n.String(), rel))
		}
		if why := zzverif.C13Confined(models, "manifests", m.filepath, 4); why != "" {
			out.L2("manifest-path-escapes", op, why+" path="+zzverif.Hex([]byte(m.filepath)))
		}
		ents = append(ents, ent{n, rel, pos})
	}
	sort.Slice(ents, func(a, b int) bool {
		if ents[a].pos != ents[b].pos {
			return ents[a].pos < ents[b].pos
		}
		return ents[a].rel < ents[b].rel
	})
	var shown []string
	for _, e := range ents {
		shown = append(shown, zzverif.C13Fields(e.n.Host, e.n.Namespace, e.n.Model, e.n.Tag)+"="+zzverif.Hex([]byte(e.rel)))
	}
	out.Add("enum_files", len(files))
	out.Add("enum_loaded", len(ents))
	if len(shown) == 0 {
		out.Case(op, "-")
	} else {
		out.Case(op, strings.Join(shown, ";"))
	}
	// every file whose path spells a valid name is loaded (no manifest of the store is invisible)
	for _, f := range files {
		if n := model.ParseNameFromFilepath(f); n.IsValid() {
			if _, ok := ms[n]; !ok {
				out.L2("enum-misses-manifest", op, "the file "+f+" spells a valid name and was not loaded")
			}
		} else {
			out.Count("enum_skipped_invalid")
		}
	}
	if r == nil || len(ents) == 0 {
		return
	}
	// CopyModel from a loaded name to a drawn destination: the only file that may appear is manifests/<dst.Filepath()>
	src := ents[r.Intn(len(ents))].n
	_, ds := zzverif.C13Name(r)
	if r.Chance(1, 2) {
		q := strings.Split(c13GenEnum(r)[0], "/")
		for len(q) < 4 {
			q = append(q, "t")
		}
		ds = q[0] + "/" + q[1] + "/" + q[2] + ":" + q[3]
	}
	c13CopyCase(out, models, src, ds)
}

// c13CopyReplay: a store holding only the source manifest, then the recorded CopyModel.
func c13CopyReplay(t *testing.T, out *zzverif.Out, srcs, ds string) {
	models := filepath.Join(t.TempDir(), "store")
	t.Setenv("OLLAMA_MODELS", models)
	src := model.ParseName(srcs)
	if src.IsValid() {
		p := filepath.Join(models, "manifests", src.Filepath())
		os.MkdirAll(filepath.Dir(p), 0o755)
		os.WriteFile(p, []byte("{}"), 0o644)
	}
	c13CopyCase(out, models, src, ds)
}

func c13CopyCase(out *zzverif.Out, models string, src model.Name, ds string) {
	manifests := filepath.Join(models, "manifests")
	dst := model.ParseName(ds)
	before := map[string]bool{}
	for _, f := range c13AllFiles(models) {
		before[f] = true
	}
	cerr := CopyModel(src, dst)
	out.Count("copy_cases")
	out.Count("cases")
	if errors.Is(cerr, model.ErrUnqualifiedName) {
		out.Case("copy "+zzverif.Hex([]byte(src.String()))+" "+zzverif.Hex([]byte(ds)), "refused")
	} else {
		out.Case("copy "+zzverif.Hex([]byte(src.String()))+" "+zzverif.Hex([]byte(ds)), "accepted")
	}
	var fresh []string
	for _, f := range c13AllFiles(models) {
		if !before[f] {
			fresh = append(fresh, f)
		}
	}
	cop := "copy " + zzverif.Hex([]byte(src.String())) + " " + zzverif.Hex([]byte(ds))
	if !dst.IsValid() {
		out.Count("copy_refused_invalid")
		if cerr == nil || len(fresh) > 0 {
			out.L2("copy-escapes", cop, fmt.Sprintf("CopyModel to an invalid name: err=%v, created %s", cerr, strings.Join(fresh, ",")))
		}
		return
	}
	// whatever happens (success, or a late failure such as a path component that is a file), the only things that may
	// appear are manifests/<dst.Filepath()>, its parent directories and the store's own blobs directory
	want := filepath.Join(manifests, dst.Host, dst.Namespace, dst.Model, dst.Tag)
	for _, f := range fresh {
		if f != want && !strings.HasPrefix(want, f+"/") && f != filepath.Join(models, "blobs") {
			out.L2("copy-escapes", cop, "CopyModel created "+f+", want only "+want)
		}
	}
	if cerr != nil {
		out.Count("copy_refused")
		return
	}
	out.Count("copy_done")
	if why := zzverif.C13Confined(models, "manifests", want, 4); why != "" {
		out.L2("copy-escapes", cop, why+" path="+want)
	}
	if _, err := os.Stat(want); err != nil {
		out.L2("copy-escapes", cop, "CopyModel succeeded but "+want+" does not exist")
	}
}

// c13AllFiles lists every file and directory below dir.
func c13AllFiles(dir string) []string {
	var res []string
	filepath.Walk(dir, func(p string, info os.FileInfo, err error) error {
		if err == nil {
			res = append(res, p)
		}
		return nil
	})
	return res
}

// ---------------------------------------------------------------- the real gin handlers

type c13FailRT struct{}

func (c13FailRT) RoundTrip(*http.Request) (*http.Response, error) {
	return nil, errors.New("c13: no network in the handler suite")
}

type c13Rec struct{ *httptest.ResponseRecorder }

func (c13Rec) CloseNotify() <-chan bool { return make(chan bool) }

// c13Snapshot: every path below base with "d" for a directory and the content hash for a file.
func c13Snapshot(base string) map[string]string {
	m := map[string]string{}
	filepath.Walk(base, func(p string, info os.FileInfo, err error) error {
		if err != nil {
			return nil
		}
		if info.IsDir() {
			m[p] = "d"
		} else {
			b, _ := os.ReadFile(p)
			m[p] = fmt.Sprintf("%x", sha256.Sum256(b))
		}
		return nil
	})
	return m
}

// c13SeenByJSON: the string a handler receives after the JSON round trip of the request body.
func c13SeenByJSON(s string) string {
	b, _ := json.Marshal(s)
	var back string
	json.Unmarshal(b, &back)
	return back
}

func c13HandlerSuite(t *testing.T, out *zzverif.Out) {
	base := t.TempDir()
	store := filepath.Join(base, "l1", "l2", "l3", "store")
	put := func(p, content string) {
		os.MkdirAll(filepath.Dir(p), 0o755)
		os.WriteFile(p, []byte(content), 0o644)
	}
	blobX := fmt.Sprintf("sha256-%x", sha256.Sum256([]byte("x")))
	fixture := func() {
		put(filepath.Join(store, "manifests/registry.ollama.ai/library/inside/latest"), "{}")
		put(filepath.Join(store, "manifests/h/n/Phi/t"), "{}")
		put(filepath.Join(store, "blobs", blobX), "x")
		// decoys OUTSIDE the store, where a name / digest that climbs would land
		put(filepath.Join(base, "l1/l2/l3/manifests/registry.ollama.ai/library/decoy/latest"), "{}")
		put(filepath.Join(base, "l1/l2/l3/registry.ollama.ai/library/decoy/latest"), "{}")
		put(filepath.Join(base, "l1/l2/l3/decoy"), "{}")
		put(filepath.Join(base, "l1/l2/l3/decoyd/latest"), "{}")
		put(filepath.Join(base, "l1/l2/l3/store/decoyd/latest"), "{}")
		put(filepath.Join(base, "l1/l2/l3/blobs/sha256-"+strings.Repeat("a", 64)), "outside")
		put(filepath.Join(base, "l1/l2/l3/sha256-"+strings.Repeat("a", 64)), "outside")
		put(filepath.Join(base, "l1/l2/sha256-"+strings.Repeat("a", 64)), "outside")
	}
	fixture()
	t.Setenv("OLLAMA_MODELS", store)
	oldRT := http.DefaultTransport
	http.DefaultTransport = c13FailRT{}
	defer func() { http.DefaultTransport = oldRT }()
	srv := &Server{}
	h, err := srv.GenerateRoutes(nil)
	if err != nil {
		t.Fatal(err)
	}
	do := func(method, path string, body []byte) (code int, resp string) {
		defer func() {
			if r := recover(); r != nil {
				code, resp = 599, fmt.Sprint(r)
			}
		}()
		req := httptest.NewRequest(method, path, bytes.NewReader(body))
		req.Header.Set("Content-Type", "application/json")
		w := c13Rec{httptest.NewRecorder()}
		h.ServeHTTP(w, req)
		return w.Code, w.Body.String()
	}
	// FS effect of one request: everything that changed must lie inside the store, at the fixed places
	check := func(kind, op string, before map[string]string) {
		after := c13Snapshot(base)
		var changed []string
		for p, v := range after {
			if before[p] != v {
				changed = append(changed, p)
			}
		}
		for p := range before {
			if _, ok := after[p]; !ok {
				changed = append(changed, p)
			}
		}
		sort.Strings(changed)
		for _, p := range changed {
			if !strings.HasPrefix(p, store+"/") && p != store {
				out.L2("handler-touches-outside", op, kind+": changed outside the models directory: "+p)
				continue
			}
			rel := strings.TrimPrefix(p, store+"/")
			q := strings.Split(rel, "/")
			isFile := after[p] != "d" && after[p] != "" || before[p] != "d" && before[p] != ""
			ok := false
			switch q[0] {
			case "blobs":
				ok = len(q) == 1 || len(q) == 2
			case "manifests":
				ok = len(q) <= 5 && (!isFile || len(q) == 5)
			}
			if p == store {
				ok = true
			}
			if !ok {
				out.L2("handler-touches-outside", op, kind+": changed at an unexpected place inside the store: "+rel)
			}
		}
		if len(changed) > 0 {
			out.Count("handler_fs_changes")
			fixture()
		}
	}
	inStore := func(n model.Name) bool {
		for _, f := range c13WalkFiles(filepath.Join(store, "manifests"), 4) {
			if e := model.ParseNameFromFilepath(f); e.IsValid() && e.EqualFold(n) {
				return true
			}
		}
		return false
	}
	js := func(v any) []byte { b, _ := json.Marshal(v); return b }
	names := []string{"inside", "INSIDE", "h/n/phi:t", "H/N/PHI:T", "decoy", "../decoy", "../library/decoy", "../../registry.ollama.ai/library/decoy",
		"../manifests/registry.ollama.ai/library/decoy:latest", "registry.ollama.ai/library/../../decoy", "registry.ollama.ai/../library/decoy:latest",
		"../../decoyd", "../decoyd", "../../decoyd:latest", "..", ".", "../..", "a/../b", "h/n/..:t", "h/n/m:..", "h/../m:t", "../h/n/m:t", "/decoy", "//decoy", "h//decoy", "./decoy", "decoy/", "decoy:",
		"%2e%2e/decoy", "..%2fdecoy", "decoy\x00", "\\..\\decoy", "..\\decoy", "http://h/n/m:t", "x://decoy", "decoy@sha256:" + strings.Repeat("a", 64),
		"registry.ollama.ai/library/decoy/latest", "h/n/m/t/u", "", " ", "nosuch", "h/n/nosuch:t", strings.Repeat("a", 81), strings.Repeat("h", 351) + "/n/m:t"}
	root := zzverif.NewRng(zzverif.Seed() + 3700)
	for i := 0; i < 25; i++ {
		_, nm := zzverif.C13Name(root.Fork())
		names = append(names, nm)
	}
	type ep struct {
		kind, method, path string
		body               func(s string) []byte
		strict             bool // answers 400 exactly when the name is not valid
	}
	eps := []ep{
		{"show", "POST", "/api/show", func(s string) []byte { return js(map[string]any{"model": s}) }, true},
		{"delete", "DELETE", "/api/delete", func(s string) []byte { return js(map[string]any{"model": s}) }, true},
		{"copy-src", "POST", "/api/copy", func(s string) []byte { return js(map[string]any{"source": s, "destination": "h/n/copied:t"}) }, true},
		{"copy-dst", "POST", "/api/copy", func(s string) []byte { return js(map[string]any{"source": "inside", "destination": s}) }, true},
		{"create", "POST", "/api/create", func(s string) []byte { return js(map[string]any{"model": s, "from": "inside", "stream": false}) }, true},
		{"create-from", "POST", "/api/create", func(s string) []byte {
			return js(map[string]any{"model": "h/n/created:t", "from": s, "stream": false})
		}, false},
		{"pull", "POST", "/api/pull", func(s string) []byte { return js(map[string]any{"model": s, "stream": false}) }, true},
		{"push", "POST", "/api/push", func(s string) []byte { return js(map[string]any{"model": s, "stream": false}) }, false},
		{"generate", "POST", "/api/generate", func(s string) []byte { return js(map[string]any{"model": s, "prompt": "x", "stream": false}) }, false},
		{"chat", "POST", "/api/chat", func(s string) []byte {
			return js(map[string]any{"model": s, "stream": false, "messages": []map[string]string{{"role": "user", "content": "x"}}})
		}, false},
		{"embed", "POST", "/api/embed", func(s string) []byte { return js(map[string]any{"model": s, "input": "x"}) }, false},
		{"embeddings", "POST", "/api/embeddings", func(s string) []byte { return js(map[string]any{"model": s, "prompt": "x"}) }, false},
	}
	for _, raw := range names {
		s := c13SeenByJSON(raw)
		// L1: the parse step every handler shares, on the real functions: ParseName, IsValid, the path GetModel opens
		n := model.ParseName(s)
		hop := "hname " + zzverif.Hex([]byte(store)) + " " + zzverif.Hex([]byte(s))
		if !n.IsValid() {
			out.Case(hop, "invalid")
			out.Count("handler_names_invalid")
		} else {
			p, perr := ParseModelPath(n.String()).GetManifestPath()
			if perr != nil {
				out.Case(hop, "error")
			} else {
				out.Case(hop, "ok "+zzverif.Hex([]byte(p)))
			}
			out.Count("handler_names_valid")
			// the lookup every handler applies next: each part of its result is the request's part or the same-kind part of
			// a name the store holds (the relation ExistingResult of handler_name_confined), and the result is valid
			if r, rerr := getExistingName(n); rerr == nil {
				ex, _ := Manifests(true)
				okPart := func(get func(model.Name) string) bool {
					if get(r) == get(n) {
						return true
					}
					for e := range ex {
						if get(e) == get(r) {
							return true
						}
					}
					return false
				}
				if !okPart(func(x model.Name) string { return x.Host }) || !okPart(func(x model.Name) string { return x.Namespace }) ||
					!okPart(func(x model.Name) string { return x.Model }) || !okPart(func(x model.Name) string { return x.Tag }) || !r.IsValid() {
					out.L2("existing-name-foreign-part", hop, "getExistingName returned "+zzverif.C13Fields(r.Host, r.Namespace, r.Model, r.Tag))
				}
				if r != n {
					out.Count("handler_existing_renamed")
				}
			}
			if q := filepath.Join(store, "manifests", n.Filepath()); q != p {
				out.L2("handler-paths-disagree", hop, "GetModel would open "+p+", ParseNamedManifest "+q)
			}
		}
		out.Count("cases")
		for _, e := range eps {
			op := "hname " + zzverif.Hex([]byte(store)) + " " + zzverif.Hex([]byte(s))
			before := c13Snapshot(base)
			inStoreBefore := n.IsValid() && inStore(n)
			code, resp := do(e.method, e.path, e.body(s))
			out.Count("handler_requests")
			out.Count("handler_" + e.kind)
			if code == 599 {
				out.L2("handler-panics", op, e.kind+": "+resp)
			}
			check(e.kind, op, before)
			invalid := code >= 400 && (strings.Contains(resp, "invalid model name") || strings.Contains(resp, "invalid model path") || strings.Contains(resp, " is invalid\""))
			if e.strict && s != "" && invalid == n.IsValid() { // the empty name has its own answers ("model is required")
				out.L2("handler-validity-disagrees", op, fmt.Sprintf("%s: ParseName(..).IsValid()=%v but the handler answered %d %s", e.kind, n.IsValid(), code, resp))
			}
			if !n.IsValid() && code >= 200 && code < 300 {
				out.L2("handler-accepts-invalid-name", op, fmt.Sprintf("%s answered %d for a name that is not valid", e.kind, code))
			}
			// "found": the handler got past the lookup of the manifest (anything but invalid / 404 not found; the fixture's
			// manifests are empty, so show then fails later).  Only names the store spells may be found.
			// (show is not used: with the fixture's empty manifests it answers 404 later, when it opens the model file)
			if (e.kind == "delete" || e.kind == "copy-src") && n.IsValid() && !invalid && code != http.StatusNotFound &&
				!strings.Contains(resp, "file name too long") { // a valid 256..350-byte host is not a creatable directory name (ENAMETOOLONG)
				out.Count("handler_found")
				if !inStoreBefore {
					out.L2("handler-reads-outside", op, fmt.Sprintf("%s found a model that no manifest of the store spells: %d %s", e.kind, code, resp))
				}
			} else if (e.kind == "delete" || e.kind == "copy-src") && n.IsValid() && inStoreBefore {
				out.L2("handler-misses-model", op, fmt.Sprintf("%s does not find a model the store holds: %d %s", e.kind, code, resp))
			}
		}
	}
	// /api/blobs/:digest, HEAD and POST
	digests := []string{"sha256:" + strings.Repeat("a", 64), "sha256-" + strings.Repeat("a", 64), strings.Replace(blobX, "-", ":", 1), blobX,
		"..", "sha256:..", "..%2fsha256:" + strings.Repeat("a", 64), "..%2f..%2fsha256-" + strings.Repeat("a", 64), "%2e%2e", "sha256:" + strings.Repeat("A", 64),
		"sha256:" + strings.Repeat("a", 63), "sha256:" + strings.Repeat("a", 65), "x", "sha256", "sha256:" + strings.Repeat("%2f", 64), "sha256%3a" + strings.Repeat("a", 64)}
	for i := 0; i < 25; i++ {
		_, d := zzverif.C13Digest(root.Fork())
		printable := d != ""
		for _, c := range []byte(d) {
			if c <= ' ' || c >= 0x7f || strings.ContainsRune("/?#%\\", rune(c)) {
				printable = false
			}
		}
		if printable {
			digests = append(digests, d)
		}
	}
	for _, d := range digests {
		for _, method := range []string{"HEAD", "POST"} {
			op := "blobs " + zzverif.Hex([]byte(store)) + " " + zzverif.Hex([]byte(d))
			before := c13Snapshot(base)
			code, resp := do(method, "/api/blobs/"+d, []byte("x"))
			out.Count("handler_requests")
			out.Count("handler_blob_" + method)
			if code == 599 {
				out.L2("handler-panics", op, method+" blobs: "+resp)
			}
			check("blobs-"+method, op, before)
			if !strings.Contains(d, "%") {
				_, gerr := GetBlobsPath(d)
				if (gerr != nil) != (code == http.StatusBadRequest && strings.Contains(resp, "invalid digest")) && !(gerr == nil && code == http.StatusBadRequest && method == "POST") {
					out.L2("handler-validity-disagrees", op, fmt.Sprintf("%s /api/blobs: GetBlobsPath err=%v but the handler answered %d %s", method, gerr, code, resp))
				}
				if gerr != nil && code >= 200 && code < 300 {
					out.L2("handler-accepts-invalid-name", op, fmt.Sprintf("%s /api/blobs answered %d for a refused digest", method, code))
				}
			}
			if method == "HEAD" && code == http.StatusOK {
				out.Count("handler_blob_found")
				if p, _ := GetBlobsPath(d); !strings.HasPrefix(p, store+"/blobs/") {
					out.L2("handler-reads-outside", op, "HEAD /api/blobs found a blob outside the store")
				}
				if !strings.EqualFold(strings.Replace(d, ":", "-", 1), blobX) {
					out.L2("handler-reads-outside", op, "HEAD /api/blobs answered 200 for a digest the store does not hold: "+d)
				}
			}
		}
	}
}
