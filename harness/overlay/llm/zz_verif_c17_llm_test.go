package llm

// C17 — tie of the runner-protocol assumption (`CompletionShape` in Properties/C17.lean) to the real
// llmServer.Completion (llm/server.go): a scripted HTTP runner answers /health and /completion; the driver records
// what Completion hands to the callback and what it returns, and checks the shape the C17 theorems assume:
// chunks that are not done, then EITHER one done chunk as the last callback and a nil return, OR no done chunk and
// an error or nil.  It also records that a runner line carrying content AND done is delivered as two callbacks.

import (
	"context"
	"encoding/json"
	"fmt"
	"net"
	"net/http"
	"net/http/httptest"
	"os"
	"os/exec"
	"strconv"
	"strings"
	"testing"

	"golang.org/x/sync/semaphore"

	"github.com/ollama/ollama/api"
	"github.com/ollama/ollama/zzverif"
)

type vc17Script struct {
	status int      // HTTP status of /completion
	lines  []string // body lines, written as is
	cut    bool     // close the connection without a clean end after the lines (hijack)
}

func vc17RunCompletion(t *testing.T, sc vc17Script) (cbs []CompletionResponse, ret error) {
	mux := http.NewServeMux()
	mux.HandleFunc("/health", func(w http.ResponseWriter, r *http.Request) {
		w.Header().Set("Content-Type", "application/json")
		fmt.Fprint(w, `{"status":0,"progress":1}`) // ServerStatusReady
	})
	mux.HandleFunc("/completion", func(w http.ResponseWriter, r *http.Request) {
		if sc.status != 200 {
			w.WriteHeader(sc.status)
			fmt.Fprint(w, "runner says no")
			return
		}
		if sc.cut {
			// promise more than is sent, then drop the connection: an unexpected EOF for the client
			w.Header().Set("Content-Length", "1000000")
		}
		for _, l := range sc.lines {
			fmt.Fprint(w, l+"\n")
		}
		if sc.cut {
			if fl, ok := w.(http.Flusher); ok {
				fl.Flush() // the lines reach the client, then the connection drops
			}
			if hj, ok := w.(http.Hijacker); ok {
				conn, _, _ := hj.Hijack()
				conn.Close()
			}
		}
	})
	srv := httptest.NewServer(mux)
	defer srv.Close()
	_, portStr, _ := net.SplitHostPort(strings.TrimPrefix(srv.URL, "http://"))
	port, _ := strconv.Atoi(portStr)
	// a live child stands in for the runner process (Completion looks at its state; Close kills it on an unexpected EOF)
	cmd := exec.Command("sleep", "300")
	if err := cmd.Start(); err != nil {
		t.Fatal(err)
	}
	s := &llmServer{port: port, sem: semaphore.NewWeighted(1), options: api.DefaultOptions(), done: make(chan error, 1), cmd: cmd}
	go func() { s.done <- cmd.Wait() }()
	defer cmd.Process.Kill()
	ret = s.Completion(context.Background(), CompletionRequest{Prompt: "hi", Options: &s.options}, func(c CompletionResponse) {
		cbs = append(cbs, c)
	})
	return cbs, ret
}

func TestVerifC17Completion(t *testing.T) {
	out := zzverif.NewOut()
	defer out.Close()
	r := zzverif.NewRng(zzverif.Seed())
	n := zzverif.EnvInt("VERIF_N", 300)
	words := []string{"a", "b ", "the", " sky", "", "{\"name\":", "x", "x", "x"}
	for i := 0; i < n; i++ {
		rr := r.Fork()
		var sc vc17Script
		sc.status = 200
		k := rr.Range(0, 6)
		if rr.Chance(1, 12) {
			k = rr.Range(31, 40) // long enough for the token-repeat abort
		}
		same := rr.Chance(1, 6)
		if i%20 == 7 { // every 20th case: enough equal tokens for the token-repeat abort
			k, same = rr.Range(33, 40), true
		}
		for j := 0; j < k; j++ {
			w := zzverif.Pick(rr, words)
			if same {
				w = "x"
			}
			line := fmt.Sprintf(`{"content":%q}`, w)
			if rr.Chance(1, 3) {
				line = "data: " + line
			}
			sc.lines = append(sc.lines, line)
			if rr.Chance(1, 10) {
				sc.lines = append(sc.lines, "")
			}
		}
		end := rr.Intn(8)
		switch end {
		case 0, 1, 2: // the runner's final message: done, no content
			sc.lines = append(sc.lines, `{"content":"","done":true,"done_reason":0,"prompt_eval_count":3,"eval_count":4}`)
		case 3: // done line that also carries content
			sc.lines = append(sc.lines, `{"content":"tail","done":true,"done_reason":1,"prompt_eval_count":3,"eval_count":4}`)
		case 4: // lines after the done line must never reach the callback
			sc.lines = append(sc.lines, `{"content":"","done":true,"done_reason":0}`, `{"content":"after"}`, `{"content":"","done":true}`)
		case 5: // clean end without done
		case 6: // garbage
			sc.lines = append(sc.lines, `{"content":`)
		case 7:
			if rr.Bool() {
				sc.status = 500
			} else {
				sc.cut = true
			}
		}
		cbs, ret := vc17RunCompletion(t, sc)
		// canonical observation: every callback (content, done, reason, counts) and nil / err
		var b strings.Builder
		dones, lastDone, afterDone := 0, false, false
		for j, c := range cbs {
			fmt.Fprintf(&b, "%s/%s/%d/%d/%d ", zzverif.Hex([]byte(c.Content)), map[bool]string{true: "1", false: "0"}[c.Done], int(c.DoneReason), c.PromptEvalCount, c.EvalCount)
			if dones > 0 {
				afterDone = true
			}
			if c.Done {
				dones++
				lastDone = j == len(cbs)-1
			}
		}
		retS := "nil"
		if ret != nil {
			retS = "err"
		}
		caseLine := fmt.Sprintf("completion end=%d status=%d cut=%v lines=%q", end, sc.status, sc.cut, sc.lines)
		// oracle command: completion <httpFail> <clean|broken> <n> {blank | bad | r <contenthex> <done> <reason> <pec> <ec>}*
		var op strings.Builder
		fmt.Fprintf(&op, "completion %s %s %d", map[bool]string{true: "1", false: "0"}[sc.status != 200], map[bool]string{true: "broken", false: "clean"}[sc.cut], len(sc.lines))
		for _, l := range sc.lines {
			l = strings.TrimPrefix(l, "data: ")
			var c CompletionResponse
			switch {
			case l == "":
				op.WriteString(" blank")
			case json.Unmarshal([]byte(l), &c) != nil:
				op.WriteString(" bad")
			default:
				fmt.Fprintf(&op, " r %s %s %d %d %d", zzverif.Hex([]byte(c.Content)), map[bool]string{true: "1", false: "0"}[c.Done], int(c.DoneReason), c.PromptEvalCount, c.EvalCount)
			}
		}
		out.Case(op.String(), strings.TrimSpace(b.String()+retS))
		out.Count("cases")
		out.Count(fmt.Sprintf("completion_end_%d", end))
		out.Count(fmt.Sprintf("completion_dones_%d_ret_%s", dones, retS))
		if k >= 31 && same && dones == 0 && ret == nil && len(cbs) < k {
			out.Count("completion_token_repeat_abort")
		}
		// CompletionShape: no callback after a done chunk; a done chunk => it is the last callback and nil is returned
		ok := !afterDone && dones <= 1 && (dones == 0 || (lastDone && ret == nil))
		if !ok {
			out.L2("completion-shape", caseLine, fmt.Sprintf("callbacks=%s return=%s", b.String(), retS))
		}
		if end == 3 {
			// recorded fact: content+done runner line = two callbacks (content, then the same content with done)
			if len(cbs) >= 2 && cbs[len(cbs)-1].Done && cbs[len(cbs)-1].Content == "tail" && cbs[len(cbs)-2].Content == "tail" && !cbs[len(cbs)-2].Done {
				out.Count("completion_content_and_done_line_delivered_twice")
			} else {
				out.Count("completion_content_and_done_line_delivered_once")
			}
		}
	}
	_ = os.Getenv
}
