package llm

// Verification driver for C16 (memory estimator: EstimateGPULayers / PredictServerFit).
// Added to the package at build time with `go test -overlay`; never committed to /repo.
//
// Per case: a synthetic GGUF (written with the real ggml.WriteGGUF, decoded with the real
// ggml.Decode), a GPU list, options and OLLAMA_GPU_OVERHEAD.  The driver
//   * recomputes the quantities the estimator derives from the file/environment with the same
//     functions the estimator calls and writes them as the oracle command (ops.txt),
//   * prints the real MemoryEstimate of every library group + the real PredictServerFit result
//     (impl.txt) — L1,
//   * evaluates every clause of the property directly on the real results (l2.txt) — L2.

import (
	"bytes"
	"encoding/json"
	"fmt"
	"io"
	"log/slog"
	"math/bits"
	"os"
	"path/filepath"
	"sort"
	"strconv"
	"strings"
	"testing"

	"github.com/ollama/ollama/api"
	"github.com/ollama/ollama/discover"
	"github.com/ollama/ollama/envconfig"
	"github.com/ollama/ollama/fs/ggml"
	"github.com/ollama/ollama/zzverif"
)

type vcTensor struct {
	Name  string   `json:"n"`
	Kind  uint32   `json:"k"`
	Shape []uint64 `json:"s"`
}

type vcFile struct {
	Arch    string            `json:"arch"`
	U32     map[string]uint32 `json:"u32,omitempty"` // keys without the "<arch>." prefix
	Vocab   int               `json:"vocab"`
	Tensors []vcTensor        `json:"t"`
}

type vcGPU struct {
	Lib     string `json:"lib"`
	Variant string `json:"var,omitempty"`
	Free    uint64 `json:"free"`
	Min     uint64 `json:"min"`
	ID      string `json:"id,omitempty"` // default: the index
}

type vcCfg struct {
	Model    vcFile   `json:"model"`
	Projs    []vcFile `json:"projs,omitempty"`
	MissProj bool     `json:"missproj,omitempty"` // additionally pass a projector path that does not exist
	GPUs     []vcGPU  `json:"gpus"`
	NumGPU   int      `json:"num_gpu"`
	NumCtx   int      `json:"num_ctx"`
	NumBatch int      `json:"num_batch"`
	Parallel int      `json:"parallel"`
	Overhead uint64   `json:"overhead"`
	Tag      string   `json:"tag,omitempty"`
}

// ---------------------------------------------------------------- building the files

func vcWriteFile(dir, name string, spec vcFile) (string, error) {
	kv := ggml.KV{"general.architecture": spec.Arch}
	for k, v := range spec.U32 {
		kv[spec.Arch+"."+k] = v
	}
	toks := make([]string, spec.Vocab)
	for i := range toks {
		toks[i] = "t"
	}
	kv["tokenizer.ggml.tokens"] = toks
	ts := make([]ggml.Tensor, 0, len(spec.Tensors))
	for _, t := range spec.Tensors {
		ts = append(ts, ggml.Tensor{Name: t.Name, Kind: t.Kind, Shape: append([]uint64(nil), t.Shape...), WriterTo: bytes.NewReader(nil)})
	}
	p := filepath.Join(dir, name)
	f, err := os.Create(p)
	if err != nil {
		return "", err
	}
	defer f.Close()
	if err := ggml.WriteGGUF(f, kv, ts); err != nil {
		return "", err
	}
	return p, nil
}

type vcLoaded struct {
	f     *ggml.GGML
	projs []string
}

func vcLoad(dir string, cfg *vcCfg) (*vcLoaded, error) {
	p, err := vcWriteFile(dir, "model.gguf", cfg.Model)
	if err != nil {
		return nil, err
	}
	f, err := LoadModel(p, 0)
	if err != nil {
		return nil, err
	}
	l := &vcLoaded{f: f}
	for i, ps := range cfg.Projs {
		pp, err := vcWriteFile(dir, fmt.Sprintf("proj%d.gguf", i), ps)
		if err != nil {
			return nil, err
		}
		l.projs = append(l.projs, pp)
	}
	if cfg.MissProj {
		l.projs = append(l.projs, filepath.Join(dir, "does-not-exist.gguf"))
	}
	return l, nil
}

// ---------------------------------------------------------------- running one case

func vcGpuList(cfg *vcCfg) discover.GpuInfoList {
	var l discover.GpuInfoList
	for i, g := range cfg.GPUs {
		gi := discover.GpuInfo{Library: g.Lib, Variant: g.Variant, MinimumMemory: g.Min, ID: strconv.Itoa(i)}
		if g.ID != "" {
			gi.ID = g.ID
		}
		gi.FreeMemory = g.Free
		gi.TotalMemory = g.Free
		l = append(l, gi)
	}
	return l
}

func vcOpts(cfg *vcCfg) api.Options {
	o := api.DefaultOptions()
	o.NumGPU = cfg.NumGPU
	o.NumCtx = cfg.NumCtx
	o.NumBatch = cfg.NumBatch
	return o
}

func optU(ok bool, v uint64) string {
	if !ok {
		return "-"
	}
	return strconv.FormatUint(v, 10)
}

func vcLibTok(lib string) string {
	switch lib {
	case "cpu", "metal":
		return lib
	}
	return "gpu"
}

type vcDerived struct {
	blocks     int
	layerSizes []uint64 // value of layerSize in iteration i (resolved, with uint64 arithmetic)
	layer0     uint64
}

// vcOp recomputes what the estimator derives from file and environment, with the functions
// the estimator itself calls, and renders the oracle command.
func vcOp(cfg *vcCfg, l *vcLoaded, all discover.GpuInfoList, groups []discover.GpuInfoList) (string, vcDerived) {
	f := l.f
	var sb strings.Builder
	// code variant the model is to mirror: 0 = pinned, 1 = with fix C16-W1 (detected by vcDetectVariant)
	fmt.Fprintf(&sb, "c16 %d %d %d", vcVariant, cfg.NumGPU, envconfig.GpuOverhead())
	numCtx := cfg.NumCtx
	fmt.Fprintf(&sb, " %d", len(l.projs))
	for _, p := range l.projs {
		w, g := projectorMemoryRequirements(p)
		fmt.Fprintf(&sb, " %d %d", w, g)
		numCtx = max(numCtx, 2048)
	}
	vw, vg := f.VisionGraphSize()
	fmt.Fprintf(&sb, " %d %d", vw, vg)
	layers := f.Tensors().GroupLayers()
	var d vcDerived
	blk0, ok := layers["blk.0"]
	var b0 uint64
	if ok {
		b0 = blk0.Size()
	}
	fmt.Fprintf(&sb, " %s", optU(ok, b0))
	kv, gp, gf := f.GraphSize(uint64(numCtx), uint64(min(numCtx, cfg.NumBatch)), cfg.Parallel, "")
	d.blocks = int(f.KV().BlockCount())
	if len(kv) != d.blocks {
		panic("kv length != block count")
	}
	d.layer0 = b0
	if len(kv) > 0 {
		d.layer0 += kv[0]
	}
	fmt.Fprintf(&sb, " %d", d.blocks)
	cur := d.layer0
	for i := 0; i < d.blocks; i++ {
		blk, ok := layers[fmt.Sprintf("blk.%d", i)]
		var sz uint64
		if ok {
			sz = blk.Size()
			cur = sz + kv[i]
		}
		d.layerSizes = append(d.layerSizes, cur)
		fmt.Fprintf(&sb, " %s %d", optU(ok, sz), kv[i])
	}
	fmt.Fprintf(&sb, " %d %d %d", gp, gf, f.KV().GQA())
	for _, name := range []string{"output_norm", "output", "token_embd"} {
		lay, ok := layers[name]
		var sz uint64
		if ok {
			sz = lay.Size()
		}
		fmt.Fprintf(&sb, " %s", optU(ok, sz))
	}
	// the flat list as PredictServerFit receives it; the model forms the ByLibrary groups itself
	keys := map[string]int{}
	ids := map[string]int{}
	n := 0
	for _, g := range groups {
		n += len(g)
	}
	fmt.Fprintf(&sb, " %d", n)
	for _, x := range all {
		k := x.Library
		if x.Variant != "" {
			k += "_" + x.Variant
		}
		if _, ok := keys[k]; !ok {
			keys[k] = len(keys)
		}
		if _, ok := ids[x.ID]; !ok {
			ids[x.ID] = len(ids)
		}
		fmt.Fprintf(&sb, " %d %d %s %d %d", keys[k], ids[x.ID], vcLibTok(x.Library), x.FreeMemory, x.MinimumMemory)
	}
	return sb.String(), d
}

func commaU(xs []uint64) string {
	if len(xs) == 0 {
		return "-"
	}
	s := make([]string, len(xs))
	for i, x := range xs {
		s[i] = strconv.FormatUint(x, 10)
	}
	return strings.Join(s, ",")
}

func vcShowEst(e MemoryEstimate) string {
	split := e.TensorSplit
	if split == "" {
		split = "-"
	}
	return fmt.Sprintf("L=%d G=%d V=%d T=%d S=%s Z=%s kv=%d mw=%d mo=%d gf=%d gp=%d pw=%d pg=%d",
		e.Layers, e.Graph, e.VRAMSize, e.TotalSize, split, commaU(e.GPUSizes), e.kv, e.memoryWeights,
		e.memoryLayerOutput, e.graphFullOffload, e.graphPartialOffload, e.projectorWeights, e.projectorGraph)
}

type vcResult struct {
	fit    bool
	vram   uint64
	ests   []MemoryEstimate
	groups []discover.GpuInfoList
	op     string
	impl   string
	d      vcDerived
	panicS string
}

func vcRun(cfg *vcCfg, l *vcLoaded) (r vcResult) {
	os.Setenv("OLLAMA_GPU_OVERHEAD", strconv.FormatUint(cfg.Overhead, 10))
	all := vcGpuList(cfg)
	r.groups = all.ByLibrary()
	r.op, r.d = vcOp(cfg, l, all, r.groups)
	defer func() {
		if x := recover(); x != nil {
			r.panicS = fmt.Sprint(x)
			r.impl = "panic:" + strings.ReplaceAll(r.panicS, "\n", " ")
		}
	}()
	opts := vcOpts(cfg)
	r.fit, r.vram = PredictServerFit(all, l.f, nil, l.projs, opts, cfg.Parallel)
	parts := []string{fmt.Sprintf("fit=%d,%d", b2i(r.fit), r.vram)}
	for _, g := range r.groups {
		gl := append(discover.GpuInfoList(nil), g...)
		e := EstimateGPULayers(gl, l.f, l.projs, opts, cfg.Parallel)
		r.ests = append(r.ests, e)
		// what a runner loaded with this estimate would report to the scheduler
		srv := &llmServer{gpus: gl, estimate: e}
		by := make([]uint64, len(gl))
		for i := range gl {
			by[i] = srv.EstimatedVRAMByGPU(gl[i].ID)
		}
		parts = append(parts, vcShowEst(e)+" B="+commaU(by))
	}
	r.impl = strings.Join(parts, " | ")
	return r
}

func b2i(b bool) int {
	if b {
		return 1
	}
	return 0
}

// ---------------------------------------------------------------- L2: the property on the real results

// sumOK adds without wrap-around; ok=false if the exact sum does not fit in 64 bits.
func sumOK(xs ...uint64) (uint64, bool) {
	var s uint64
	ok := true
	for _, x := range xs {
		var c uint64
		s, c = bits.Add64(s, x, 0)
		if c != 0 {
			ok = false
		}
	}
	return s, ok
}

// vcWraps names the first of the estimator's OWN sums that can exceed 64 bits for this input, mirroring the Lean
// guard `NoWrap` of the variant the tree is expected to implement (fix C16-W1: the overhead is in no sum, so it is
// not an operand here either):
//   "admit"   gzo + max(gP,gF) + MinimumMemory + 2*layerSize          (admission requirement of some GPU)
//   "place"   the above + FreeMemory + L                               (bound of alloc + max(gP,gF) + L, L any layer / output)
//   "summary" sum(FreeMemory) + blocks*lastLayer + memoryLayerOutput   (memoryRequiredPartial / overflow / total)
//   "none"    the guard holds.
// Used only to label L2 failures, so that the known remaining wrap-around (finding W2) is told apart from anything else;
// a failure that only involves a huge OLLAMA_GPU_OVERHEAD is "none" (finding W1 is fixed: it must not come back).
func vcWraps(e MemoryEstimate, d vcDerived, gpus discover.GpuInfoList) string {
	gzo, ok := sumOK(e.projectorWeights, e.projectorGraph)
	if !ok {
		// the estimator's own gzo wrapped: the core constants are the wrapped ones
		gzo = e.projectorWeights + e.projectorGraph
	}
	maxg := max(e.graphPartialOffload, e.graphFullOffload)
	needs := append([]uint64{e.memoryLayerOutput}, d.layerSizes...)
	for _, g := range gpus {
		if _, ok := sumOK(gzo, maxg, g.MinimumMemory, d.layer0, d.layer0); !ok {
			return "admit"
		}
	}
	var sumFree uint64
	sumWraps := false
	for _, g := range gpus {
		var ok bool
		if sumFree, ok = sumOK(sumFree, g.FreeMemory); !ok {
			sumWraps = true
		}
		for _, L := range needs {
			if _, ok := sumOK(gzo, maxg, g.MinimumMemory, d.layer0, d.layer0, g.FreeMemory, L); !ok {
				return "place"
			}
		}
	}
	if sumWraps {
		return "summary"
	}
	last := d.layer0
	if len(d.layerSizes) > 0 {
		last = d.layerSizes[len(d.layerSizes)-1]
	}
	hi, lo := bits.Mul64(uint64(d.blocks), last)
	if hi != 0 {
		return "summary"
	}
	if _, ok = sumOK(sumFree, lo, e.memoryLayerOutput); !ok {
		return "summary"
	}
	return "none"
}

func vcNoWrap(e MemoryEstimate, d vcDerived, gpus discover.GpuInfoList, overhead uint64) bool {
	return vcWraps(e, d, gpus) == "none"
}

func vcL2(out *zzverif.Out, cfg *vcCfg, caseLine string, r *vcResult) {
	if r.panicS != "" {
		out.L2("panic", caseLine, r.panicS)
		return
	}
	blocks := r.d.blocks
	fail := func(kind string, gi int, format string, a ...any) {
		w := vcWraps(r.ests[gi], r.d, r.groups[gi])
		out.L2(kind, caseLine, fmt.Sprintf("group=%d nowrap=%v wraps=%s ", gi, w == "none", w)+fmt.Sprintf(format, a...))
	}
	placedAll := false
	placedEvery := false
	maxPlaced := 0
	for gi, e := range r.ests {
		gpus := r.groups[gi]
		// per-GPU layer counts as the runner will see them
		counts := make([]int, len(gpus))
		if e.TensorSplit != "" {
			parts := strings.Split(e.TensorSplit, ",")
			if len(parts) != len(gpus) {
				fail("split-sum", gi, "split %q has %d entries for %d gpus", e.TensorSplit, len(parts), len(gpus))
			}
			sum := 0
			for i, p := range parts {
				n, err := strconv.Atoi(p)
				if err != nil || n < 0 {
					fail("split-sum", gi, "split entry %q", p)
				}
				if i < len(counts) {
					counts[i] = n
				}
				sum += n
			}
			if sum != e.Layers {
				fail("split-sum", gi, "split %q sums to %d, layers=%d", e.TensorSplit, sum, e.Layers)
			}
		} else {
			if len(gpus) > 1 && e.Layers > 0 {
				fail("split-sum", gi, "no split for %d gpus with layers=%d", len(gpus), e.Layers)
			}
			counts[0] = e.Layers
		}
		// allocation vs free memory less overhead
		if len(e.GPUSizes) != 0 && len(e.GPUSizes) != len(gpus) {
			fail("sizes-shape", gi, "%d sizes for %d gpus", len(e.GPUSizes), len(gpus))
		}
		if e.Layers > 0 && len(e.GPUSizes) != len(gpus) {
			fail("sizes-shape", gi, "layers=%d but %d sizes for %d gpus", e.Layers, len(e.GPUSizes), len(gpus))
		}
		var sumSizes uint64
		for i, sz := range e.GPUSizes {
			sumSizes += sz
			if i >= len(gpus) {
				break
			}
			need, ok := sumOK(sz, cfg.Overhead)
			if sz != 0 && (!ok || need > gpus[i].FreeMemory) {
				fail("alloc-exceeds-free", gi, "gpu=%d size=%d overhead=%d free=%d layers_on_gpu=%d", i, sz, cfg.Overhead, gpus[i].FreeMemory, counts[i])
			}
			// (a GPU may hold layers and still have 0 bytes planned: zero-size layers, no graph, no
			// minimum — the property says nothing about that)
		}
		if e.Layers > 0 && sumSizes != e.VRAMSize {
			fail("vram-sum", gi, "sizes sum to %d, VRAMSize=%d", sumSizes, e.VRAMSize)
		}
		if e.Layers < 0 || e.Layers > blocks+1 {
			fail("layers-exceed", gi, "layers=%d blocks=%d", e.Layers, blocks)
		}
		if cfg.NumGPU >= 0 && e.Layers > cfg.NumGPU {
			fail("layers-exceed", gi, "layers=%d num_gpu=%d", e.Layers, cfg.NumGPU)
		}
		if e.TotalSize < e.VRAMSize {
			fail("total-lt-vram", gi, "total=%d vram=%d", e.TotalSize, e.VRAMSize)
		}
		if gpus[0].Library == "cpu" && (e.Layers != 0 || e.VRAMSize != 0 || len(e.GPUSizes) != 0 || e.TensorSplit != "") {
			fail("cpu-layers", gi, "layers=%d vram=%d", e.Layers, e.VRAMSize)
		}
		if e.Layers > 0 {
			// "all requested layers": every layer of the model, or the user's limit if that is lower
			if cfg.NumGPU < 0 && e.Layers == blocks+1 {
				placedAll = true
			}
			if cfg.NumGPU >= 0 && e.Layers >= min(cfg.NumGPU, blocks+1) {
				placedAll = true
			}
			if e.Layers == blocks+1 {
				placedEvery = true
			}
			maxPlaced = max(maxPlaced, e.Layers)
		}
	}
	if r.fit {
		// the VRAM figure PredictServerFit returns is that of a group whose estimate places all requested layers, and
		// (guard permitting) it fits into the free memory of that group's GPUs together
		found := false
		for gi, e := range r.ests {
			okLayers := (cfg.NumGPU < 0 && e.Layers == blocks+1) || (cfg.NumGPU >= 0 && e.Layers > 0 && e.Layers >= min(cfg.NumGPU, blocks+1))
			if !okLayers || e.VRAMSize != r.vram {
				continue
			}
			found = true
			var sumFree uint64
			wrap := false
			for _, g := range r.groups[gi] {
				var ok bool
				if sumFree, ok = sumOK(sumFree, g.FreeMemory); !ok {
					wrap = true
				}
			}
			if !wrap && r.vram > sumFree {
				fail("fit-vram-exceeds-free", gi, "fit=true with vram=%d > free memory of the group's GPUs together=%d", r.vram, sumFree)
			}
			break
		}
		if !found && placedAll {
			out.L2("fit-vram-mismatch", caseLine, fmt.Sprintf("fit=true vram=%d is not the VRAMSize of any library group that placed all requested layers", r.vram))
		}
	}
	if r.fit && !placedAll {
		out.L2("fit-not-placed", caseLine, fmt.Sprintf("fit=true but no library group placed all requested layers (num_gpu=%d blocks=%d)", cfg.NumGPU, blocks))
	}
	// the clause as the property states it: a complete fit only if ALL of the model's layers were placed
	// (enabled by C16's own check; a user limit below the layer count is finding N1)
	if os.Getenv("VERIF_C16_LITERAL") != "" && r.fit && !placedEvery {
		class := "other"
		if cfg.NumGPU > 0 && cfg.NumGPU < blocks+1 {
			class = "user-limit"
		}
		out.L2("fit-partial-offload", caseLine, fmt.Sprintf("class=%s fit=true although at most %d of the model's %d layers were placed (num_gpu=%d)", class, maxPlaced, blocks+1, cfg.NumGPU))
	}
}

// ---------------------------------------------------------------- generators

var vcKinds = []struct {
	kind uint32
	ts   uint64 // type size
	bs   uint64 // block size
}{{0, 4, 1}, {1, 2, 1}, {2, 18, 32}, {8, 34, 32}}

// vcTensorOf makes a tensor of roughly `bytes` bytes.
func vcTensorOf(r *zzverif.Rng, name string, bytes uint64) vcTensor {
	k := vcKinds[r.Intn(len(vcKinds))]
	elems := bytes * k.bs / k.ts
	elems -= elems % k.bs
	if elems == 0 {
		elems = k.bs
	}
	shape := []uint64{elems}
	if elems%64 == 0 && r.Bool() {
		shape = []uint64{64, elems / 64}
	}
	return vcTensor{Name: name, Kind: k.kind, Shape: shape}
}

var vcArchs = []string{"llama", "llama", "qwen2", "gemma3", "gemma2", "command-r", "verifarch", "phi2", "mllama"}

func vcGenModel(r *zzverif.Rng, out *zzverif.Out) vcFile {
	arch := zzverif.Pick(r, vcArchs)
	blocks := 0
	switch r.Intn(10) {
	case 0:
		blocks = r.Range(0, 2)
	case 1, 2, 3:
		blocks = r.Range(1, 8)
	case 4, 5, 6, 7:
		blocks = r.Range(8, 40)
	default:
		blocks = r.Range(40, 80)
	}
	heads := uint32(zzverif.Pick(r, []int{0, 1, 8, 32, 32, 40, 64}))
	headsKV := uint32(zzverif.Pick(r, []int{1, 1, 4, 8, 32}))
	emb := uint32(zzverif.Pick(r, []int{64, 512, 2048, 4096, 4096, 8192}))
	m := vcFile{Arch: arch, Vocab: r.Range(1, 40), U32: map[string]uint32{
		"block_count":          uint32(blocks),
		"embedding_length":     emb,
		"attention.head_count": heads,
		"context_length":       uint32(zzverif.Pick(r, []int{32, 2048, 8192, 131072})),
	}}
	if r.Chance(4, 5) {
		m.U32["attention.head_count_kv"] = headsKV
	}
	if r.Chance(1, 4) {
		m.U32["attention.key_length"] = uint32(zzverif.Pick(r, []int{64, 128, 256}))
		m.U32["attention.value_length"] = uint32(zzverif.Pick(r, []int{64, 128, 256}))
	}
	if arch == "gemma3" {
		m.U32["attention.sliding_window"] = uint32(zzverif.Pick(r, []int{512, 1024, 4096}))
	}
	if arch == "llama" && r.Chance(1, 6) {
		m.U32["feed_forward_length"] = uint32(zzverif.Pick(r, []int{1024, 14336}))
	}
	// layer size profile
	base := uint64(1) << uint(r.Range(4, 31))
	if r.Chance(1, 12) {
		base = uint64(r.Range(1, 64))
	}
	uneven := r.Intn(3) // 0 uniform, 1 mild, 2 wild
	out.Count(fmt.Sprintf("model_uneven_%d", uneven))
	names := []string{"attn_q.weight", "ffn_up.weight", "ffn_down.weight", "attn_norm.weight"}
	for i := 0; i < blocks; i++ {
		if blocks > 1 && r.Chance(1, 25) {
			out.Count("model_block_without_tensors")
			continue
		}
		sz := base
		switch uneven {
		case 1:
			sz = base + uint64(r.Intn(int(base/4)+1))
		case 2:
			sz = base/8 + uint64(r.U64()%(base*3+1))
		}
		nt := r.Range(1, 3)
		for k := 0; k < nt; k++ {
			m.Tensors = append(m.Tensors, vcTensorOf(r, fmt.Sprintf("blk.%d.%s", i, names[k]), sz/uint64(nt)+1))
		}
		if arch == "llama" && i == 0 && r.Chance(1, 8) {
			if r.Bool() {
				m.Tensors = append(m.Tensors, vcTensorOf(r, "blk.0.ffn_gate_exps.weight", sz/4+1))
				if _, ok := m.U32["feed_forward_length"]; !ok {
					// GraphSize panics (nil interface conversion) on a mixtral-style file without
					// llama.feed_forward_length; outside C16, avoided here
					m.U32["feed_forward_length"] = 14336
				}
			} else if heads > 0 { // with head_count 0 GraphSize divides by zero in the 8x7b branch (outside C16)
				m.Tensors = append(m.Tensors, vcTensor{Name: "blk.0.ffn_gate.0.weight", Kind: 0, Shape: []uint64{64, uint64(r.Range(1, 4096))}})
			}
		}
	}
	if r.Chance(1, 20) { // a stray block beyond block_count
		m.Tensors = append(m.Tensors, vcTensorOf(r, fmt.Sprintf("blk.%d.attn_q.weight", blocks+r.Range(0, 3)), base))
	}
	if r.Chance(9, 10) {
		m.Tensors = append(m.Tensors, vcTensorOf(r, "token_embd.weight", base/2+uint64(r.Intn(1000))+1))
	} else {
		out.Count("model_no_token_embd")
	}
	if r.Chance(3, 4) {
		m.Tensors = append(m.Tensors, vcTensorOf(r, "output_norm.weight", uint64(r.Range(4, 65536))))
	}
	if r.Bool() {
		out.Count("model_with_output")
		m.Tensors = append(m.Tensors, vcTensorOf(r, "output.weight", base/2+uint64(r.Intn(5000))+1))
	} else {
		out.Count("model_without_output")
	}
	if arch == "mllama" && r.Bool() {
		m.Tensors = append(m.Tensors, vcTensor{Name: "rope_freqs.weights", Kind: 0, Shape: []uint64{64}})
	}
	if (arch == "gemma3" || arch == "mllama") && r.Chance(2, 3) {
		out.Count("model_with_vision")
		m.U32["vision.block_count"] = uint32(r.Range(0, 4))
		m.U32["vision.image_size"] = uint32(zzverif.Pick(r, []int{224, 560, 896}))
		m.U32["vision.patch_size"] = uint32(zzverif.Pick(r, []int{0, 14, 14, 16}))
		m.U32["vision.num_channels"] = 3
		m.U32["vision.attention.head_count"] = uint32(zzverif.Pick(r, []int{8, 16}))
		m.U32["vision.embedding_length"] = uint32(zzverif.Pick(r, []int{768, 1152}))
		m.U32["vision.max_num_tiles"] = uint32(r.Range(1, 4))
		m.Tensors = append(m.Tensors, vcTensorOf(r, "v.blk.0.attn_q.weight", base/16+1))
		m.Tensors = append(m.Tensors, vcTensorOf(r, "v.patch_embd.weight", base/32+1))
		if r.Bool() {
			m.Tensors = append(m.Tensors, vcTensorOf(r, "v.class_embd", 4096))
		}
		m.Tensors = append(m.Tensors, vcTensorOf(r, "mm.0.weight", base/32+1))
	}
	out.Count("model_arch_" + arch)
	return m
}

func vcGenProj(r *zzverif.Rng) vcFile {
	p := vcFile{Arch: "clip", Vocab: 1, U32: map[string]uint32{}}
	if r.Chance(1, 3) {
		p.Arch = "mllama"
		p.U32["vision.image_size"] = uint32(zzverif.Pick(r, []int{224, 560}))
		p.U32["vision.patch_size"] = 14
		p.U32["vision.num_channels"] = 3
		p.U32["vision.max_num_tiles"] = uint32(r.Range(1, 4))
		p.U32["vision.embedding_length"] = 1280
		p.U32["vision.attention.head_count"] = 16
	}
	n := r.Range(1, 4)
	for i := 0; i < n; i++ {
		p.Tensors = append(p.Tensors, vcTensorOf(r, fmt.Sprintf("v.blk.%d.attn_q.weight", i), uint64(1)<<uint(r.Range(4, 28))))
	}
	p.Tensors = append(p.Tensors, vcTensorOf(r, "mm.0.weight", uint64(r.Range(4, 1<<20))))
	if r.Bool() {
		p.Tensors = append(p.Tensors, vcTensorOf(r, "v.class_embd", 4096))
	}
	return p
}

var vcLibs = []string{"cuda", "cuda", "cuda", "rocm", "metal", "oneapi", "cpu"}

// vcGenSetup draws everything but the free memory.
func vcGenSetup(r *zzverif.Rng, out *zzverif.Out, cfg *vcCfg, blocks int) {
	n := 1
	switch r.Intn(8) {
	case 0, 1, 2:
		n = 1
	case 3, 4:
		n = 2
	case 5:
		n = r.Range(3, 4)
	default:
		n = r.Range(1, 8)
	}
	lib := zzverif.Pick(r, vcLibs)
	if lib == "metal" || lib == "cpu" {
		if r.Chance(3, 4) {
			n = 1
		}
	}
	lib2 := lib
	variant2 := ""
	if n > 1 && r.Chance(1, 4) { // more than one library group: PredictServerFit's loop
		if r.Bool() {
			lib2 = zzverif.Pick(r, vcLibs)
		} else {
			variant2 = "v12"
		}
		out.Count("gpus_mixed_libraries")
	}
	minChoices := []uint64{0, 0, 457 << 20, 512 << 20, uint64(r.Intn(1 << 30))}
	cfg.GPUs = nil
	for i := 0; i < n; i++ {
		g := vcGPU{Lib: lib, Min: zzverif.Pick(r, minChoices)}
		if i > 0 && (lib2 != lib || variant2 != "") {
			switch r.Intn(4) { // up to three interleaved Library[_Variant] groups
			case 0, 1:
				g.Lib, g.Variant = lib2, variant2
			case 2:
				if n > 2 {
					g.Lib, g.Variant = lib, "v11"
				}
			}
		}
		if i > 0 && r.Chance(1, 30) { // a repeated GPU ID (EstimatedVRAMByGPU returns the first match)
			g.ID = strconv.Itoa(r.Intn(i))
			out.Count("gpus_duplicate_id")
		}
		cfg.GPUs = append(cfg.GPUs, g)
	}
	switch r.Intn(12) {
	case 0, 1, 2, 3:
		cfg.NumGPU = -1
	case 4:
		cfg.NumGPU = 0
	case 5:
		cfg.NumGPU = 1
	case 6:
		cfg.NumGPU = r.Range(0, blocks+1)
	case 7:
		cfg.NumGPU = blocks
	case 8:
		cfg.NumGPU = blocks + 1
	case 9:
		cfg.NumGPU = blocks + 2
	case 10:
		cfg.NumGPU = zzverif.Pick(r, []int{999, 1 << 20, 1<<31 - 1})
	default:
		cfg.NumGPU = -r.Range(1, 3)
	}
	cfg.NumCtx = zzverif.Pick(r, []int{1, 512, 2048, 2048, 4096, 8192, 32768, 131072, r.Range(1, 200000)})
	cfg.NumBatch = zzverif.Pick(r, []int{1, 512, 512, 512, 2048, r.Range(1, 4096)})
	cfg.Parallel = zzverif.Pick(r, []int{1, 1, 2, 4, r.Range(1, 16)})
	cfg.Overhead = 0
	switch r.Intn(6) {
	case 0:
		cfg.Overhead = uint64(r.Range(1, 4096))
	case 1:
		cfg.Overhead = uint64(r.Range(1, 4096)) << 20
	}
}

func vcClassNumGPU(n, blocks int) string {
	switch {
	case n < 0:
		return "auto"
	case n == 0:
		return "0"
	case n < blocks:
		return "lt_blocks"
	case n == blocks:
		return "blocks"
	case n == blocks+1:
		return "blocks+1"
	}
	return "gt_blocks+1"
}

// ---------------------------------------------------------------- the test

type vcRunner struct {
	out   *zzverif.Out
	dir   string
	cases int
}

func (v *vcRunner) emit(cfg *vcCfg, l *vcLoaded) vcResult {
	js, err := json.Marshal(cfg)
	if err != nil {
		panic(err)
	}
	r := vcRun(cfg, l)
	v.out.Case(r.op, r.impl)
	vcL2(v.out, cfg, string(js), &r)
	v.cases++
	out := v.out
	out.Count("cases")
	out.Count("numgpu_" + vcClassNumGPU(cfg.NumGPU, r.d.blocks))
	out.Count(fmt.Sprintf("ngpus_%d", len(cfg.GPUs)))
	out.Count(fmt.Sprintf("groups_%d", len(r.groups)))
	for _, g := range r.groups {
		if len(g) == 0 {
			out.L2("empty-library-group", string(js), "ByLibrary produced an empty group")
		}
	}
	if cfg.Overhead > 0 {
		out.Count("overhead_nonzero")
	}
	if len(l.projs) > 0 {
		out.Count("with_projectors")
	}
	if cfg.Tag != "" {
		out.Count("gen_" + cfg.Tag)
	}
	if r.panicS != "" {
		out.Count("panics")
		return r
	}
	if r.fit {
		out.Count("fit_true")
	} else {
		out.Count("fit_false")
	}
	for gi, e := range r.ests {
		out.Count("lib_" + r.groups[gi][0].Library)
		switch {
		case e.Layers == 0:
			out.Count("layers_none")
		case e.Layers == r.d.blocks+1:
			out.Count("layers_all")
		case e.Layers == r.d.blocks:
			out.Count("layers_all_but_output")
		default:
			out.Count("layers_partial")
		}
		if e.Layers > 0 {
			used := 0
			for _, p := range strings.Split(e.TensorSplit, ",") {
				if p != "" && p != "0" {
					used++
				}
			}
			if e.TensorSplit != "" && used < len(r.groups[gi]) {
				out.Count("some_gpu_without_layers")
			}
			// branch counters of the model (admission, gpu-zero overhead, output layer, graph switch, cap, drop-out)
			out.Count("br_admit_accept")
			zero := false
			for _, sz := range e.GPUSizes {
				if sz == 0 {
					zero = true
				}
			}
			if zero {
				out.Count("br_admit_reject")
				if e.GPUSizes[0] == 0 && e.projectorWeights+e.projectorGraph > 0 {
					out.Count("br_gzo_on_later_gpu")
				}
			}
			capped := cfg.NumGPU >= 0 && e.Layers >= cfg.NumGPU
			switch {
			case e.memoryLayerOutput == 0 || (capped && e.Layers < r.d.blocks+1):
				out.Count("br_output_not_considered")
			case e.Layers == r.d.blocks+1:
				out.Count("br_output_placed")
			case e.Layers == r.d.blocks:
				out.Count("br_output_not_placed")
			}
			if capped && e.Layers < r.d.blocks+1 {
				out.Count("br_cap_hit")
			}
			if e.graphFullOffload != e.graphPartialOffload {
				if e.Graph == e.graphFullOffload {
					out.Count("br_graph_full")
				} else {
					out.Count("br_graph_partial")
				}
			}
			if e.TensorSplit != "" {
				lo, hi := 1<<30, 0
				for _, p := range strings.Split(e.TensorSplit, ",") {
					if n, err := strconv.Atoi(p); err == nil && n > 0 {
						lo, hi = min(lo, n), max(hi, n)
					}
				}
				if hi-lo >= 2 {
					out.Count("br_gpu_dropped_midway")
				}
			}
		}
		if !vcNoWrap(e, r.d, r.groups[gi], cfg.Overhead) {
			out.Count("wrap_possible")
		}
	}
	return r
}

func vcSetFree(cfg *vcCfg, free []uint64) {
	for i := range cfg.GPUs {
		cfg.GPUs[i].Free = free[i]
	}
}

// vcTotalNeed: a rough total requirement (for scaling the random free memory) obtained from the
// real estimator with unlimited memory.
func vcTotalNeed(cfg *vcCfg, l *vcLoaded) uint64 {
	c := *cfg
	c.GPUs = []vcGPU{{Lib: "cuda", Free: 1 << 62}}
	c.NumGPU = -1
	c.Overhead = 0
	r := vcRun(&c, l)
	if r.panicS != "" || len(r.ests) == 0 {
		return 1 << 30
	}
	return r.ests[0].TotalSize
}

func (v *vcRunner) model(r *zzverif.Rng, perModel int) {
	out := v.out
	cfg := &vcCfg{Model: vcGenModel(r, out)}
	if r.Chance(1, 5) {
		np := r.Range(1, 2)
		for i := 0; i < np; i++ {
			cfg.Projs = append(cfg.Projs, vcGenProj(r))
		}
	}
	cfg.MissProj = r.Chance(1, 20)
	dir, err := os.MkdirTemp(v.dir, "m")
	if err != nil {
		panic(err)
	}
	defer os.RemoveAll(dir)
	l, err := vcLoad(dir, cfg)
	if err != nil {
		panic(err)
	}
	blocks := int(l.f.KV().BlockCount())
	for k := 0; k < perModel; k++ {
		rr := r.Fork()
		vcGenSetup(rr, out, cfg, blocks)
		need := vcTotalNeed(cfg, l)
		n := len(cfg.GPUs)
		free := make([]uint64, n)
		mode := rr.Intn(10)
		for i := range free {
			switch {
			case mode == 0 && i%2 == 0: // tiny
				free[i] = uint64(rr.Intn(4096))
			case mode == 1: // plenty
				free[i] = need*2 + uint64(rr.Intn(1<<30))
			case mode <= 5: // a fraction of an even share
				share := need/uint64(n) + 1
				free[i] = share/8*uint64(rr.Range(0, 16)) + uint64(rr.Intn(1<<20)) + cfg.GPUs[i].Min
			default: // a fraction of the whole
				free[i] = need/16*uint64(rr.Range(0, 20)) + uint64(rr.Intn(1<<20))
			}
		}
		vcSetFree(cfg, free)
		cfg.Tag = "random"
		base := v.emit(cfg, l)
		if base.panicS != "" {
			continue
		}
		// analytic boundary of the admission comparison for one GPU
		if rr.Chance(1, 4) && len(base.ests) > 0 {
			e := base.ests[0]
			gi := rr.Intn(n)
			gzo := e.projectorWeights + e.projectorGraph
			thr := cfg.Overhead + gzo + max(e.graphPartialOffload, e.graphFullOffload) + cfg.GPUs[gi].Min + 2*base.d.layer0
			for _, dlt := range []int64{-1, 0, 1} {
				f2 := append([]uint64(nil), free...)
				f2[gi] = thr + uint64(dlt)
				vcSetFree(cfg, f2)
				cfg.Tag = "admit_boundary"
				v.emit(cfg, l)
			}
			// first placement on that GPU: overhead + (min+layer0+gzo) + maxg + layerSizes[0]
			if len(base.d.layerSizes) > 0 {
				thr2 := cfg.Overhead + cfg.GPUs[gi].Min + base.d.layer0 + gzo + max(e.graphPartialOffload, e.graphFullOffload) + base.d.layerSizes[0]
				for _, dlt := range []int64{-1, 0, 1} {
					f2 := append([]uint64(nil), free...)
					f2[gi] = thr2 + uint64(dlt)
					vcSetFree(cfg, f2)
					cfg.Tag = "first_layer_boundary"
					v.emit(cfg, l)
				}
			}
		}
		// boundary found by bisection on the REAL estimator: smallest free memory of one GPU at
		// which the observable result differs from the one at `lo`
		for rep := 0; rep < 2; rep++ {
			gi := rr.Intn(n)
			lo := uint64(0)
			hi := need*2 + (1 << 32)
			if rr.Bool() {
				lo = free[gi]
			} else {
				hi = max(free[gi], 1)
			}
			// rep 0: any change of the observable result; rep 1: "at least `target` layers offloaded"
			target := rr.Range(1, blocks+1)
			if rep == 1 {
				lo, hi = 0, need*2+(1<<32)
			}
			obs := func(x uint64) string {
				f2 := append([]uint64(nil), free...)
				f2[gi] = x
				vcSetFree(cfg, f2)
				res := vcRun(cfg, l)
				if rep == 1 {
					tot := 0
					for _, e := range res.ests {
						tot += e.Layers
					}
					return strconv.FormatBool(tot >= target)
				}
				return res.impl
			}
			if lo < hi {
				olo := obs(lo)
				if obs(hi) != olo {
					for hi-lo > 1 {
						mid := lo + (hi-lo)/2
						if obs(mid) == olo {
							lo = mid
						} else {
							hi = mid
						}
					}
					for _, x := range []uint64{hi - 1, hi, hi + 1} {
						f2 := append([]uint64(nil), free...)
						f2[gi] = x
						vcSetFree(cfg, f2)
						cfg.Tag = "bisect_boundary"
						v.emit(cfg, l)
					}
				} else {
					out.Count("bisect_no_change")
				}
			}
		}
		// wrap-around stream: quantities near 2^64
		if rr.Chance(1, 10) {
			f2 := append([]uint64(nil), free...)
			vcSetFree(cfg, f2)
			save := *cfg
			savedGPUs := append([]vcGPU(nil), cfg.GPUs...)
			switch rr.Intn(4) {
			case 0:
				cfg.Overhead = ^uint64(0) - uint64(rr.Intn(1<<20))
			case 1:
				cfg.Overhead = 1<<63 + uint64(rr.Intn(1<<30))
				cfg.GPUs[rr.Intn(n)].Min = 1<<63 + uint64(rr.Intn(1<<30))
			case 2:
				cfg.GPUs[rr.Intn(n)].Min = ^uint64(0) - uint64(rr.Intn(1<<32))
			case 3:
				for i := range cfg.GPUs {
					cfg.GPUs[i].Free = ^uint64(0) - uint64(rr.Intn(1<<20))
				}
			}
			cfg.Tag = "wrap"
			v.emit(cfg, l)
			cfg.Overhead = save.Overhead
			cfg.GPUs = savedGPUs
		}
	}
}

// vcVariant: which variant of the overhead comparisons the tree under test implements.
var vcVariant = 0

// vcDetectVariant probes the REAL estimator with the W1 input (OLLAMA_GPU_OVERHEAD = 2^64-1, one
// GPU with 1 GiB free): the pinned comparisons wrap and offload layers (variant 0); with fix C16-W1
// (`free < overhead || free-overhead < ...`) nothing is offloaded (variant 1).  A tree that is
// neither shows up as L1 disagreements.  The probe is REPORTED (stats code_variant_<n>, Generated/C16_Variant.lean);
// the model is run at the variant the tree is expected to have (1: finding W1 is fixed) unless the caller sets
// VERIF_C16_VARIANT — a tree that lost the fix then disagrees with the model and fails the L2 clause with an input.
func vcDetectVariant(dir string) int {
	cfg := &vcCfg{Model: vcFile{Arch: "llama", Vocab: 4, U32: map[string]uint32{
		"block_count": 2, "embedding_length": 64, "attention.head_count": 8, "attention.head_count_kv": 8, "context_length": 2048},
		Tensors: []vcTensor{{Name: "blk.0.attn_q.weight", Kind: 0, Shape: []uint64{1048576}}, {Name: "blk.1.attn_q.weight", Kind: 0, Shape: []uint64{1048576}},
			{Name: "token_embd.weight", Kind: 0, Shape: []uint64{65536}}}},
		GPUs: []vcGPU{{Lib: "cuda", Free: 1 << 30}}, NumGPU: -1, NumCtx: 2048, NumBatch: 512, Parallel: 1, Overhead: ^uint64(0)}
	d, err := os.MkdirTemp(dir, "probe")
	if err != nil {
		panic(err)
	}
	l, err := vcLoad(d, cfg)
	if err != nil {
		panic(err)
	}
	os.Setenv("OLLAMA_GPU_OVERHEAD", strconv.FormatUint(cfg.Overhead, 10))
	e := EstimateGPULayers(vcGpuList(cfg), l.f, nil, vcOpts(cfg), 1)
	if e.Layers > 0 {
		return 0
	}
	return 1
}

// TestVerifC16Probe: only the variant probe (run first by the check; its answer is written to Generated/C16_Variant.lean).
func TestVerifC16Probe(t *testing.T) {
	slog.SetDefault(slog.New(slog.NewTextHandler(io.Discard, nil)))
	t.Setenv("OLLAMA_FLASH_ATTENTION", "")
	t.Setenv("OLLAMA_KV_CACHE_TYPE", "")
	out := zzverif.NewOut()
	defer out.Close()
	out.Count(fmt.Sprintf("code_variant_%d", vcDetectVariant(t.TempDir())))
}

func TestVerifC16(t *testing.T) {
	slog.SetDefault(slog.New(slog.NewTextHandler(io.Discard, nil)))
	t.Setenv("OLLAMA_FLASH_ATTENTION", "")
	t.Setenv("OLLAMA_KV_CACHE_TYPE", "")
	t.Setenv("OLLAMA_GPU_OVERHEAD", "0")
	out := zzverif.NewOut()
	defer out.Close()
	v := &vcRunner{out: out, dir: t.TempDir()}
	out.Count(fmt.Sprintf("code_variant_%d", vcDetectVariant(v.dir)))
	vcVariant = zzverif.EnvInt("VERIF_C16_VARIANT", 1)
	out.Count(fmt.Sprintf("model_variant_%d", vcVariant))

	if rp := os.Getenv("VERIF_REPLAY"); rp != "" {
		raw, err := os.ReadFile(rp)
		if err != nil {
			t.Fatal(err)
		}
		var cfg vcCfg
		if err := json.Unmarshal(bytes.TrimSpace(raw), &cfg); err != nil {
			t.Fatalf("replay case is not a C16 configuration: %v", err)
		}
		l, err := vcLoad(v.dir, &cfg)
		if err != nil {
			t.Fatal(err)
		}
		r := v.emit(&cfg, l)
		t.Logf("op:   %s\nimpl: %s", r.op, r.impl)
		return
	}

	// corpus first
	if cd := os.Getenv("VERIF_CORPUS"); cd != "" {
		files, _ := filepath.Glob(cd + "/*.json")
		for _, fn := range files {
			raw, err := os.ReadFile(fn)
			if err != nil {
				t.Fatal(err)
			}
			var cfg vcCfg
			if err := json.Unmarshal(bytes.TrimSpace(raw), &cfg); err != nil {
				t.Fatalf("%s: %v", fn, err)
			}
			dir, _ := os.MkdirTemp(v.dir, "c")
			l, err := vcLoad(dir, &cfg)
			if err != nil {
				t.Fatal(err)
			}
			cfg.Tag = "corpus"
			v.emit(&cfg, l)
		}
	}

	target := zzverif.EnvInt("VERIF_N", 4000)
	root := zzverif.NewRng(zzverif.Seed())
	for v.cases < target {
		v.model(root.Fork(), 6)
	}
}

// ---------------------------------------------------------------------------------------------
// GGML.GraphSize (fs/ggml/ggml.go): the estimator's derived inputs kv[i] / partialOffload / fullOffload
//
//   L1: the REAL f.GraphSize(context, batch, numParallel, kvCacheType) on synthetic GGUFs of every architecture of
//       its switch (llama incl. both mixtral branches, mllama, gemma/gemma2/gemma3, command-r, qwen2, phi2, stablelm,
//       deepseek2, chatglm with/without attn_qkv.bias, an unknown architecture) == oracle `c16graph` (model
//       `graphSize`: every uint64 + / * wrapping, float64 rounding of the KV figure in integer arithmetic).
//   L2: `graph-kv-length` — len(kv) != BlockCount (the estimator indexes kv[i] for every block).

type vgCfg struct {
	Kind    string            `json:"kind"` // "graph"
	Arch    string            `json:"arch"`
	U32     map[string]uint32 `json:"u32"`
	Cross   []int32           `json:"cross,omitempty"`
	Vocab   int               `json:"vocab"`
	Tensors []vcTensor        `json:"t"`
	Ctx     uint64            `json:"ctx"`
	Batch   uint64            `json:"batch"`
	P       int               `json:"p"`
	KVCT    string            `json:"kvct"`
}

func vgWrite(dir string, cfg *vgCfg) (*ggml.GGML, error) {
	kv := ggml.KV{"general.architecture": cfg.Arch}
	for k, v := range cfg.U32 {
		kv[cfg.Arch+"."+k] = v
	}
	if cfg.Cross != nil {
		kv[cfg.Arch+".attention.cross_attention_layers"] = append([]int32(nil), cfg.Cross...)
	}
	toks := make([]string, cfg.Vocab)
	for i := range toks {
		toks[i] = "t"
	}
	kv["tokenizer.ggml.tokens"] = toks
	var ts []ggml.Tensor
	for _, t := range cfg.Tensors {
		ts = append(ts, ggml.Tensor{Name: t.Name, Kind: t.Kind, Shape: append([]uint64(nil), t.Shape...), WriterTo: bytes.NewReader(nil)})
	}
	p := filepath.Join(dir, "g.gguf")
	f, err := os.Create(p)
	if err != nil {
		return nil, err
	}
	if err := ggml.WriteGGUF(f, kv, ts); err != nil {
		f.Close()
		return nil, err
	}
	f.Close()
	return LoadModel(p, 0)
}

func vgOp(cfg *vgCfg, f *ggml.GGML) string {
	kv := f.KV()
	a := kv.Architecture()
	opt32 := func(key string) string {
		v, ok := kv[a+"."+key].(uint32)
		return optU(ok, uint64(v))
	}
	layers := f.Tensors().GroupLayers()
	exps, g1, qb := "-", "-", "-"
	if t, ok := layers["blk.0"]["ffn_gate_exps.weight"]; ok {
		exps = strconv.FormatUint(t.Size(), 10)
	}
	if t, ok := layers["blk.0"]["ffn_gate.0.weight"]; ok && len(t.Shape) > 1 {
		g1 = strconv.FormatUint(t.Shape[1], 10)
	}
	if t, ok := layers["blk.0"]["attn_qkv.bias"]; ok && len(t.Shape) > 0 {
		qb = strconv.FormatUint(t.Shape[0], 10)
	}
	rope := uint64(0)
	if rf, ok := layers["rope_freqs"]; ok {
		if w, ok := rf["weights"]; ok {
			rope = 1
			for _, n := range w.Shape {
				rope *= n
			}
		}
	}
	kvct := 0
	switch cfg.KVCT {
	case "q8_0":
		kvct = 1
	case "q4_0":
		kvct = 2
	}
	var sb strings.Builder
	fmt.Fprintf(&sb, "c16graph %s %d %d %d %d %d %d %d %d %s %s %d %s %d %s", a, cfg.Ctx, cfg.Batch, cfg.P, kvct,
		kv.BlockCount(), kv.EmbeddingLength(), kv.HeadCount(), kv.HeadCountKV(), opt32("attention.key_length"),
		opt32("attention.value_length"), cfg.Vocab, exps, kv.Uint("feed_forward_length"), g1)
	cross := kv.Uints("attention.cross_attention_layers")
	fmt.Fprintf(&sb, " %d", len(cross))
	for _, c := range cross {
		fmt.Fprintf(&sb, " %d", c)
	}
	fmt.Fprintf(&sb, " %d %d %s", rope, kv.Uint("attention.sliding_window"), qb)
	return sb.String()
}

func vgRun(out *zzverif.Out, dir string, cfg *vgCfg) {
	js, _ := json.Marshal(cfg)
	caseLine := string(js)
	f, err := vgWrite(dir, cfg)
	if err != nil {
		panic(err)
	}
	impl := ""
	var kvs []uint64
	func() {
		defer func() {
			if x := recover(); x != nil {
				impl = "panic:" + strings.ReplaceAll(fmt.Sprint(x), "\n", " ")
			}
		}()
		var gp, gf uint64
		kvs, gp, gf = f.GraphSize(cfg.Ctx, cfg.Batch, cfg.P, cfg.KVCT)
		parts := make([]string, len(kvs))
		for i, v := range kvs {
			parts[i] = strconv.FormatUint(v, 10)
		}
		ks := strings.Join(parts, ",")
		if len(parts) == 0 {
			ks = "-"
		}
		impl = fmt.Sprintf("kv=%s gp=%d gf=%d", ks, gp, gf)
	}()
	out.Case(vgOp(cfg, f), impl)
	out.Count("graph_cases")
	out.Count("graph_arch_" + cfg.Arch)
	out.Count("graph_kvct_" + map[string]string{"q8_0": "q8_0", "q4_0": "q4_0"}[cfg.KVCT])
	if strings.HasPrefix(impl, "panic:") {
		out.L2("panic", caseLine, impl)
		return
	}
	if uint64(len(kvs)) != f.KV().BlockCount() {
		out.L2("graph-kv-length", caseLine, fmt.Sprintf("len(kv)=%d block_count=%d", len(kvs), f.KV().BlockCount()))
	}
	if len(kvs) > 0 {
		x := cfg.Ctx * (f.KV().EmbeddingHeadCountK() + f.KV().EmbeddingHeadCountV()) * f.KV().HeadCountKV()
		if x >= 1<<53 {
			out.Count("graph_kv_float_rounding")
		}
	}
	if bits.Len64(cfg.Ctx)+bits.Len64(cfg.Batch) > 50 {
		out.Count("graph_wrap_likely")
	}
}

func vgGen(r *zzverif.Rng) *vgCfg {
	kinds := []string{"llama", "llama", "llama-exps", "llama-gate", "mllama", "gemma", "gemma2", "gemma3", "command-r", "qwen2", "phi2",
		"stablelm", "deepseek2", "chatglm", "chatglm-bias", "verifarch"}
	kind := zzverif.Pick(r, kinds)
	cfg := &vgCfg{Kind: "graph", Arch: strings.SplitN(kind, "-", 2)[0], U32: map[string]uint32{}}
	if kind == "command-r" {
		cfg.Arch = "command-r"
	}
	blocks := r.Range(0, 12)
	cfg.U32["block_count"] = uint32(blocks)
	cfg.U32["embedding_length"] = uint32(zzverif.Pick(r, []int{0, 64, 1024, 4096, 5120, r.Range(1, 16384)}))
	heads := zzverif.Pick(r, []int{1, 8, 32, 40, 64, 0})
	if kind == "llama-gate" && heads == 0 {
		heads = 8 // 6*context*headsKV/heads: a zero head count panics there (recorded in notes/C16.md, C10's clause)
	}
	if heads > 0 || r.Bool() {
		cfg.U32["attention.head_count"] = uint32(heads)
	}
	if r.Chance(3, 4) {
		cfg.U32["attention.head_count_kv"] = uint32(zzverif.Pick(r, []int{1, 2, 8, 32}))
	}
	if r.Chance(1, 3) {
		cfg.U32["attention.key_length"] = uint32(zzverif.Pick(r, []int{64, 128, 256}))
	}
	if r.Chance(1, 3) {
		cfg.U32["attention.value_length"] = uint32(zzverif.Pick(r, []int{64, 128, 256}))
	}
	cfg.Vocab = zzverif.Pick(r, []int{1, 3, 50, r.Range(1, 3000)})
	switch kind {
	case "llama-exps":
		cfg.U32["feed_forward_length"] = uint32(zzverif.Pick(r, []int{0, 14336, r.Range(1, 65536)}))
		cfg.Tensors = append(cfg.Tensors, vcTensor{Name: "blk.0.ffn_gate_exps.weight", Kind: uint32(zzverif.Pick(r, []int{0, 1})), Shape: []uint64{uint64(r.Range(1, 64)), uint64(r.Range(1, 64)), uint64(r.Range(1, 8))}})
	case "llama-gate":
		cfg.Tensors = append(cfg.Tensors, vcTensor{Name: "blk.0.ffn_gate.0.weight", Kind: 0, Shape: []uint64{uint64(r.Range(1, 64)), uint64(r.Range(1, 20000))}})
	case "mllama":
		cfg.Cross = []int32{}
		for i := 0; i < blocks+2; i++ {
			if r.Chance(1, 4) {
				cfg.Cross = append(cfg.Cross, int32(i))
			}
		}
		if r.Bool() {
			cfg.Tensors = append(cfg.Tensors, vcTensor{Name: zzverif.Pick(r, []string{"rope_freqs.weights", "rope_freqs.weight"}), Kind: 0, Shape: []uint64{uint64(r.Range(1, 128))}})
		}
	case "gemma3":
		cfg.U32["attention.sliding_window"] = uint32(zzverif.Pick(r, []int{0, 512, 1024, 4096}))
	case "chatglm-bias":
		cfg.Tensors = append(cfg.Tensors, vcTensor{Name: "blk.0.attn_qkv.bias", Kind: 0, Shape: []uint64{uint64(r.Range(1, 8192))}})
	}
	if len(cfg.Tensors) == 0 || r.Bool() {
		cfg.Tensors = append(cfg.Tensors, vcTensor{Name: "blk.0.attn_q.weight", Kind: 0, Shape: []uint64{8}})
	}
	cfg.Ctx = zzverif.Pick(r, []uint64{1, 4, 512, 2048, 8192, 131072, uint64(r.Range(1, 1<<20))})
	cfg.Batch = zzverif.Pick(r, []uint64{1, 512, 512, 2048, uint64(r.Range(1, 4096))})
	switch r.Intn(12) {
	case 0: // products beyond 2^53 (float64 rounding of the KV figure) and beyond 2^64 (wrap-around)
		cfg.Ctx = r.U64() >> uint(r.Range(8, 30))
	case 1:
		cfg.Ctx = r.U64() >> uint(r.Range(0, 24))
		cfg.Batch = r.U64() >> uint(r.Range(20, 60))
	case 2:
		cfg.Ctx = (uint64(1) << uint(r.Range(40, 52))) + uint64(r.Intn(5)) - 2
	}
	cfg.P = zzverif.Pick(r, []int{1, 1, 2, 4, 16})
	cfg.KVCT = zzverif.Pick(r, []string{"", "", "f16", "q8_0", "q4_0", "junk"})
	return cfg
}

func TestVerifC16Graph(t *testing.T) {
	slog.SetDefault(slog.New(slog.NewTextHandler(io.Discard, nil)))
	out := zzverif.NewOut()
	defer out.Close()
	dir := t.TempDir()
	if rp := os.Getenv("VERIF_REPLAY"); rp != "" {
		raw, err := os.ReadFile(rp)
		if err != nil {
			t.Fatal(err)
		}
		var cfg vgCfg
		if err := json.Unmarshal(bytes.TrimSpace(raw), &cfg); err != nil || cfg.Kind != "graph" {
			t.Fatalf("replay case is not a C16 GraphSize configuration: %v", err)
		}
		vgRun(out, dir, &cfg)
		return
	}
	target := zzverif.EnvInt("VERIF_N", 3000)
	root := zzverif.NewRng(zzverif.Seed() ^ 0x6AF)
	for k := 0; k < target; k++ {
		vgRun(out, dir, vgGen(root.Fork()))
	}
}

// ---------------------------------------------------------------------------------------------
// llm.projectorMemoryRequirements (llm/memory.go) and GGML.VisionGraphSize (fs/ggml/ggml.go): the projector / vision
// figures the estimator adds to GPU 0 (gpuZeroOverhead)
//
//   L1: the REAL functions on synthetic files (clip / mllama projector files, models with vision keys of mllama, gemma3,
//       mistral3 and other architectures, patch size 0, class embedding, huge image sizes so that the products wrap)
//       == oracle `c16proj` / `c16vision` (models `projReq`, `visionGraphSize`).

type vvCfg struct {
	Kind    string            `json:"kind"` // "vision"
	Arch    string            `json:"arch"`
	U32     map[string]uint32 `json:"u32"`
	Tensors []vcTensor        `json:"t"`
}

func vvRun(out *zzverif.Out, dir string, cfg *vvCfg) {
	js, _ := json.Marshal(cfg)
	caseLine := string(js)
	p, err := vcWriteFile(dir, "v.gguf", vcFile{Arch: cfg.Arch, U32: cfg.U32, Vocab: 1, Tensors: cfg.Tensors})
	if err != nil {
		panic(err)
	}
	f, err := LoadModel(p, 0)
	if err != nil {
		panic(err)
	}
	kv := f.KV()
	a := kv.Architecture()
	u := func(key string) uint64 {
		v, _ := kv[a+".vision."+key].(uint32)
		return uint64(v)
	}
	b := func(x bool) int {
		if x {
			return 1
		}
		return 0
	}
	layers := f.Tensors().GroupLayers()
	_, class := layers["v"]["class_embd"]
	var all, vis []string
	for name, layer := range layers {
		for _, t := range layer {
			all = append(all, strconv.FormatUint(t.Size(), 10))
			if name == "v" || strings.HasPrefix(name, "v.") {
				vis = append(vis, strconv.FormatUint(t.Size(), 10))
			}
		}
	}
	sort.Strings(all) // Go map order is random; the uint64 sum does not depend on it
	sort.Strings(vis)
	tail := fmt.Sprintf("%d %d %d %d %d %d %d", u("image_size"), u("patch_size"), u("num_channels"), u("max_num_tiles"), u("embedding_length"), u("attention.head_count"), b(class))
	list := func(l []string) string {
		if len(l) == 0 {
			return "0"
		}
		return fmt.Sprintf("%d %s", len(l), strings.Join(l, " "))
	}
	// ---- projectorMemoryRequirements(path)
	impl := ""
	func() {
		defer func() {
			if x := recover(); x != nil {
				impl = "panic"
			}
		}()
		w, g := projectorMemoryRequirements(p)
		impl = fmt.Sprintf("w=%d g=%d", w, g)
	}()
	out.Case(fmt.Sprintf("c16proj %d %s %s", b(a == "mllama"), list(all), tail), impl)
	out.Count("vision_cases")
	out.Count("vision_arch_" + a)
	if impl == "panic" {
		out.Count("vision_proj_panic_patch0")
		if !(a == "mllama" && u("patch_size") == 0) {
			out.L2("panic", caseLine, "projectorMemoryRequirements panicked outside the known division by a zero patch size")
		}
	}
	// ---- f.VisionGraphSize()
	impl2 := ""
	func() {
		defer func() {
			if x := recover(); x != nil {
				impl2 = "panic:" + strings.ReplaceAll(fmt.Sprint(x), "\n", " ")
			}
		}()
		w, g := f.VisionGraphSize()
		impl2 = fmt.Sprintf("w=%d g=%d", w, g)
	}()
	out.Case(fmt.Sprintf("c16vision %d %d %d %s %s", b(a == "mllama"), b(a == "gemma3" || a == "mistral3"), kv.Uint("vision.block_count"), list(vis), tail), impl2)
	if strings.HasPrefix(impl2, "panic:") {
		out.L2("panic", caseLine, "VisionGraphSize: "+impl2)
	}
	if kv.Uint("vision.block_count") > 0 {
		out.Count("vision_with_blocks")
		if u("patch_size") == 0 {
			out.Count("vision_patch0")
		}
	}
	if class {
		out.Count("vision_class_embd")
	}
}

func vvGen(r *zzverif.Rng) *vvCfg {
	cfg := &vvCfg{Kind: "vision", Arch: zzverif.Pick(r, []string{"clip", "mllama", "mllama", "gemma3", "mistral3", "llama"}), U32: map[string]uint32{}}
	if r.Chance(3, 4) {
		cfg.U32["vision.block_count"] = uint32(r.Range(0, 3))
	}
	set := func(key string, vals []int) {
		if r.Chance(5, 6) {
			cfg.U32["vision."+key] = uint32(zzverif.Pick(r, vals))
		}
	}
	set("image_size", []int{0, 14, 224, 448, 560, 896, r.Range(1, 4096), 1 << 30, 1<<32 - 1})
	set("patch_size", []int{14, 14, 16, 0, 1, r.Range(1, 64)})
	set("num_channels", []int{3, 3, 1, 0, 1 << 20})
	set("max_num_tiles", []int{1, 4, 4, 0, 1 << 16})
	set("embedding_length", []int{1280, 1152, 0, r.Range(1, 8192), 1 << 28})
	set("attention.head_count", []int{16, 12, 0, r.Range(1, 64), 1 << 24})
	n := r.Range(0, 4)
	for i := 0; i < n; i++ {
		cfg.Tensors = append(cfg.Tensors, vcTensorOf(r, fmt.Sprintf("v.blk.%d.attn_q.weight", i), uint64(1)<<uint(r.Range(4, 24))))
	}
	if r.Bool() {
		cfg.Tensors = append(cfg.Tensors, vcTensorOf(r, "mm.0.weight", uint64(r.Range(4, 1<<20))))
	}
	if r.Bool() {
		cfg.Tensors = append(cfg.Tensors, vcTensorOf(r, "v.class_embd", 4096))
	}
	if r.Bool() {
		cfg.Tensors = append(cfg.Tensors, vcTensorOf(r, "v.patch_embd.weight", uint64(r.Range(4, 1<<16))))
	}
	if len(cfg.Tensors) == 0 || r.Bool() {
		cfg.Tensors = append(cfg.Tensors, vcTensorOf(r, "blk.0.attn_q.weight", 64))
	}
	return cfg
}

func TestVerifC16Vision(t *testing.T) {
	slog.SetDefault(slog.New(slog.NewTextHandler(io.Discard, nil)))
	out := zzverif.NewOut()
	defer out.Close()
	dir := t.TempDir()
	if rp := os.Getenv("VERIF_REPLAY"); rp != "" {
		raw, err := os.ReadFile(rp)
		if err != nil {
			t.Fatal(err)
		}
		var cfg vvCfg
		if err := json.Unmarshal(bytes.TrimSpace(raw), &cfg); err != nil || cfg.Kind != "vision" {
			t.Fatalf("replay case is not a C16 projector/vision configuration: %v", err)
		}
		vvRun(out, dir, &cfg)
		return
	}
	target := zzverif.EnvInt("VERIF_N", 1500)
	root := zzverif.NewRng(zzverif.Seed() ^ 0x7151)
	for k := 0; k < target; k++ {
		vvRun(out, dir, vvGen(root.Fork()))
	}
}
