// Package zzverif holds helpers shared by the verification drivers.  It is never
// committed to /repo: it is added at build time with `go test -overlay`.
package zzverif

import (
	"bufio"
	"encoding/hex"
	"fmt"
	"os"
	"path/filepath"
	"strconv"
	"strings"
)

// Rng is SplitMix64; every random choice of a run derives from VERIF_SEED through it.
type Rng struct{ s uint64 }

func NewRng(seed uint64) *Rng {
	// hash the seed first: consecutive seeds must not yield one-step-shifted streams
	z := seed + 0x1234567
	z = (z ^ (z >> 30)) * 0xBF58476D1CE4E5B9
	z = (z ^ (z >> 27)) * 0x94D049BB133111EB
	return &Rng{s: z ^ (z >> 31)}
}

func (r *Rng) U64() uint64 {
	r.s += 0x9E3779B97F4A7C15
	z := r.s
	z = (z ^ (z >> 30)) * 0xBF58476D1CE4E5B9
	z = (z ^ (z >> 27)) * 0x94D049BB133111EB
	return z ^ (z >> 31)
}

// Intn returns a value in [0,n).
func (r *Rng) Intn(n int) int {
	if n <= 0 {
		return 0
	}
	return int(r.U64() % uint64(n))
}

// Range returns a value in [lo,hi].
func (r *Rng) Range(lo, hi int) int { return lo + r.Intn(hi-lo+1) }

func (r *Rng) Bool() bool { return r.U64()&1 == 1 }

// Chance is true with probability num/den.
func (r *Rng) Chance(num, den int) bool { return r.Intn(den) < num }

func (r *Rng) Bytes(n int) []byte {
	b := make([]byte, n)
	for i := range b {
		b[i] = byte(r.U64())
	}
	return b
}

// Fork derives an independent generator (so that case k does not depend on how many
// draws case k-1 made).
func (r *Rng) Fork() *Rng { return &Rng{s: r.U64()} }

func Pick[T any](r *Rng, xs []T) T { return xs[r.Intn(len(xs))] }

// Hex renders bytes for the line protocol; the empty string is "-".
func Hex(b []byte) string {
	if len(b) == 0 {
		return "-"
	}
	return hex.EncodeToString(b)
}

func Unhex(s string) []byte {
	if s == "-" {
		return nil
	}
	b, err := hex.DecodeString(s)
	if err != nil {
		panic(err)
	}
	return b
}

// Env helpers.
func Seed() uint64 {
	if s := os.Getenv("VERIF_SEED"); s != "" {
		if v, err := strconv.ParseUint(s, 10, 64); err == nil {
			return v
		}
	}
	return 1
}

func EnvInt(name string, def int) int {
	if s := os.Getenv(name); s != "" {
		if v, err := strconv.Atoi(s); err == nil {
			return v
		}
	}
	return def
}

func OutDir() string {
	d := os.Getenv("VERIF_OUT")
	if d == "" {
		panic("VERIF_OUT not set")
	}
	return d
}

// Out is the three-stream writer of a driver run:
//
//	ops.txt  – one oracle command per line (input to the Lean oracle)
//	impl.txt – the real code's canonical observation for the same line (L1)
//	l2.txt   – one line per case on which the property predicate itself failed (L2)
//	stats.txt – key=value coverage counters
type Out struct {
	ops, impl, l2 *bufio.Writer
	files         []*os.File
	stats         map[string]int
	dir           string
}

func NewOut() *Out {
	dir := OutDir()
	o := &Out{stats: map[string]int{}, dir: dir}
	mk := func(n string) *bufio.Writer {
		f, err := os.Create(filepath.Join(dir, n))
		if err != nil {
			panic(err)
		}
		o.files = append(o.files, f)
		return bufio.NewWriterSize(f, 1<<20)
	}
	o.ops, o.impl, o.l2 = mk("ops.txt"), mk("impl.txt"), mk("l2.txt")
	return o
}

// Case records one L1 case: the oracle command and the implementation's observation.
func (o *Out) Case(op, impl string) {
	if strings.ContainsAny(op, "\n\r") || strings.ContainsAny(impl, "\n\r") {
		panic("newline in protocol line")
	}
	fmt.Fprintln(o.ops, op)
	fmt.Fprintln(o.impl, impl)
}

// L2 records a property failure observed on the implementation. kind is a short
// signature class used for known-finding matching, detail is free text (one line).
func (o *Out) L2(kind, caseLine, detail string) {
	fmt.Fprintf(o.l2, "%s\t%s\t%s\n", kind, strings.ReplaceAll(caseLine, "\n", " "), strings.ReplaceAll(detail, "\n", " "))
	o.stats["l2_fail"]++
}

func (o *Out) Count(key string)      { o.stats[key]++ }
func (o *Out) Add(key string, n int) { o.stats[key] += n }

func (o *Out) Close() {
	for _, w := range []*bufio.Writer{o.ops, o.impl, o.l2} {
		w.Flush()
	}
	for _, f := range o.files {
		f.Close()
	}
	f, err := os.Create(filepath.Join(o.dir, "stats.txt"))
	if err != nil {
		panic(err)
	}
	defer f.Close()
	for k, v := range o.stats {
		fmt.Fprintf(f, "%s=%d\n", k, v)
	}
}

// Pick3 draws from a three-regime size distribution: often `lo`-ish small values,
// sometimes up to mid, rarely up to hi.
func (r *Rng) Pick3(lo, mid, hi int) int {
	switch r.Intn(10) {
	case 0, 1:
		return lo
	case 2, 3, 4, 5, 6:
		return r.Range(lo, mid)
	default:
		return r.Range(lo, hi)
	}
}

// Flush writes everything recorded so far to disk (streams and stats.txt) without closing:
// for drivers whose process may be killed by the code under test (C15).
func (o *Out) Flush() {
	for _, w := range []*bufio.Writer{o.ops, o.impl, o.l2} {
		w.Flush()
	}
	f, err := os.Create(filepath.Join(o.dir, "stats.txt"))
	if err != nil {
		panic(err)
	}
	defer f.Close()
	for k, v := range o.stats {
		fmt.Fprintf(f, "%s=%d\n", k, v)
	}
}
