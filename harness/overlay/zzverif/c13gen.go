// C13 input generators and the model-independent confinement predicate, shared by the five
// C13 drivers (packages model, names, blob, server, ollama).  Added by overlay only.
package zzverif

import (
	"fmt"
	"path/filepath"
	"strings"
)

// C13Alphabet holds one representative of every byte class the name/digest grammar
// distinguishes: separators, the bytes a path component must never contain, letters of both
// cases (two distinct letters, so that case twins and real differences both occur), a digit,
// a hex letter, and non-ASCII / control bytes.
var C13Alphabet = []byte{'/', '\\', ':', '@', '.', '-', '_', 0x00, 0x80, 0xFF, 'A', 'a', 'b', '0', '~', ' '}

// C13Exhaustive calls f on every string of length <= maxLen over alpha (shortest first).
func C13Exhaustive(alpha []byte, maxLen int, f func(s string)) {
	buf := make([]byte, maxLen)
	var rec func(pos, n int)
	rec = func(pos, n int) {
		if pos == n {
			f(string(buf[:n]))
			return
		}
		for _, c := range alpha {
			buf[pos] = c
			rec(pos+1, n)
		}
	}
	for n := 0; n <= maxLen; n++ {
		rec(0, n)
	}
}

const c13Alnum = "ABCDEFGHIJKLMNOPQRSTUVWXYZabcdefghijklmnopqrstuvwxyz0123456789_"

// C13Part returns a part of exactly n bytes that is valid for kind (0 host,1 ns,2 model,3 tag)
// as far as the character rules go (length limits are the caller's business).
func C13Part(r *Rng, kind, n int) string {
	if n == 0 {
		return ""
	}
	rest := c13Alnum + "--__"
	switch kind {
	case 0:
		rest += "...::"
	case 2, 3:
		rest += "..."
	}
	b := make([]byte, n)
	b[0] = c13Alnum[r.Intn(len(c13Alnum))]
	for i := 1; i < n; i++ {
		b[i] = rest[r.Intn(len(rest))]
	}
	return string(b)
}

// C13PartLen draws a part length: mostly short, often right at/around the limits.
func C13PartLen(r *Rng, kind int) int {
	max := 80
	if kind == 0 {
		max = 350
	}
	switch r.Intn(12) {
	case 0:
		return max
	case 1:
		return max + 1
	case 2:
		return max - 1
	case 3:
		return 1
	case 4:
		return r.Range(1, max)
	case 5:
		return max + r.Range(1, 300)
	default:
		return r.Range(1, 9)
	}
}

var c13Specials = []string{"/", "\\", ":", "@", ".", "..", "-", "_", "\x00", "\x80", "\xff", " ", "~", "//", "::", "://",
	"../", "/..", "%2f", "\n", "é", "K", "ſ", "!MISSING!", "sha256", "+", "*", "?"}

// C13Mutate applies one random edit to s.
func C13Mutate(r *Rng, s string) string {
	b := []byte(s)
	pos := r.Intn(len(b) + 1)
	sp := Pick(r, c13Specials)
	switch r.Intn(9) {
	case 0: // insert a special
		return string(b[:pos]) + sp + string(b[pos:])
	case 1: // delete a byte
		if len(b) > 0 {
			p := r.Intn(len(b))
			return string(b[:p]) + string(b[p+1:])
		}
	case 2: // replace a byte with a special
		if len(b) > 0 {
			p := r.Intn(len(b))
			return string(b[:p]) + sp + string(b[p+1:])
		}
	case 3: // duplicate a separator
		var idx []int
		for i, c := range b {
			if c == '/' || c == ':' || c == '@' {
				idx = append(idx, i)
			}
		}
		if len(idx) > 0 {
			p := Pick(r, idx)
			return string(b[:p]) + string(b[p]) + string(b[p:])
		}
	case 4: // flip the case of a letter
		var idx []int
		for i, c := range b {
			if c >= 'a' && c <= 'z' || c >= 'A' && c <= 'Z' {
				idx = append(idx, i)
			}
		}
		if len(idx) > 0 {
			p := Pick(r, idx)
			b[p] ^= 0x20
			return string(b)
		}
	case 5: // random byte anywhere
		return string(b[:pos]) + string([]byte{byte(r.U64())}) + string(b[pos:])
	case 6: // swap a separator for another one
		var idx []int
		for i, c := range b {
			if c == '/' || c == ':' || c == '@' {
				idx = append(idx, i)
			}
		}
		if len(idx) > 0 {
			p := Pick(r, idx)
			b[p] = Pick(r, []byte{'/', ':', '@', '\\', '.'})
			return string(b)
		}
	case 7: // prepend
		return sp + s
	case 8: // append
		return s + sp
	}
	return s + sp
}

// C13ValidDigest returns "sha256" + sep + 64 hex digits (mixed case with probability 1/3).
func C13ValidDigest(r *Rng) string {
	hexd := "0123456789abcdef"
	if r.Chance(1, 3) {
		hexd = "0123456789abcdefABCDEF"
	}
	b := make([]byte, 64)
	for i := range b {
		b[i] = hexd[r.Intn(len(hexd))]
	}
	if r.Chance(1, 16) {
		for i := range b {
			b[i] = '0'
		}
	}
	sep := ":"
	if r.Bool() {
		sep = "-"
	}
	return "sha256" + sep + string(b)
}

// C13Name draws one name-like string; the returned class is counted in the stats.
func C13Name(r *Rng) (class, s string) {
	part := func(kind int) string { return C13Part(r, kind, C13PartLen(r, kind)) }
	build := func() string {
		var sb strings.Builder
		switch r.Intn(4) {
		case 0:
			sb.WriteString(part(0) + "/" + part(1) + "/")
		case 1:
			sb.WriteString(part(1) + "/")
		case 2:
			if r.Chance(1, 4) {
				sb.WriteString(Pick(r, []string{"http://", "https://", "https+insecure://", "ftp://", "://"}))
			}
			sb.WriteString(part(0) + "/" + part(1) + "/")
		}
		sb.WriteString(part(2))
		if r.Chance(2, 3) {
			sb.WriteString(":" + part(3))
		}
		return sb.String()
	}
	switch r.Intn(10) {
	case 0, 1, 2:
		return "wellformed", build()
	case 3, 4, 5:
		s = build()
		for k := r.Range(1, 3); k > 0; k-- {
			s = C13Mutate(r, s)
		}
		return "mutated", s
	case 6:
		s = build()
		d := C13ValidDigest(r)
		if r.Chance(1, 3) {
			d = C13Mutate(r, d)
		}
		if r.Chance(1, 5) {
			s = ""
		}
		return "withdigest", s + "@" + d
	case 7:
		n := r.Intn(10)
		b := make([]byte, n)
		for i := range b {
			b[i] = Pick(r, C13Alphabet)
		}
		return "alphabet", string(b)
	case 8:
		return "bytes", string(r.Bytes(r.Intn(12)))
	default: // many separators
		n := r.Range(1, 7)
		var parts []string
		for i := 0; i < n; i++ {
			parts = append(parts, C13Part(r, r.Intn(4), r.Intn(4)))
		}
		s = strings.Join(parts, Pick(r, []string{"/", ":", "/", "//", ":/", "/:"}))
		return "manyseps", s
	}
}

// C13RelPath draws a string to be read as a name relative path (host/ns/model/tag).
func C13RelPath(r *Rng) (class, s string) {
	mk := func() string {
		return C13Part(r, 0, C13PartLen(r, 0)) + "/" + C13Part(r, 1, C13PartLen(r, 1)) + "/" +
			C13Part(r, 2, C13PartLen(r, 2)) + "/" + C13Part(r, 3, C13PartLen(r, 3))
	}
	switch r.Intn(6) {
	case 0, 1:
		return "wellformed", mk()
	case 2, 3:
		s = mk()
		for k := r.Range(1, 2); k > 0; k-- {
			s = C13Mutate(r, s)
		}
		return "mutated", s
	case 4:
		n := r.Range(1, 6)
		var parts []string
		for i := 0; i < n; i++ {
			parts = append(parts, Pick(r, []string{"a", "..", ".", "", "B", "a.b", "x:1", "_", "-a", "a\\b", "a\x00"}))
		}
		return "dots", strings.Join(parts, "/")
	default:
		_, s = C13Name(r)
		return "namelike", s
	}
}

// C13Digest draws one digest-like string.
func C13Digest(r *Rng) (class, s string) {
	switch r.Intn(10) {
	case 0, 1, 2:
		return "wellformed", C13ValidDigest(r)
	case 3, 4, 5:
		s = C13ValidDigest(r)
		for k := r.Range(1, 2); k > 0; k-- {
			s = C13Mutate(r, s)
		}
		return "mutated", s
	case 6: // right length, path-like payload
		pay := strings.Repeat(Pick(r, []string{"../", "/", "./", "..", "a/", "\x00", "\\", ":"}), 64)[:64]
		return "pathlike", "sha256" + Pick(r, []string{":", "-", "/", ""}) + pay
	case 7: // wrong lengths
		d := C13ValidDigest(r)
		n := Pick(r, []int{0, 1, 6, 7, 8, 63 + 7, 64 + 7 - 2, 64 + 7 + 1, 64 + 7 + 64})
		for len(d) < n {
			d += "a"
		}
		return "length", d[:n]
	case 8: // other algorithm names / prefixes
		d := C13ValidDigest(r)
		return "prefix", Pick(r, []string{"sha512", "SHA256", "sha25", "sha2566", "", "md5", " sha256", "sha256\x00"}) + d[6:]
	default:
		n := r.Intn(10)
		b := make([]byte, n)
		for i := range b {
			b[i] = Pick(r, C13Alphabet)
		}
		return "alphabet", string(b)
	}
}

// C13Confined is the model-independent statement of "p lies inside root/sub at exactly depth
// components below it, and no component can traverse upward or split": it returns "" when p is
// confined and a reason otherwise.
func C13Confined(root, sub, p string, depth int) string {
	if p != filepath.Clean(p) {
		return "not-clean"
	}
	prefix := root + "/" + sub + "/"
	if !strings.HasPrefix(p, prefix) {
		return "outside-prefix"
	}
	rel, err := filepath.Rel(filepath.Join(root, sub), p)
	if err != nil {
		return "rel-error"
	}
	comps := strings.Split(rel, "/")
	if len(comps) != depth {
		return fmt.Sprintf("depth-%d", len(comps))
	}
	for _, c := range comps {
		if c == "" || c == "." || c == ".." {
			return "dot-component"
		}
		if strings.ContainsAny(c, "/\\\x00") {
			return "separator-byte"
		}
	}
	if strings.Join(comps, "/") != p[len(prefix):] {
		return "rel-mismatch"
	}
	return ""
}

// C13Fields renders four name fields for the line protocol.
func C13Fields(h, n, m, t string) string {
	return Hex([]byte(h)) + "," + Hex([]byte(n)) + "," + Hex([]byte(m)) + "," + Hex([]byte(t))
}

func C13Bool(b bool) string {
	if b {
		return "1"
	}
	return "0"
}

// C13LimitParts calls f with parts whose lengths sit on and around every limit, clean and with
// one offending byte at the start, middle or end.
func C13LimitParts(r *Rng, f func(kind int, s string)) {
	lens := []int{0, 1, 2, 3, 79, 80, 81, 82, 160, 349, 350, 351, 352, 700, 1000}
	bad := []byte{'/', '\\', ':', '.', '-', '@', 0, 0x80, ' ', '~'}
	for kind := 0; kind < 5; kind++ {
		for _, n := range lens {
			k := kind
			if k == 4 {
				k = 1
			}
			s := C13Part(r, k, n)
			f(kind, s)
			if n == 0 {
				continue
			}
			for _, c := range bad {
				for _, pos := range []int{0, n / 2, n - 1} {
					b := []byte(s)
					b[pos] = c
					f(kind, string(b))
				}
			}
		}
	}
}
