package zzverif

import (
	"bytes"
	"encoding/binary"
)

// C10Crafted: one input per known panic / allocation site plus the negative-seek file
// (corpus, always run first).
func C10Crafted() [][]byte {
	mk := func(f func(w func(v any), str func(s string))) []byte {
		var b bytes.Buffer
		w := func(v any) { binary.Write(&b, binary.LittleEndian, v) }
		str := func(s string) { w(uint64(len(s))); b.WriteString(s) }
		b.WriteString("GGUF")
		f(w, str)
		return b.Bytes()
	}
	hdr := func(w func(v any), version uint32, nt, nkv uint64) { w(version); w(nt); w(nkv) }
	var out [][]byte
	// alignment = 0  -> integer divide by zero
	out = append(out, mk(func(w func(any), str func(string)) {
		hdr(w, 3, 0, 1)
		str("general.alignment")
		w(uint32(4))
		w(uint32(0))
	}))
	// alignment of string type -> failed type assertion
	out = append(out, mk(func(w func(any), str func(string)) { hdr(w, 3, 0, 1); str("general.alignment"); w(uint32(8)); str("x") }))
	// key length 2^63 -> negative slice bound
	out = append(out, mk(func(w func(any), str func(string)) { hdr(w, 3, 0, 1); w(uint64(1 << 63)) }))
	// key length 2^40 -> 1 TiB make
	out = append(out, mk(func(w func(any), str func(string)) { hdr(w, 3, 0, 1); w(uint64(1 << 40)) }))
	// array count 2^63 -> negative make
	out = append(out, mk(func(w func(any), str func(string)) {
		hdr(w, 3, 0, 1)
		str("a")
		w(uint32(9))
		w(uint32(4))
		w(uint64(1 << 63))
	}))
	// dims = 2^32-1 -> 32 GiB make
	out = append(out, mk(func(w func(any), str func(string)) { hdr(w, 3, 1, 0); str("t"); w(uint32(1<<32 - 1)) }))
	// v1: string length 0 -> Truncate(-1)
	{
		var b bytes.Buffer
		w := func(v any) { binary.Write(&b, binary.LittleEndian, v) }
		b.WriteString("GGUF")
		w(uint32(1))
		w(uint32(0))
		w(uint32(1))
		w(uint64(0))
		out = append(out, b.Bytes())
	}
	// v1: collected non-empty array -> index out of range on a zero-length slice
	{
		var b bytes.Buffer
		w := func(v any) { binary.Write(&b, binary.LittleEndian, v) }
		b.WriteString("GGUF")
		w(uint32(1))
		w(uint32(0))
		w(uint32(1))
		w(uint64(2))
		b.WriteString("a\x00")
		w(uint32(9))
		w(uint32(4))
		w(uint32(1))
		w(uint32(7))
		out = append(out, b.Bytes())
	}
	// tensor whose Size() is -(its own end offset) as int64: Decode "succeeds" with end offset 0
	out = append(out, mk(func(w func(any), str func(string)) {
		hdr(w, 3, 1, 0)
		str("t")
		w(uint32(1))
		// info ends at 4+4+8+8 +8+1 +4 +8 +4 +8 = 57 -> padded to 64; Size = 4*n == -64 mod 2^64
		w(uint64(1<<62 - 16))
		w(uint32(0))
		w(uint64(0))
	}))
	return out
}
