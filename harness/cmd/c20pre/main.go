// c20pre: the pre-tokenizer patterns of the BPE models, extracted from the sources with go/ast (C20, Tie 1b).
//
// For every call of NewBytePairEncoding under $C20_MODELS (default /repo/model/models) print
//
//	<file relative to the repo>\t<pattern>
//
// The pattern is the string value of the call's first argument: a string literal (raw or quoted), a
// concatenation of such, an identifier bound to one by a const / var declaration of the same package, or a call
// whose LAST argument is one (`c.String("tokenizer.ggml.pretokenizer", <default>)`).  Unlike a textual search it
// does not depend on the literal sitting inside the call, on raw-string quoting or on layout.
package main

import (
	"fmt"
	"go/ast"
	"go/parser"
	"go/token"
	"os"
	"path/filepath"
	"sort"
	"strconv"
	"strings"
)

func main() {
	root := os.Getenv("C20_MODELS")
	if root == "" {
		root = "/repo/model/models"
	}
	repo := os.Getenv("C20_REPO")
	if repo == "" {
		repo = filepath.Dir(filepath.Dir(root))
	}
	dirs := map[string]bool{}
	filepath.Walk(root, func(p string, info os.FileInfo, err error) error {
		if err == nil && !info.IsDir() && strings.HasSuffix(p, ".go") && !strings.HasSuffix(p, "_test.go") {
			dirs[filepath.Dir(p)] = true
		}
		return nil
	})
	var names []string
	for d := range dirs {
		names = append(names, d)
	}
	sort.Strings(names)
	for _, dir := range names {
		fset := token.NewFileSet()
		pkgs, err := parser.ParseDir(fset, dir, func(fi os.FileInfo) bool { return !strings.HasSuffix(fi.Name(), "_test.go") }, 0)
		if err != nil {
			fmt.Fprintf(os.Stderr, "parse %s: %v\n", dir, err)
			continue
		}
		for _, pkg := range pkgs {
			// package-level and local string bindings: name -> expression
			binds := map[string]ast.Expr{}
			for _, f := range pkg.Files {
				ast.Inspect(f, func(n ast.Node) bool {
					switch x := n.(type) {
					case *ast.ValueSpec:
						for i, nm := range x.Names {
							if i < len(x.Values) {
								binds[nm.Name] = x.Values[i]
							}
						}
					case *ast.AssignStmt:
						if x.Tok == token.DEFINE && len(x.Lhs) == len(x.Rhs) {
							for i, l := range x.Lhs {
								if id, ok := l.(*ast.Ident); ok {
									binds[id.Name] = x.Rhs[i]
								}
							}
						}
					}
					return true
				})
			}
			var resolve func(e ast.Expr, depth int) (string, bool)
			resolve = func(e ast.Expr, depth int) (string, bool) {
				if depth > 8 {
					return "", false
				}
				switch x := e.(type) {
				case *ast.BasicLit:
					if x.Kind == token.STRING {
						s, err := strconv.Unquote(x.Value)
						return s, err == nil
					}
				case *ast.ParenExpr:
					return resolve(x.X, depth+1)
				case *ast.BinaryExpr:
					if x.Op == token.ADD {
						a, ok1 := resolve(x.X, depth+1)
						b, ok2 := resolve(x.Y, depth+1)
						return a + b, ok1 && ok2
					}
				case *ast.Ident:
					if v, ok := binds[x.Name]; ok {
						return resolve(v, depth+1)
					}
				case *ast.CallExpr:
					if len(x.Args) > 0 {
						return resolve(x.Args[len(x.Args)-1], depth+1)
					}
				}
				return "", false
			}
			var files []string
			for name := range pkg.Files {
				files = append(files, name)
			}
			sort.Strings(files)
			for _, name := range files {
				ast.Inspect(pkg.Files[name], func(n ast.Node) bool {
					call, ok := n.(*ast.CallExpr)
					if !ok || len(call.Args) == 0 {
						return true
					}
					fn := ""
					switch f := call.Fun.(type) {
					case *ast.SelectorExpr:
						fn = f.Sel.Name
					case *ast.Ident:
						fn = f.Name
					}
					if fn != "NewBytePairEncoding" {
						return true
					}
					rel, _ := filepath.Rel(repo, name)
					if pat, ok := resolve(call.Args[0], 0); ok && pat != "" && !strings.ContainsAny(pat, "\t\n") {
						fmt.Printf("%s\t%s\n", rel, pat)
					} else {
						fmt.Printf("%s\t<unresolved>\n", rel)
					}
					return true
				})
			}
		}
	}
}
