package main

import (
	"fmt"
	"io"
	"path/filepath"
	"sort"
	"strconv"
	"strings"
)

type Fact struct {
	Site   string   `json:"site"`
	Func   string   `json:"func"`
	Line   int      `json:"line"`
	Cls    string   `json:"cls"`
	Kind   string   `json:"kind"`
	Locks  []string `json:"locks"` // "g:Type.mu" (singleton object's mutex) | "s:Type.mu" (same object's mutex)
	Thread string   `json:"thread"`
	Single bool     `json:"single"`
	Init   bool     `json:"init"`
	Racy   bool     `json:"racy"`
	Atomic bool     `json:"atomic"`
	Pre    []int    `json:"pre"`
	Post   []int    `json:"post"`
	HB     []string `json:"hb"`
	Use    bool     `json:"use"`   // the value read is used (not just compared with nil)
	Live   bool     `json:"live"`  // pointer found in the registry under the registry lock, lock still held
	Valid  bool     `json:"valid"` // re-checked non-nil under a lock the teardown holds, lock still held
}

// StaleRead is a use of a field the teardown clears, through a pointer that is neither live nor
// re-validated nor held (C01) nor fresh
type StaleRead struct {
	Cls  string `json:"cls"`
	Func string `json:"func"`
	Site string `json:"site"`
}

// UnitInfo locates a function unit (declaration or closure) in the source, for mapping race
// reports (file:line) back to units
type UnitInfo struct {
	Name  string `json:"name"`
	File  string `json:"file"`
	Start int    `json:"start"`
	End   int    `json:"end"`
}

// SiteInfo is one syntactic access before de-duplication
type SiteInfo struct {
	Unit string `json:"unit"`
	File string `json:"file"`
	Line int    `json:"line"`
	Cls  string `json:"cls"`
	Kind string `json:"kind"`
}

// ExemptPair is a conflicting pair that passes only because of a non-lock ordering (one of the
// theorem's hypotheses); a race report on such a pair refutes the hypothesis
type ExemptPair struct {
	Cls    string `json:"cls"`
	A      string `json:"a"` // function units
	B      string `json:"b"`
	Reason string `json:"reason"`
}

type Violation struct {
	Cls string `json:"cls"`
	A   int    `json:"a"` // fact indices
	B   int    `json:"b"`
}

type Result struct {
	Facts      []Fact         `json:"facts"`
	Violations []Violation    `json:"violations"`
	Classes    []string       `json:"classes"`
	LockNames  []string       `json:"lock_classes"`
	Threads    []string       `json:"threads"`
	Sites      []string       `json:"sites"`
	BadClasses []string       `json:"bad_classes"`
	PerClass   map[string]int `json:"facts_per_class"`
	Inserts    map[string]int `json:"map_insertion_sites"`
	Spawns     []string       `json:"spawns"`
	Units      []UnitInfo     `json:"units"`
	Exempt     []ExemptPair   `json:"exempt_pairs"`
	Cleared    []string       `json:"cleared_classes"`
	Stale      []StaleRead    `json:"stale_reads"`
	SitesAll   []SiteInfo     `json:"sites_all"`
	Notes      []string       `json:"notes"`
	// Parents: closure -> the function it is written in; declared function with exactly one
	// caller -> that caller.  Used to recognise a known finding after a helper was extracted.
	Parents map[string]string `json:"parents"`
	// Branches: how often each branch of the pairwise rule / the stale-pointer rule decided on this table
	Branches map[string]int `json:"rule_branches"`
	// Claims: run-time checkable lockset claims (site, mutex expression), see instrument.go
	Claims []Claim `json:"claims"`
	// lock order: "acquires To while holding From" per site; Fresh = one of the two mutexes belongs to an
	// object that is not published yet (it cannot be contended); LockRefs = the mutex classes in the
	// order of a topological sort of the non-fresh edges (LockRank[i] = rank of LockRefs[i]; all 0 when
	// the relation has a cycle); LockCycles = pairs of edges A->B, B->..->A found
	LockOrder  []LockEdge `json:"lock_order"`
	LockRefs   []string   `json:"lock_refs"`
	LockRank   []int      `json:"lock_rank"`
	LockCycles []string   `json:"lock_cycles"`
}

type LockEdge struct {
	From  string `json:"from"`
	To    string `json:"to"`
	Site  string `json:"site"`
	Fresh bool   `json:"fresh"`
}

func lockRefOf(k lockKey) (ref string, base string, ok bool) {
	cls, b := keyBase(k)
	cls = strings.TrimPrefix(cls, sharedPrefix)
	if strings.Contains(cls, ":") {
		return "", "", false
	}
	if b == "" {
		return "g:" + cls, "", true
	}
	return "s:" + cls, b, true
}

// lockOrder resolves the recorded acquisitions against the locks held at function entry
func (a *analyzer) lockOrder(res *Result, entry map[*unit]map[lockKey]bool) {
	// parameters that every caller binds to a fresh object
	entryFresh := map[*unit]map[string]bool{}
	for _, u := range a.units {
		var acc map[string]bool
		for i, e := range u.in {
			fp := e.freshParams
			if e.mode != "call" || fp == nil {
				fp = map[string]bool{}
			}
			if i == 0 {
				acc = map[string]bool{}
				for k := range fp {
					acc[k] = true
				}
			} else {
				for k := range acc {
					if !fp[k] {
						delete(acc, k)
					}
				}
			}
		}
		entryFresh[u] = acc
	}
	isFresh := func(u *unit, aq *acq, base string, local bool) bool {
		if base == "" {
			return false
		}
		if local && aq.fresh[base] {
			return true
		}
		return aq.fresh["param:"+base] && entryFresh[u][base]
	}
	seen := map[string]bool{}
	refs := map[string]bool{}
	for _, u := range a.units {
		for _, aq := range u.acqs {
			to, toBase, ok := lockRefOf(aq.key)
			if !ok {
				continue
			}
			refs[to] = true
			for h := range eff(entry[u], aq.st) {
				from, fromBase, ok := lockRefOf(h)
				if !ok || h == aq.key {
					continue
				}
				refs[from] = true
				fresh := isFresh(u, aq, toBase, true) || isFresh(u, aq, fromBase, aq.st.added[h])
				e := LockEdge{From: from, To: to, Site: fmt.Sprintf("%s:%d", u.name, aq.line), Fresh: fresh}
				k := fmt.Sprintf("%s|%s|%s|%v", e.From, e.To, e.Site, e.Fresh)
				if !seen[k] {
					seen[k] = true
					res.LockOrder = append(res.LockOrder, e)
				}
			}
		}
	}
	sort.Slice(res.LockOrder, func(i, j int) bool {
		x, y := res.LockOrder[i], res.LockOrder[j]
		if x.From != y.From {
			return x.From < y.From
		}
		if x.To != y.To {
			return x.To < y.To
		}
		return x.Site < y.Site
	})
	// topological sort (Kahn) of the non-fresh relation
	names := keys(refs)
	succ := map[string]map[string]bool{}
	indeg := map[string]int{}
	for _, n := range names {
		succ[n] = map[string]bool{}
	}
	for _, e := range res.LockOrder {
		if !e.Fresh && !succ[e.From][e.To] {
			succ[e.From][e.To] = true
			indeg[e.To]++
		}
	}
	rank := map[string]int{}
	done := map[string]bool{}
	for r := 1; ; r++ {
		var layer []string
		for _, n := range names {
			if !done[n] && indeg[n] == 0 {
				layer = append(layer, n)
			}
		}
		if len(layer) == 0 {
			break
		}
		for _, n := range layer {
			done[n] = true
			rank[n] = r
			for m := range succ[n] {
				indeg[m]--
			}
		}
	}
	cyclic := len(done) < len(names)
	res.LockRefs = names
	for _, n := range names {
		if cyclic {
			res.LockRank = append(res.LockRank, 0)
		} else {
			res.LockRank = append(res.LockRank, rank[n])
		}
	}
	if cyclic {
		// report, for every edge between two unsorted classes, the edge and one edge back (or the self edge)
		for _, e := range res.LockOrder {
			if e.Fresh || done[e.From] || done[e.To] {
				continue
			}
			back := ""
			for _, f := range res.LockOrder {
				if !f.Fresh && f.From == e.To && !done[f.To] && (f.To == e.From || back == "") {
					back = f.Site
					if f.To == e.From {
						break
					}
				}
			}
			res.LockCycles = append(res.LockCycles, fmt.Sprintf("%s|%s|%s|%s", e.From[2:], e.To[2:], e.Site, back))
		}
	}
}

type Claim struct {
	File string `json:"file"`
	Off  int    `json:"off"` // byte offset of the enclosing statement
	Site string `json:"site"`
	Expr string `json:"expr"`
	Lock string `json:"lock"`
}

func keyBase(k lockKey) (string, string) {
	i := strings.Index(string(k), "@")
	return string(k)[:i], string(k)[i+1:]
}

func eff(entry map[lockKey]bool, st state) map[lockKey]bool {
	out := map[lockKey]bool{}
	for k := range entry {
		if !st.removed[k] {
			out[k] = true
		}
	}
	for k := range st.added {
		out[k] = true
	}
	return out
}

func translate(L map[lockKey]bool, e *edge) map[lockKey]bool {
	out := map[lockKey]bool{}
	for k := range L {
		cls, base := keyBase(k)
		isPost := strings.HasPrefix(cls, "post:")
		switch e.mode {
		case "inline":
			out[k] = true
		case "call":
			if base == "" {
				out[k] = true
			} else if nb, ok := e.binds[base]; ok {
				out[lockKey(cls+"@"+nb)] = true
			}
		default: // deferred spawn callback
			if isPost {
				out[k] = true
			}
		}
	}
	if e.mode == "spawn" && e.sp != nil {
		out[lockKey(fmt.Sprintf("post:%d@", e.sp.id))] = true
		for _, k := range e.handoff {
			out[k] = true
		}
	}
	return out
}

func sameSet(a, b map[lockKey]bool) bool {
	if len(a) != len(b) {
		return false
	}
	for k := range a {
		if !b[k] {
			return false
		}
	}
	return true
}

func (a *analyzer) solve() *Result {
	// external edges: functions nobody in the package calls (handlers, exported entry points)
	// and functions used as values run on request goroutines, which start at srvr.Serve
	var serveState state
	if a.serveSp != nil {
		p := a.serveSp.parent
		var keep []*access
		for _, ac := range p.accesses {
			if ac.cls == "<serve>" {
				serveState = ac.st
			} else {
				keep = append(keep, ac)
			}
		}
		p.accesses = keep
	} else {
		a.notes = append(a.notes, "no `X.Serve(...)` call found in func Serve: request goroutines are not ordered after server start-up")
	}
	// closures passed for a func-typed parameter: called where the callee calls the parameter
	for _, la := range a.litArgs {
		inv := map[string]string{}
		for from, to := range la.binds {
			inv[to] = from
		}
		var direct *edge
		for _, e := range la.lit.in {
			if e.mode == "param" {
				direct = e
			}
		}
		n := 0
		for _, pc := range a.paramCalls {
			if pc.u == la.callee && pc.idx == la.idx {
				la.lit.in = append(la.lit.in, &edge{from: pc.u, to: la.lit, st: pc.st, binds: inv, mode: "call"})
				n++
			}
		}
		if direct != nil {
			if n == 0 {
				direct.mode = "callback" // the callee stores it or passes it on
			} else {
				var keep []*edge
				for _, e := range la.lit.in {
					if e != direct {
						keep = append(keep, e)
					}
				}
				la.lit.in = keep
			}
		}
	}
	for _, u := range a.units {
		if u.isLit || u.name == "Serve" || u.name == "init" {
			continue
		}
		if len(u.in) == 0 || u.valueRef {
			if a.serveSp != nil {
				u.in = append(u.in, &edge{from: a.serveSp.parent, to: u, st: serveState.clone(), mode: "spawn", sp: a.serveSp})
			} else {
				u.in = append(u.in, &edge{to: u, mode: "external", st: newState()})
			}
		}
	}

	// entry locksets: intersection over call sites (greatest fixpoint)
	entry := map[*unit]map[lockKey]bool{}
	known := map[*unit]bool{}
	for _, u := range a.units {
		if len(u.in) == 0 {
			entry[u] = map[lockKey]bool{}
			known[u] = true
		}
	}
	for round := 0; round < 50; round++ {
		changed := false
		for _, u := range a.units {
			if len(u.in) == 0 {
				continue
			}
			var acc map[lockKey]bool
			have := false
			for _, e := range u.in {
				var T map[lockKey]bool
				if e.from == nil {
					T = map[lockKey]bool{}
				} else if !known[e.from] {
					continue
				} else {
					T = translate(eff(entry[e.from], e.st), e)
				}
				if !have {
					acc, have = T, true
				} else {
					for k := range acc {
						if !T[k] {
							delete(acc, k)
						}
					}
				}
			}
			if have && (!known[u] || !sameSet(entry[u], acc)) {
				entry[u], known[u] = acc, true
				changed = true
			}
		}
		if !changed {
			break
		}
	}
	for _, u := range a.units {
		if !known[u] {
			entry[u] = map[lockKey]bool{}
		}
	}

	// thread classes
	threads := map[*unit]map[string]bool{}
	for _, u := range a.units {
		threads[u] = map[string]bool{}
		if len(u.in) == 0 {
			threads[u]["main"] = true
		}
	}
	for round := 0; round < 50; round++ {
		changed := false
		for _, u := range a.units {
			for _, e := range u.in {
				var add []string
				switch {
				case e.mode == "spawn" && e.sp != nil:
					add = []string{e.sp.class}
				case e.mode == "callback":
					add = []string{"cb:" + u.name}
				case e.from == nil:
					add = []string{"api"}
				default:
					for t := range threads[e.from] {
						add = append(add, t)
					}
				}
				for _, t := range add {
					if !threads[u][t] {
						threads[u][t] = true
						changed = true
					}
				}
			}
		}
		if !changed {
			break
		}
	}
	// a unit runs at most once per server instance if it is a start-up root, or its only way in
	// is one loop-free call / spawn from a unit that runs once
	onceUnit := map[*unit]bool{}
	for _, u := range a.units {
		if len(u.in) == 0 {
			onceUnit[u] = true
		}
	}
	single := map[string]bool{"main": true}
	once := map[int]bool{}
	for round := 0; round < 30; round++ {
		changed := false
		for _, u := range a.units {
			if onceUnit[u] || len(u.in) != 1 {
				continue
			}
			e := u.in[0]
			if e.from != nil && onceUnit[e.from] && !e.inLoop && (e.sp == nil || (!e.sp.inLoop && e.sp.kind != "serve")) && e.mode != "callback" {
				onceUnit[u] = true
				changed = true
			}
		}
		for _, sp := range a.spawns {
			o := onceUnit[sp.parent] && !sp.inLoop
			if o && !once[sp.id] {
				once[sp.id] = true
				changed = true
			}
			if o && sp.kind == "go" && !single[sp.class] {
				single[sp.class] = true
				changed = true
			}
		}
		if !changed {
			break
		}
	}

	// a `go` statement outside any loop starts ONE thread per execution of its function; for the
	// per-object classes of forkOwners (one preparing invocation per object) that is one thread
	// per object
	objSingle := map[string]bool{}
	elemSingle := map[string]bool{}
	for _, sp := range a.spawns {
		if sp.kind == "go" && !sp.inLoop && sp.ownerRecv {
			objSingle[sp.class] = true
		}
		if sp.perElement {
			elemSingle[sp.class] = true
		}
	}
	// units executed once per object of a forkOwners type: the target of `go x.Run()` and what
	// it calls loop-free; spawn order inside them is per object too
	ownerOnce := map[*unit]bool{}
	for round := 0; round < 30; round++ {
		changed := false
		for _, u := range a.units {
			if ownerOnce[u] || len(u.in) != 1 {
				continue
			}
			e := u.in[0]
			if (e.sp != nil && e.sp.ownerRecv && !e.sp.inLoop) || (e.from != nil && ownerOnce[e.from] && !e.inLoop && e.sp == nil && (e.mode == "call" || e.mode == "inline")) {
				ownerOnce[u] = true
				changed = true
			}
		}
		if !changed {
			break
		}
	}
	spawnByID := map[int]*spawn{}
	for _, sp := range a.spawns {
		spawnByID[sp.id] = sp
	}
	res := &Result{PerClass: map[string]int{}, Inserts: map[string]int{}, Notes: a.notes, Parents: map[string]string{}}
	for _, u := range a.units {
		if u.isLit {
			if i := strings.LastIndex(u.name, "$"); i > 0 {
				res.Parents[u.name] = u.name[:i]
			}
			continue
		}
		var from *unit
		ok := len(u.in) > 0 && !u.valueRef
		for _, e := range u.in {
			if e.from == nil || e.sp != nil || !(e.mode == "call" || e.mode == "deferred") || (from != nil && e.from != from) {
				ok = false
				break
			}
			from = e.from
		}
		if ok && from != nil && from != u {
			res.Parents[u.name] = from.name
		}
	}
	for _, sp := range a.spawns {
		pos := a.fset.Position(sp.node.Pos())
		res.Spawns = append(res.Spawns, fmt.Sprintf("%d: %s in %s (line %d) -> thread class %q once=%v single=%v", sp.id, sp.kind, sp.parent.name, pos.Line, sp.class, once[sp.id], single[sp.class]))
	}

	liveValid := func(ac *access, L map[lockKey]bool, locks []string) (live, valid bool) {
		hasReg, hasObj := contains(locks, "g:"+registryLock), contains(locks, "s:"+objectLock)
		live = L[lockKey("live:@"+ac.base)] && hasReg
		valid = L[lockKey("valid:@"+ac.base)] && hasObj
		_ = hasReg
		return
	}
	lockRefs := func(ac *access, L map[lockKey]bool) (locks []string, pre, post []int) {
		readKind := ac.kind == "read" || ac.kind == "mapRead" || ac.kind == "mapIter"
		for k := range L {
			cls, base := keyBase(k)
			if strings.HasPrefix(cls, sharedPrefix) {
				// held through RLock: excludes writers only, so it protects a read, never a write
				if !readKind {
					continue
				}
				cls = strings.TrimPrefix(cls, sharedPrefix)
			}
			switch {
			case cls == "live:" || cls == "valid:":
			case strings.HasPrefix(cls, "pre:"), strings.HasPrefix(cls, "post:"):
				id, _ := strconv.Atoi(cls[strings.Index(cls, ":")+1:])
				sp := spawnByID[id]
				if !(once[id] || (forkOwners[ac.owner] && sp != nil && (sp.ownerRecv || ownerOnce[sp.parent]))) {
					continue
				}
				if strings.HasPrefix(cls, "pre:") {
					pre = append(pre, id)
				} else {
					post = append(post, id)
				}
			case base == "":
				locks = append(locks, "g:"+cls)
			case ac.owner != "" && base == ac.base && strings.HasPrefix(cls, ac.owner+"."):
				locks = append(locks, "s:"+cls)
			}
		}
		sort.Strings(locks)
		sort.Ints(pre)
		sort.Ints(post)
		return
	}

	for _, u := range a.units {
		p0, p1 := a.fset.Position(u.body.Pos()), a.fset.Position(u.body.End())
		res.Units = append(res.Units, UnitInfo{u.name, filepath.Base(p0.Filename), p0.Line, p1.Line})
		for _, ac := range u.accesses {
			res.SitesAll = append(res.SitesAll, SiteInfo{u.name, filepath.Base(p0.Filename), ac.line, ac.cls, ac.kind})
		}
	}
	seen := map[string]bool{}
	for _, u := range a.units {
		var ths []string
		for t := range threads[u] {
			ths = append(ths, t)
		}
		sort.Strings(ths)
		if len(ths) == 0 {
			ths = []string{"api"}
		}
		for _, ac := range u.accesses {
			L := eff(entry[u], ac.st)
			locks, pre, post := lockRefs(ac, L)
			live, valid := liveValid(ac, L, locks)
			use := ac.use
			if ac.snap && len(ac.snapUses) > 0 {
				// the value was copied into a local: it is used where the local is used
				use, live, valid = true, true, true
				for _, us := range ac.snapUses {
					Lu := eff(entry[u], us)
					lu, _, _ := lockRefs(ac, Lu)
					l, v := liveValid(ac, Lu, lu)
					live, valid = live && l, valid && v
				}
			}
			racy := false
			if ac.origin >= 0 {
				o := u.accesses[ac.origin]
				ol, _, _ := lockRefs(o, eff(entry[u], o.st))
				racy = len(ol) == 0 && !o.init
			}
			a.claims(res, u, ac, locks)
			hb := append([]string{}, ac.hb...)
			sort.Strings(hb)
			for _, t := range ths {
				f := Fact{Func: u.name, Line: ac.line, Cls: ac.cls, Kind: ac.kind, Locks: locks, Thread: t, Single: single[t] || (forkOwners[ac.owner] && objSingle[t]) || (elementOwners[ac.owner] && elemSingle[t]),
					Init: ac.init, Racy: racy, Atomic: ac.atomic, Pre: pre, Post: post, HB: hb, Use: use, Live: live, Valid: valid}
				key := fmt.Sprintf("%s|%s|%s|%v|%s|%v|%v|%v|%v|%v|%v|%v|%v|%v", f.Func, f.Cls, f.Kind, f.Locks, f.Thread, f.Init, f.Racy, f.Atomic, f.Pre, f.Post, f.HB, f.Use, f.Live, f.Valid)
				if seen[key] {
					continue
				}
				seen[key] = true
				f.Site = fmt.Sprintf("%s:%d", f.Func, f.Line)
				if f.Locks == nil {
					f.Locks = []string{}
				}
				if f.Pre == nil {
					f.Pre = []int{}
				}
				if f.Post == nil {
					f.Post = []int{}
				}
				res.Facts = append(res.Facts, f)
			}
		}
	}
	sort.SliceStable(res.Facts, func(i, j int) bool {
		if res.Facts[i].Cls != res.Facts[j].Cls {
			return res.Facts[i].Cls < res.Facts[j].Cls
		}
		return false
	})
	res.Cleared = keys(a.cleared)
	res.index()
	res.check()
	res.Branches = map[string]int{}
	res.branches(res.Branches)
	a.lockOrder(res, entry)
	return res
}

func (r *Result) index() {
	cs, ls, ts := map[string]bool{}, map[string]bool{}, map[string]bool{}
	for _, f := range r.Facts {
		cs[f.Cls] = true
		ts[f.Thread] = true
		for _, l := range f.Locks {
			ls[l[2:]] = true
		}
		r.PerClass[f.Cls]++
		if f.Kind == "mapInsert" {
			r.Inserts[f.Cls]++
		}
		if !contains(r.Sites, f.Site) {
			r.Sites = append(r.Sites, f.Site)
		}
	}
	r.Classes, r.LockNames, r.Threads = keys(cs), keys(ls), keys(ts)
	for _, c := range r.Classes {
		if strings.HasPrefix(c, "global.") || strings.HasSuffix(c, ".loaded") {
			if _, ok := r.Inserts[c]; !ok && r.hasKind(c, "mapRead", "mapIter", "mapDelete") {
				r.Inserts[c] = 0
			}
		}
	}
}

func (r *Result) hasKind(c string, kinds ...string) bool {
	for _, f := range r.Facts {
		if f.Cls == c && contains(kinds, f.Kind) {
			return true
		}
	}
	return false
}

func keys(m map[string]bool) []string {
	var out []string
	for k := range m {
		out = append(out, k)
	}
	sort.Strings(out)
	return out
}

func contains(l []string, s string) bool {
	for _, x := range l {
		if x == s {
			return true
		}
	}
	return false
}

func interI(a, b []int) bool {
	for _, x := range a {
		for _, y := range b {
			if x == y {
				return true
			}
		}
	}
	return false
}

func interS(a, b []string) bool {
	for _, x := range a {
		if contains(b, x) {
			return true
		}
	}
	return false
}

// the same pairwise rule as OllamaVerif.Lockset.compat (the Lean side re-computes the
// violation list from the facts and must agree: Tie.C15.violations_exact)
func (r *Result) isWrite(f *Fact) bool {
	switch f.Kind {
	case "write", "mapInsert":
		return true
	case "mapDelete":
		return r.Inserts[f.Cls] > 0
	}
	return false
}

func (r *Result) compat(a, b *Fact) bool {
	if !(r.isWrite(a) || r.isWrite(b)) {
		return true
	}
	if a.Single && b.Single && a.Thread == b.Thread {
		return true
	}
	if interS(a.Locks, b.Locks) {
		return true
	}
	return (a.Init && !b.Racy) || (b.Init && !a.Racy) || (a.Atomic && b.Atomic) ||
		interI(a.Pre, b.Post) || interI(b.Pre, a.Post) || interI(a.Pre, b.Pre) || interS(a.HB, b.HB)
}

// pairBranch names the first disjunct of `compat` that accepts the pair (the order of the Lean
// definition), or "violation"; staleBranch the same for `staleRead`.  Only counted (coverage of the
// rule's branches by the random tables and by the tree's table).
func (r *Result) pairBranch(a, b *Fact) string {
	switch {
	case !(r.isWrite(a) || r.isWrite(b)):
		if a.Kind == "mapDelete" || b.Kind == "mapDelete" {
			return "pair_reads_delete_on_never_inserted_map"
		}
		return "pair_both_reads"
	case a.Single && b.Single && a.Thread == b.Thread:
		return "pair_same_single_thread"
	case interS(a.Locks, b.Locks):
		return "pair_common_lock"
	case (a.Init && !b.Racy) || (b.Init && !a.Racy):
		return "pair_exempt_init"
	case a.Atomic && b.Atomic:
		return "pair_exempt_atomic"
	case interI(a.Pre, b.Post) || interI(b.Pre, a.Post):
		return "pair_exempt_fork_pre_post"
	case interI(a.Pre, b.Pre):
		return "pair_exempt_fork_pre_pre"
	case interS(a.HB, b.HB):
		return "pair_exempt_hb"
	}
	if (a.Init && b.Racy) || (b.Init && a.Racy) {
		return "pair_violation_init_vs_racy_reference"
	}
	return "pair_violation"
}

func (r *Result) staleBranch(f *Fact) string {
	switch {
	case f.Kind != "read":
		return "stale_na_not_a_read"
	case !contains(r.Cleared, f.Cls):
		return "stale_na_class_not_cleared"
	case !f.Use:
		return "stale_ok_nil_comparison_only"
	case f.Live && r.writesHold(f.Cls, "g:"+registryLock):
		return "stale_ok_live"
	case f.Valid && r.writesHold(f.Cls, "s:"+objectLock):
		return "stale_ok_valid"
	case f.Init:
		return "stale_ok_fresh"
	case contains(f.HB, "holder"):
		return "stale_ok_holder"
	case f.Live || f.Valid:
		return "stale_flag_not_honoured_a_write_lacks_the_lock"
	}
	return "stale_unprotected"
}

// branches counts, over the whole table, which branch of the two rules decided
func (r *Result) branches(into map[string]int) {
	for i := range r.Facts {
		for j := i; j < len(r.Facts); j++ {
			if r.Facts[i].Cls == r.Facts[j].Cls {
				into[r.pairBranch(&r.Facts[i], &r.Facts[j])]++
			}
		}
		into[r.staleBranch(&r.Facts[i])]++
	}
}

func (r *Result) exemptReason(a, b *Fact) string {
	switch {
	case !(r.isWrite(a) || r.isWrite(b)), a.Single && b.Single && a.Thread == b.Thread, interS(a.Locks, b.Locks):
		return ""
	case interS(a.HB, b.HB):
		for _, h := range a.HB {
			if contains(b.HB, h) {
				return "hb:" + h
			}
		}
	case a.Atomic && b.Atomic:
		return "atomic"
	case interI(a.Pre, b.Post) || interI(b.Pre, a.Post) || interI(a.Pre, b.Pre):
		return "fork"
	case (a.Init && !b.Racy) || (b.Init && !a.Racy):
		return "init"
	}
	return ""
}

func (r *Result) check() {
	bad := map[string]bool{}
	seenEx := map[string]bool{}
	for i := range r.Facts {
		for j := i; j < len(r.Facts); j++ {
			a, b := &r.Facts[i], &r.Facts[j]
			if a.Cls != b.Cls {
				continue
			}
			if !r.compat(a, b) {
				r.Violations = append(r.Violations, Violation{a.Cls, i, j})
				bad[a.Cls] = true
			} else if why := r.exemptReason(a, b); why != "" {
				k := a.Cls + "|" + a.Func + "|" + b.Func + "|" + why
				if !seenEx[k] {
					seenEx[k] = true
					r.Exempt = append(r.Exempt, ExemptPair{a.Cls, a.Func, b.Func, why})
				}
			}
		}
	}
	r.BadClasses = keys(bad)
	for i := range r.Facts {
		f := &r.Facts[i]
		if r.stale(f) {
			r.Stale = append(r.Stale, StaleRead{f.Cls, f.Func, f.Site})
		}
	}
}

// the same rule as OllamaVerif.Lockset.staleRead
func (r *Result) stale(f *Fact) bool {
	return f.Kind == "read" && contains(r.Cleared, f.Cls) && f.Use &&
		!((f.Live && r.writesHold(f.Cls, "g:"+registryLock)) || (f.Valid && r.writesHold(f.Cls, "s:"+objectLock)) ||
			f.Init || contains(f.HB, "holder"))
}

func (r *Result) writesHold(cls, lock string) bool {
	for i := range r.Facts {
		a := &r.Facts[i]
		if a.Cls != cls || a.Init || !(a.Kind == "write" || a.Kind == "mapInsert" || a.Kind == "mapDelete") {
			continue
		}
		if !contains(a.Locks, lock) {
			return false
		}
	}
	return true
}

func (r *Result) summary(w io.Writer) {
	for i, f := range r.Facts {
		fmt.Fprintf(w, "%3d %-32s %-9s %-40s locks=%v thread=%s single=%v init=%v racy=%v atomic=%v pre=%v post=%v hb=%v use=%v live=%v valid=%v\n",
			i, f.Cls, f.Kind, f.Site, f.Locks, f.Thread, f.Single, f.Init, f.Racy, f.Atomic, f.Pre, f.Post, f.HB, f.Use, f.Live, f.Valid)
	}
	fmt.Fprintln(w, "--- spawns")
	for _, s := range r.Spawns {
		fmt.Fprintln(w, s)
	}
	fmt.Fprintln(w, "--- violations")
	for _, v := range r.Violations {
		a, b := r.Facts[v.A], r.Facts[v.B]
		fmt.Fprintf(w, "%s: %s[%s %v @%s] vs %s[%s %v @%s]\n", v.Cls, a.Site, a.Kind, a.Locks, a.Thread, b.Site, b.Kind, b.Locks, b.Thread)
	}
	fmt.Fprintln(w, "--- cleared classes:", r.Cleared)
	fmt.Fprintln(w, "--- stale reads")
	for _, s := range r.Stale {
		fmt.Fprintf(w, "%s at %s\n", s.Cls, s.Site)
	}
	fmt.Fprintln(w, "--- notes")
	for _, n := range r.Notes {
		fmt.Fprintln(w, n)
	}
	fmt.Fprintln(w, "--- facts per class:", r.PerClass)
	fmt.Fprintln(w, "--- map insertion sites:", r.Inserts)
}

func idx(l []string, s string) int {
	for i, x := range l {
		if x == s {
			return i
		}
	}
	return -1
}

func natList(l []int) string {
	s := make([]string, len(l))
	for i, x := range l {
		s[i] = strconv.Itoa(x)
	}
	return "[" + strings.Join(s, ", ") + "]"
}

func strList(l []string) string {
	s := make([]string, len(l))
	for i, x := range l {
		s[i] = strconv.Quote(x)
	}
	return "[" + strings.Join(s, ", ") + "]"
}

func (r *Result) lean() string {
	var b strings.Builder
	b.WriteString("-- REGENERATED on every run by vlib/checks/c15.py (harness/cmd/lockset) from the working tree. Do not edit.\n")
	b.WriteString("import OllamaVerif.Model.Lockset\nnamespace OllamaVerif.Generated.C15\nopen OllamaVerif.Lockset\n\n")
	fmt.Fprintf(&b, "def classNames : List String := %s\n", strList(r.Classes))
	fmt.Fprintf(&b, "def lockNames : List String := %s\n", strList(r.LockNames))
	fmt.Fprintf(&b, "def threadNames : List String := %s\n", strList(r.Threads))
	fmt.Fprintf(&b, "def siteNames : List String := %s\n", strList(r.Sites))
	b.WriteString("def hbNames : List String := [\"-\", \"holder (C01: no unload while a request holds the runner)\", \"doneclose (write before close(done), read after <-done)\"]\n\n")
	b.WriteString("private def mk (site cls : Nat) (kind : Kind) (locks : List LockRef) (thread : Nat) (single init racy atomic : Bool)\n    (pre post hb : List Nat) (use live valid : Bool) : Access :=\n  { site, cls, kind, locks, thread, single, init, racy, atomic, pre, post, hb, use, live, valid }\n\n")
	b.WriteString("def accesses : List Access := [\n")
	for i, f := range r.Facts {
		var ls []string
		for _, l := range f.Locks {
			ls = append(ls, fmt.Sprintf("⟨%d, %v⟩", idx(r.LockNames, l[2:]), l[0] == 's'))
		}
		var hb []int
		for _, h := range f.HB {
			hb = append(hb, hbIDs[h])
		}
		sep := ","
		if i == len(r.Facts)-1 {
			sep = ""
		}
		fmt.Fprintf(&b, "  mk %d %d .%s [%s] %d %v %v %v %v %s %s %s %v %v %v%s  -- %d %s %s @%s\n",
			idx(r.Sites, f.Site), idx(r.Classes, f.Cls), f.Kind, strings.Join(ls, ", "), idx(r.Threads, f.Thread),
			f.Single, f.Init, f.Racy, f.Atomic, natList(f.Pre), natList(f.Post), natList(hb), f.Use, f.Live, f.Valid, sep, i, f.Cls, f.Site, f.Thread)
	}
	b.WriteString("]\n\n")
	b.WriteString("/-- (class, site, site) of the pairs the translator's own implementation of the rule rejects -/\n")
	b.WriteString("def expectedViolations : List (Nat × Nat × Nat) := [")
	for i, v := range r.Violations {
		if i > 0 {
			b.WriteString(", ")
		}
		fmt.Fprintf(&b, "(%d, %d, %d)", idx(r.Classes, v.Cls), idx(r.Sites, r.Facts[v.A].Site), idx(r.Sites, r.Facts[v.B].Site))
	}
	b.WriteString("]\n\n")
	var bad []int
	for _, c := range r.BadClasses {
		bad = append(bad, idx(r.Classes, c))
	}
	var good []int
	for i, c := range r.Classes {
		if !contains(r.BadClasses, c) {
			good = append(good, i)
		}
	}
	var clr []int
	for _, c := range r.Cleared {
		if i := idx(r.Classes, c); i >= 0 {
			clr = append(clr, i)
		}
	}
	b.WriteString("/-- classes a teardown function (runnerRef.unload) sets to nil -/\n")
	fmt.Fprintf(&b, "def clearedClassIds : List Nat := %s\n", natList(clr))
	fmt.Fprintf(&b, "def registryClassId : Nat := %d\n", idx(r.Classes, registryClass))
	fmt.Fprintf(&b, "def registryLockRef : LockRef := ⟨%d, false⟩\n", idx(r.LockNames, registryLock))
	fmt.Fprintf(&b, "def objectLockRef : LockRef := ⟨%d, true⟩\n", idx(r.LockNames, objectLock))
	b.WriteString("/-- (class, site) of the stale reads the translator's own implementation of the rule found -/\n")
	b.WriteString("def expectedStale : List (Nat × Nat) := [")
	for i, st := range r.Stale {
		if i > 0 {
			b.WriteString(", ")
		}
		fmt.Fprintf(&b, "(%d, %d)", idx(r.Classes, st.Cls), idx(r.Sites, st.Site))
	}
	b.WriteString("]\n")
	fmt.Fprintf(&b, "def badClassIds : List Nat := %s\n", natList(bad))
	fmt.Fprintf(&b, "def goodClassIds : List Nat := %s\n", natList(good))
	fmt.Fprintf(&b, "def badClassNames : List String := %s\n", strList(r.BadClasses))
	b.WriteString("\n/-- lock order: mutex classes (g: = mutex of a singleton object, s: = mutex of the object itself) -/\n")
	fmt.Fprintf(&b, "def lockRefNames : List String := %s\n", strList(r.LockRefs))
	b.WriteString("/-- (held, acquired) for every site that takes a mutex while holding another one; acquisitions on or under a fresh\n    (unpublished) object's mutex are listed separately: they cannot be contended -/\n")
	edges := func(fresh bool) string {
		var xs []string
		seen := map[string]bool{}
		for _, e := range r.LockOrder {
			if e.Fresh != fresh {
				continue
			}
			k := fmt.Sprintf("(%d, %d)", idx(r.LockRefs, e.From), idx(r.LockRefs, e.To))
			if !seen[k] {
				seen[k] = true
				xs = append(xs, k)
			}
		}
		return "[" + strings.Join(xs, ", ") + "]"
	}
	fmt.Fprintf(&b, "def lockOrderEdges : List (Nat × Nat) := %s\n", edges(false))
	fmt.Fprintf(&b, "def lockOrderFreshEdges : List (Nat × Nat) := %s\n", edges(true))
	b.WriteString("/-- the translator's topological rank of each mutex class (all 0 when it found a cycle) -/\n")
	fmt.Fprintf(&b, "def lockRank : List Nat := %s\n", natList(r.LockRank))
	var sites []string
	for _, e := range r.LockOrder {
		sites = append(sites, fmt.Sprintf("%s -> %s at %s fresh=%v", e.From, e.To, e.Site, e.Fresh))
	}
	fmt.Fprintf(&b, "def lockOrderSites : List String := %s\n", strList(sites))
	b.WriteString("\nend OllamaVerif.Generated.C15\n")
	return b.String()
}
