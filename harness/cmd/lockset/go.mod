module verif/lockset

go 1.23
