// lockset extracts, from the CURRENT source of package server in an ollama tree, one access
// fact per syntactic read/write of the shared state named by property C15, together with the
// mutexes syntactically held at that point, and writes them as a Lean table
// (Generated/C15_Accesses.lean) and as JSON.  Standard library only (go/ast + go/types with a
// stub importer: only the package's own declarations need to resolve).
//
// What it sees: x.mu.Lock()/Unlock()/RLock()/RUnlock(), defer x.mu.Unlock(), branch-wise
// intersection of locksets, "caller holds" propagated through the package's call graph
// (intersection over all call sites, receiver/argument renaming), lock hand-off into a
// goroutine that unlocks (Scheduler.load), thread classes from go/AfterFunc/errgroup.Go
// statements, fresh (unpublished) objects, spawn order (pre/post tags).
// What it cannot see is listed in the "notes" of the JSON output and in notes/C15.md.
package main

import (
	"encoding/json"
	"flag"
	"fmt"
	"go/ast"
	"go/build"
	"go/importer"
	"go/parser"
	"go/token"
	"go/types"
	"os"
	"path/filepath"
	"strings"
)

// ---- configuration: the state named by the property's anchors -------------------------------

var trackedTypes = map[string]bool{"Scheduler": true, "runnerRef": true, "Server": true, "blobDownload": true, "blobUpload": true,
	"blobDownloadPart": true, "blobUploadPart": true}
var trackedGlobals = map[string]bool{"intermediateBlobs": true, "blobDownloadManager": true, "blobUploadManager": true}

// objects of these types exist once per server instance: their mutexes are "global"
var singletonTypes = map[string]bool{"Scheduler": true, "Server": true}

// objects of these types are prepared and handed to their Run goroutine by exactly one
// invocation (the sync.Map LoadOrStore winner): spawn order applies to their fields
var forkOwners = map[string]bool{"blobDownload": true, "blobUpload": true}

// element structs of an owner's slice: a goroutine spawned per iteration of `range x.Parts` works
// on its own element (one thread per object for these classes)
var elementOwners = map[string]bool{"blobDownloadPart": true, "blobUploadPart": true}

var hbIDs = map[string]int{"holder": 1, "doneclose": 2}

// object life cycle ("stale pointer" rule): runners are found in the registry map
// Scheduler.loaded, whose insert/delete happen under registryLock; teardownFuncs clear (nil)
// pointer fields of the object while holding registryLock and the object's own objectLock
const registryClass = "Scheduler.loaded"
const registryLock = "Scheduler.loadedMu"
const objectLock = "runnerRef.refMu"

var teardownFuncs = map[string]bool{"runnerRef.unload": true}

// ---- data ----------------------------------------------------------------------------------

type lockKey string // "Type.field@base" (base "" for singleton owners), "pre:N@", "post:N@"

type state struct{ added, removed map[lockKey]bool }

func newState() state { return state{map[lockKey]bool{}, map[lockKey]bool{}} }
func (s state) clone() state {
	n := newState()
	for k := range s.added {
		n.added[k] = true
	}
	for k := range s.removed {
		n.removed[k] = true
	}
	return n
}

type access struct {
	u      *unit
	line   int
	cls    string
	owner  string
	kind   string
	base   string
	st     state
	init   bool
	atomic bool
	origin int
	hb     []string
	use    bool // a read whose value is used (anything but an operand of ==/!= nil)
	// the value was copied into a local (`l := x.f`): lock states at the uses of that local
	snap     bool
	snapUses []state
	// for the run-time cross-check of the lockset claims (-instrument): start of the statement (direct
	// element of a block / case body) that contains the access, and whether the base variable is
	// declared before that statement
	stmtPos token.Pos
	baseOK  bool
}

// acq: one acquisition of a mutex, with the lock state just before it and the names of the local
// variables that hold a fresh (unpublished) object at that point
type acq struct {
	key   lockKey
	st    state
	line  int
	fresh map[string]bool
}

type edge struct {
	from, to *unit
	st       state
	binds    map[string]string
	mode     string // call inline deferred spawn callback external
	sp       *spawn
	handoff  []lockKey
	inLoop   bool
	// parameters of `to` that this call binds to a fresh (unpublished) object
	freshParams map[string]bool
}

type spawn struct {
	id     int
	node   ast.Node
	kill   ast.Node
	inLoop bool
	kind   string // go egroup timer serve
	parent *unit
	class  string
	// `go x.M(...)` with x of a forkOwners type: one such thread per object
	ownerRecv bool
	// spawned once per iteration of a range over a slice of elementOwners structs
	perElement bool
}

type unit struct {
	name     string
	body     *ast.BlockStmt
	recvName string
	params   []string
	isLit    bool
	accesses []*access
	acqs     []*acq
	in       []*edge
	spawns   []*spawn
	valueRef bool
	fn       *types.Func
	exits    []state // lock state at every return / fall-off end (deferred unlocks applied)
	ftype    *ast.FuncType
}

// paramCall: a call of a func-typed PARAMETER inside a declared function (`f()` in
// `func (s *Scheduler) withLoaded(f func())`); litArg: a closure passed for that parameter.
// solve() joins them: the closure runs at the callee's call site, under the callee's locks.
type paramCall struct {
	u   *unit
	idx int
	st  state
}
type litArg struct {
	callee *unit
	idx    int
	lit    *unit
	binds  map[string]string // caller expression -> callee parameter name
}

type analyzer struct {
	fset      *token.FileSet
	info      *types.Info
	pkg       *types.Package
	units     []*unit
	byFunc    map[*types.Func]*unit
	queue     []*unit
	mutexF    map[string]bool
	atomicF   map[string]bool
	syncMapG  map[string]bool
	mapCls    map[string]bool
	fieldFn   map[string]*unit // func-typed field alias: "Scheduler.loadFn" -> Scheduler.load
	spawnByNd map[ast.Node]*spawn
	spawns    []*spawn
	notes     []string
	litCount  map[string]int
	serveSp   *spawn
	aliasRHS  map[*ast.SelectorExpr]bool
	cleared   map[string]bool // classes a teardown function sets to nil (minus slice-like ones)
	// net lock effect of declared functions (lock wrappers: `func (s *Scheduler) lockLoaded()`),
	// from the previous pass over the package; keys in the callee's own names
	summ       map[*types.Func]state
	paramCalls []paramCall
	litArgs    []litArg
}

func (a *analyzer) note(pos token.Pos, f string, args ...any) {
	p := a.fset.Position(pos)
	a.notes = append(a.notes, fmt.Sprintf("%s:%d: ", filepath.Base(p.Filename), p.Line)+fmt.Sprintf(f, args...))
}

type stubImporter struct {
	m   map[string]*types.Package
	src types.Importer
}

// the few standard packages whose real signatures matter (sync.Map.LoadOrStore returns `any`,
// which the code type-asserts to *blobDownload); everything else is an empty stub
var realStd = map[string]bool{"sync": true, "sync/atomic": true, "context": true, "time": true, "errors": true}

func (s *stubImporter) Import(path string) (*types.Package, error) {
	if p, ok := s.m[path]; ok {
		return p, nil
	}
	if realStd[path] && s.src != nil {
		if p, err := s.src.Import(path); err == nil {
			s.m[path] = p
			return p, nil
		}
	}
	name := path[strings.LastIndex(path, "/")+1:]
	if name == "v2" {
		name = "rand"
	}
	p := types.NewPackage(path, name)
	p.MarkComplete()
	s.m[path] = p
	return p, nil
}

func main() {
	repo := flag.String("repo", "/repo", "ollama tree")
	leanOut := flag.String("lean", "", "write Lean table here")
	jsonOut := flag.String("json", "", "write JSON here")
	selfN := flag.Int("selftest", 0, "write N random fact tables (ops.txt/impl.txt/stats.txt) to -out and exit")
	selfSeed := flag.Uint64("seed", 1, "selftest seed")
	selfOut := flag.String("out", "", "selftest output directory")
	instOut := flag.String("instrument", "", "write copies of the source files with run-time checks of the lockset claims here")
	flag.Parse()
	if *selfN > 0 {
		if err := selftest(*selfN, *selfSeed, *selfOut); err != nil {
			fatal(err)
		}
		return
	}

	dir := filepath.Join(*repo, "server")
	fset := token.NewFileSet()
	ctxt := build.Default
	ctxt.GOOS, ctxt.GOARCH, ctxt.CgoEnabled = "linux", "amd64", true
	ents, err := os.ReadDir(dir)
	if err != nil {
		fatal(err)
	}
	var files []*ast.File
	for _, e := range ents {
		n := e.Name()
		if !strings.HasSuffix(n, ".go") || strings.HasSuffix(n, "_test.go") || strings.HasPrefix(n, "zz_verif") {
			continue
		}
		if ok, _ := ctxt.MatchFile(dir, n); !ok {
			continue
		}
		f, err := parser.ParseFile(fset, filepath.Join(dir, n), nil, parser.SkipObjectResolution)
		if err != nil {
			fatal(err)
		}
		files = append(files, f)
	}
	info := &types.Info{
		Types: map[ast.Expr]types.TypeAndValue{}, Defs: map[*ast.Ident]types.Object{},
		Uses: map[*ast.Ident]types.Object{}, Selections: map[*ast.SelectorExpr]*types.Selection{},
	}
	build.Default.CgoEnabled = false
	conf := types.Config{Importer: &stubImporter{m: map[string]*types.Package{}, src: importer.ForCompiler(fset, "source", nil)}, Error: func(error) {}}
	pkg, _ := conf.Check("github.com/ollama/ollama/server", fset, files, info)

	var a *analyzer
	var summ map[*types.Func]state
	for pass := 0; pass < 5; pass++ {
		a = &analyzer{fset: fset, info: info, pkg: pkg, byFunc: map[*types.Func]*unit{}, mutexF: map[string]bool{},
			atomicF: map[string]bool{}, syncMapG: map[string]bool{}, mapCls: map[string]bool{}, fieldFn: map[string]*unit{},
			spawnByNd: map[ast.Node]*spawn{}, litCount: map[string]int{}, summ: summ}
		a.scanDecls(files)
		a.scanAliases(files)
		a.scanCleared(files)
		for len(a.queue) > 0 {
			u := a.queue[0]
			a.queue = a.queue[1:]
			a.walkUnit(u)
		}
		ns := a.summaries()
		if sameSumm(ns, summ) {
			break
		}
		summ = ns
	}
	res := a.solve()
	if *jsonOut != "" {
		b, _ := json.MarshalIndent(res, "", " ")
		if err := os.WriteFile(*jsonOut, append(b, '\n'), 0o644); err != nil {
			fatal(err)
		}
	}
	if *leanOut != "" {
		if err := os.WriteFile(*leanOut, []byte(res.lean()), 0o644); err != nil {
			fatal(err)
		}
	}
	if *instOut != "" {
		if err := a.instrument(*instOut, res); err != nil {
			fatal(err)
		}
	}
	if *jsonOut == "" && *leanOut == "" && *instOut == "" {
		res.summary(os.Stdout)
	}
}

func fatal(err error) { fmt.Fprintln(os.Stderr, "lockset:", err); os.Exit(2) }

// ---- declarations --------------------------------------------------------------------------

func typeExprString(e ast.Expr) string { return types.ExprString(e) }

func (a *analyzer) scanDecls(files []*ast.File) {
	for _, f := range files {
		for _, d := range f.Decls {
			switch d := d.(type) {
			case *ast.GenDecl:
				for _, sp := range d.Specs {
					switch sp := sp.(type) {
					case *ast.TypeSpec:
						st, ok := sp.Type.(*ast.StructType)
						if !ok || !trackedTypes[sp.Name.Name] {
							continue
						}
						for _, fl := range st.Fields.List {
							ts := typeExprString(fl.Type)
							for _, n := range fl.Names {
								key := sp.Name.Name + "." + n.Name
								switch {
								case ts == "sync.Mutex" || ts == "sync.RWMutex":
									a.mutexF[key] = true
								case strings.HasPrefix(ts, "atomic."):
									a.atomicF[key] = true
								case strings.HasPrefix(ts, "map["):
									a.mapCls[key] = true
								}
							}
						}
					case *ast.ValueSpec:
						for _, n := range sp.Names {
							if !trackedGlobals[n.Name] {
								continue
							}
							ts := ""
							if sp.Type != nil {
								ts = typeExprString(sp.Type)
							}
							if ts == "sync.Map" {
								a.syncMapG[n.Name] = true
							} else if strings.HasPrefix(ts, "map[") {
								a.mapCls["global."+n.Name] = true
							}
						}
					}
				}
			case *ast.FuncDecl:
				if d.Body == nil {
					continue
				}
				u := &unit{name: d.Name.Name, body: d.Body}
				if d.Recv != nil && len(d.Recv.List) == 1 {
					t := d.Recv.List[0].Type
					if s, ok := t.(*ast.StarExpr); ok {
						t = s.X
					}
					u.name = typeExprString(t) + "." + d.Name.Name
					if len(d.Recv.List[0].Names) == 1 {
						u.recvName = d.Recv.List[0].Names[0].Name
					}
				}
				u.params = paramNames(d.Type)
				u.ftype = d.Type
				if fn, ok := a.info.Defs[d.Name].(*types.Func); ok {
					u.fn = fn
					a.byFunc[fn] = u
				}
				a.units = append(a.units, u)
				a.queue = append(a.queue, u)
			}
		}
	}
}

func paramNames(ft *ast.FuncType) []string {
	var out []string
	if ft.Params == nil {
		return out
	}
	for _, f := range ft.Params.List {
		if len(f.Names) == 0 {
			out = append(out, "_")
		}
		for _, n := range f.Names {
			out = append(out, n.Name)
		}
	}
	return out
}

// scanAliases finds `X.f = Y.m` (a method stored in a func-typed field of a tracked struct, e.g.
// sched.loadFn = sched.load): calls through the field are calls of the method.
func (a *analyzer) scanAliases(files []*ast.File) {
	a.aliasRHS = map[*ast.SelectorExpr]bool{}
	for _, f := range files {
		ast.Inspect(f, func(n ast.Node) bool {
			as, ok := n.(*ast.AssignStmt)
			if !ok || len(as.Lhs) != 1 || len(as.Rhs) != 1 {
				return true
			}
			l, ok1 := as.Lhs[0].(*ast.SelectorExpr)
			r, ok2 := as.Rhs[0].(*ast.SelectorExpr)
			if !ok1 || !ok2 {
				return true
			}
			ls, rs := a.info.Selections[l], a.info.Selections[r]
			if ls == nil || rs == nil || ls.Kind() != types.FieldVal || rs.Kind() != types.MethodVal {
				return true
			}
			owner := namedOf(ls.Recv())
			fn, _ := rs.Obj().(*types.Func)
			if u := a.byFunc[fn]; u != nil && trackedTypes[owner] && len(ls.Index()) == 1 {
				a.fieldFn[owner+"."+l.Sel.Name] = u
				a.aliasRHS[r] = true
			}
			return true
		})
	}
}

// scanCleared finds the fields a teardown function sets to nil.  Fields that are used as slices
// somewhere (range / len / index) are left out: reading a nil slice is harmless.
func (a *analyzer) scanCleared(files []*ast.File) {
	a.cleared = map[string]bool{}
	sliceLike := map[string]bool{}
	clsOf := func(e ast.Expr) string {
		se, ok := unparen(e).(*ast.SelectorExpr)
		if !ok {
			return ""
		}
		sel := a.info.Selections[se]
		if sel == nil || sel.Kind() != types.FieldVal || len(sel.Index()) != 1 {
			return ""
		}
		owner := namedOf(sel.Recv())
		if !trackedTypes[owner] {
			return ""
		}
		return owner + "." + se.Sel.Name
	}
	for _, f := range files {
		for _, d := range f.Decls {
			fd, ok := d.(*ast.FuncDecl)
			if !ok || fd.Body == nil {
				continue
			}
			name := fd.Name.Name
			if fd.Recv != nil && len(fd.Recv.List) == 1 {
				t := fd.Recv.List[0].Type
				if st, ok := t.(*ast.StarExpr); ok {
					t = st.X
				}
				name = typeExprString(t) + "." + name
			}
			ast.Inspect(fd.Body, func(n ast.Node) bool {
				switch n := n.(type) {
				case *ast.AssignStmt:
					if teardownFuncs[name] && len(n.Lhs) == 1 && len(n.Rhs) == 1 {
						if id, ok := n.Rhs[0].(*ast.Ident); ok && id.Name == "nil" {
							if c := clsOf(n.Lhs[0]); c != "" {
								a.cleared[c] = true
							}
						}
					}
				case *ast.RangeStmt:
					if c := clsOf(n.X); c != "" {
						sliceLike[c] = true
					}
				case *ast.IndexExpr:
					if c := clsOf(n.X); c != "" {
						sliceLike[c] = true
					}
				case *ast.CallExpr:
					if id, ok := n.Fun.(*ast.Ident); ok && id.Name == "len" && len(n.Args) == 1 {
						if c := clsOf(n.Args[0]); c != "" {
							sliceLike[c] = true
						}
					}
				}
				return true
			})
		}
	}
	for c := range sliceLike {
		delete(a.cleared, c)
	}
}

// ---- per-unit walk -------------------------------------------------------------------------

type walker struct {
	a           *analyzer
	u           *unit
	st          state
	fresh       map[types.Object]bool
	origin      map[types.Object]int
	holderVars  map[types.Object]bool
	grChans     map[types.Object]bool
	closeDone   map[string]bool
	commDone    []string
	lastMapAcc  int
	loopEntry   []state
	nilOperand  map[*ast.SelectorExpr]bool
	curNil      bool
	snap        map[types.Object]*access // local holding a copy of a cleared field -> the read that made it
	nilIdent    map[*ast.Ident]bool      // identifiers that are operands of ==/!= nil
	deferUnl    map[lockKey]bool         // mutexes a `defer ...Unlock()` releases when the function returns
	paramFresh  map[types.Object]bool    // pointer parameters not yet stored anywhere by this function (fresh if every caller passes a fresh object)
	freshAtCall map[string]bool          // names of the fresh locals at the start of the call being walked
	curStmt     ast.Stmt                 // the statement of the enclosing block's list being walked
	alias       map[types.Object]string  // local `r := runner` (pointer to a tracked struct): r is named runner
}

func (a *analyzer) prescanSpawns(u *unit) {
	var stack []ast.Node
	ast.Inspect(u.body, func(n ast.Node) bool {
		if n == nil {
			stack = stack[:len(stack)-1]
			return true
		}
		if _, ok := n.(*ast.FuncLit); ok {
			// do not descend: closures are their own units; but still push/pop symmetrical
			return false
		}
		stack = append(stack, n)
		kind := ""
		switch n := n.(type) {
		case *ast.GoStmt:
			kind = "go"
		case *ast.CallExpr:
			if se, ok := n.Fun.(*ast.SelectorExpr); ok {
				hasLit := false
				for _, x := range n.Args {
					if _, ok := x.(*ast.FuncLit); ok {
						hasLit = true
					}
				}
				switch {
				case se.Sel.Name == "Go" && hasLit:
					kind = "egroup"
				case se.Sel.Name == "AfterFunc" && hasLit:
					kind = "timer"
				case se.Sel.Name == "Serve" && u.name == "Serve":
					kind = "serve"
				}
			}
		}
		if kind != "" {
			sp := &spawn{id: len(a.spawns) + 1, node: n, kind: kind, parent: u}
			for _, s := range stack[:len(stack)-1] {
				if rs, ok := s.(*ast.RangeStmt); ok {
					if t := a.info.TypeOf(rs.X); t != nil {
						if sl, ok := t.Underlying().(*types.Slice); ok && elementOwners[namedOf(sl.Elem())] {
							sp.perElement = true
						}
					}
				}
				switch s.(type) {
				case *ast.ForStmt, *ast.RangeStmt:
					if sp.kill == nil {
						sp.kill = s
					}
					sp.inLoop = true
				}
			}
			if sp.kill == nil {
				for i := len(stack) - 1; i >= 0; i-- {
					if s, ok := stack[i].(ast.Stmt); ok {
						sp.kill = s
						break
					}
				}
			}
			a.spawns = append(a.spawns, sp)
			a.spawnByNd[n] = sp
			u.spawns = append(u.spawns, sp)
			if kind == "serve" {
				a.serveSp = sp
				sp.class = "api"
			}
		}
		return true
	})
}

func (a *analyzer) walkUnit(u *unit) {
	a.prescanSpawns(u)
	w := &walker{a: a, u: u, st: newState(), fresh: map[types.Object]bool{}, origin: map[types.Object]int{},
		holderVars: map[types.Object]bool{}, grChans: map[types.Object]bool{}, closeDone: map[string]bool{}, lastMapAcc: -1,
		nilOperand: map[*ast.SelectorExpr]bool{}, deferUnl: map[lockKey]bool{}, alias: map[types.Object]string{},
		snap: map[types.Object]*access{}, nilIdent: map[*ast.Ident]bool{}, paramFresh: map[types.Object]bool{}}
	if u.fn != nil {
		if sig, ok := u.fn.Type().(*types.Signature); ok {
			for i := 0; i < sig.Params().Len(); i++ {
				v := sig.Params().At(i)
				if _, ptr := v.Type().(*types.Pointer); ptr && trackedTypes[namedOf(v.Type())] {
					w.paramFresh[v] = true
				}
			}
		}
	}
	for _, sp := range u.spawns {
		w.st.added[lockKey(fmt.Sprintf("pre:%d@", sp.id))] = true
	}
	// defer close(X.done) anywhere at the top level of the body
	for _, s := range u.body.List {
		if d, ok := s.(*ast.DeferStmt); ok {
			if id, ok := d.Call.Fun.(*ast.Ident); ok && id.Name == "close" && len(d.Call.Args) == 1 {
				if se, ok := d.Call.Args[0].(*ast.SelectorExpr); ok && se.Sel.Name == "done" {
					w.closeDone[types.ExprString(se.X)] = true
				}
			}
		}
	}
	if !w.stmts(u.body.List) {
		w.exit()
	}
}

// exit records the lock state at a return (or at the end of the body), deferred unlocks applied
func (w *walker) exit() {
	st := w.st.clone()
	for k := range w.deferUnl {
		if st.added[k] {
			delete(st.added, k)
		} else {
			st.removed[k] = true
		}
	}
	w.u.exits = append(w.u.exits, st)
}

func isLockKey(k lockKey) bool {
	c, _ := keyBase(k)
	return !strings.Contains(c, ":")
}

// summaries: net lock effect of every declared function that returns holding a mutex it took,
// or having released one it did not take (lock wrappers)
func (a *analyzer) summaries() map[*types.Func]state {
	out := map[*types.Func]state{}
	for _, u := range a.units {
		if u.isLit || u.fn == nil || len(u.exits) == 0 {
			continue
		}
		m := merge(u.exits)
		sm := newState()
		for k := range m.added {
			if isLockKey(k) {
				sm.added[k] = true
			}
		}
		for k := range m.removed {
			if isLockKey(k) {
				sm.removed[k] = true
			}
		}
		if len(sm.added)+len(sm.removed) > 0 {
			out[u.fn] = sm
		}
	}
	return out
}

func sameSumm(x, y map[*types.Func]state) bool {
	if len(x) != len(y) {
		return false
	}
	for f, sx := range x {
		sy, ok := y[f]
		if !ok || !sameSet(sx.added, sy.added) || !sameSet(sx.removed, sy.removed) {
			return false
		}
	}
	return true
}

func (w *walker) kill(n ast.Node) {
	for _, sp := range w.u.spawns {
		if sp.kill == n {
			delete(w.st.added, lockKey(fmt.Sprintf("pre:%d@", sp.id)))
		}
	}
}

func merge(states []state) state {
	out := states[0].clone()
	for _, s := range states[1:] {
		for k := range out.added {
			if !s.added[k] {
				delete(out.added, k)
			}
		}
		for k := range s.removed {
			out.removed[k] = true
		}
	}
	return out
}

// stmts walks a statement list; returns true if control cannot fall out of its end
func (w *walker) stmts(list []ast.Stmt) bool {
	saved := w.curStmt
	defer func() { w.curStmt = saved }()
	for _, s := range list {
		w.curStmt = s
		if w.stmt(s) {
			return true
		}
	}
	return false
}

func (w *walker) branch(f func() bool) (state, bool) {
	saved := w.st
	w.st = saved.clone()
	term := f()
	out := w.st
	w.st = saved
	return out, term
}

func (w *walker) join(pre state, outs []state, includePre bool) bool {
	if includePre {
		outs = append(outs, pre)
	}
	if len(outs) == 0 {
		w.st = pre
		return true
	}
	w.st = merge(outs)
	return false
}

func (w *walker) stmt(s ast.Stmt) bool {
	if s == nil {
		return false
	}
	w.kill(s)
	switch s := s.(type) {
	case *ast.BlockStmt:
		return w.stmts(s.List)
	case *ast.ExprStmt:
		w.expr(s.X)
		if c, ok := s.X.(*ast.CallExpr); ok {
			if id, ok := c.Fun.(*ast.Ident); ok && id.Name == "panic" {
				return true
			}
		}
	case *ast.AssignStmt:
		w.assign(s)
	case *ast.IncDecStmt:
		w.lhs(s.X)
	case *ast.DeclStmt:
		if gd, ok := s.Decl.(*ast.GenDecl); ok {
			for _, sp := range gd.Specs {
				if vs, ok := sp.(*ast.ValueSpec); ok {
					for _, v := range vs.Values {
						w.expr(v)
					}
					if vs.Type != nil && len(vs.Values) == 0 {
						if trackedTypes[typeExprString(vs.Type)] {
							for _, n := range vs.Names {
								w.fresh[w.a.info.Defs[n]] = true
							}
						}
					}
				}
			}
		}
	case *ast.IfStmt:
		w.stmt(s.Init)
		w.expr(s.Cond)
		ne, eq := w.nilChecks(s.Cond)
		pre := w.st
		var outs []state
		o, t := w.branch(func() bool {
			for _, b := range ne {
				w.st.added[lockKey("valid:@"+b)] = true
			}
			return w.stmts(s.Body.List)
		})
		if !t {
			outs = append(outs, o)
		}
		// on the else path every `x.f == nil` disjunct of the condition was false
		elsePre := pre.clone()
		for _, b := range eq {
			elsePre.added[lockKey("valid:@"+b)] = true
		}
		w.st = elsePre
		if s.Else != nil {
			o, t := w.branch(func() bool { return w.stmt(s.Else) })
			if !t {
				outs = append(outs, o)
			}
			return w.join(elsePre, outs, false)
		}
		return w.join(elsePre, outs, true)
	case *ast.ForStmt:
		w.stmt(s.Init)
		if s.Cond != nil {
			w.expr(s.Cond)
		}
		pre := w.st
		w.loopEntry = append(w.loopEntry, pre)
		o, t := w.branch(func() bool {
			t := w.stmts(s.Body.List)
			if !t {
				w.stmt(s.Post)
			}
			return t
		})
		w.loopEntry = w.loopEntry[:len(w.loopEntry)-1]
		var outs []state
		if !t {
			outs = append(outs, o)
		}
		w.join(pre, outs, true)
		return false
	case *ast.RangeStmt:
		w.lastMapAcc = -1
		w.rangeExpr(s.X)
		src := w.lastMapAcc
		for _, kv := range []ast.Expr{s.Key, s.Value} {
			if id, ok := kv.(*ast.Ident); ok && src >= 0 {
				if obj := w.obj(id); obj != nil {
					w.origin[obj] = src
				}
			}
		}
		pre := w.st
		w.loopEntry = append(w.loopEntry, pre)
		o, t := w.branch(func() bool {
			if src >= 0 && w.u.accesses[src].cls == registryClass {
				// the element was found in the registry: live while the registry lock stays held
				if id, ok := s.Value.(*ast.Ident); ok && id.Name != "_" {
					w.st.added[lockKey("live:@"+id.Name)] = true
				}
			}
			return w.stmts(s.Body.List)
		})
		w.loopEntry = w.loopEntry[:len(w.loopEntry)-1]
		var outs []state
		if !t {
			outs = append(outs, o)
		}
		w.join(pre, outs, true)
		return false
	case *ast.SwitchStmt:
		w.stmt(s.Init)
		if s.Tag != nil {
			w.expr(s.Tag)
		}
		return w.clauses(s.Body.List)
	case *ast.TypeSwitchStmt:
		w.stmt(s.Init)
		w.stmt(s.Assign)
		return w.clauses(s.Body.List)
	case *ast.SelectStmt:
		return w.clauses(s.Body.List)
	case *ast.ReturnStmt:
		for _, r := range s.Results {
			w.expr(r)
		}
		w.exit()
		return true
	case *ast.BranchStmt:
		if s.Tok == token.FALLTHROUGH {
			return false
		}
		if n := len(w.loopEntry); n > 0 && (s.Tok == token.CONTINUE || s.Tok == token.BREAK) {
			le := w.loopEntry[n-1]
			for k := range w.st.added {
				if !le.added[k] && !strings.HasPrefix(string(k), "pre:") {
					w.a.note(s.Pos(), "%s: %s with %s held that was not held at loop entry (not propagated)", w.u.name, s.Tok, k)
				}
			}
		}
		return true
	case *ast.GoStmt:
		w.spawnStmt(s)
	case *ast.DeferStmt:
		w.deferStmt(s)
	case *ast.LabeledStmt:
		return w.stmt(s.Stmt)
	case *ast.SendStmt:
		w.expr(s.Chan)
		w.expr(s.Value)
	case *ast.EmptyStmt:
	default:
		w.a.note(s.Pos(), "%s: unhandled statement %T", w.u.name, s)
	}
	return false
}

func (w *walker) clauses(list []ast.Stmt) bool {
	pre := w.st
	var outs []state
	hasDefault := false
	for _, c := range list {
		w.kill(c)
		switch c := c.(type) {
		case *ast.CaseClause:
			if c.List == nil {
				hasDefault = true
			}
			o, t := w.branch(func() bool {
				for _, e := range c.List {
					w.expr(e)
				}
				return w.stmts(c.Body)
			})
			if !t {
				outs = append(outs, o)
			}
		case *ast.CommClause:
			hasDefault = true // a select always takes one of its clauses
			o, t := w.branch(func() bool {
				pushed := false
				if c.Comm != nil {
					if base, ok := recvDoneBase(c.Comm); ok {
						w.commDone = append(w.commDone, base)
						pushed = true
					}
					w.stmt(c.Comm)
				}
				t := w.stmts(c.Body)
				if pushed {
					w.commDone = w.commDone[:len(w.commDone)-1]
				}
				return t
			})
			if !t {
				outs = append(outs, o)
			}
		}
	}
	return w.join(pre, outs, !hasDefault)
}

func isNilIdent(e ast.Expr) bool {
	id, ok := unparen(e).(*ast.Ident)
	return ok && id.Name == "nil"
}

// nilChecks: bases x whose cleared field is known non-nil in the then-branch (`x.f != nil`,
// conjuncts) and on the else path (`x.f == nil`, disjuncts)
func (w *walker) nilChecks(cond ast.Expr) (ne, eq []string) {
	base := func(e ast.Expr) string {
		se, ok := unparen(e).(*ast.SelectorExpr)
		if !ok {
			return ""
		}
		sel := w.a.info.Selections[se]
		if sel == nil || sel.Kind() != types.FieldVal || len(sel.Index()) != 1 {
			return ""
		}
		if !w.a.cleared[namedOf(sel.Recv())+"."+se.Sel.Name] {
			return ""
		}
		return w.canon(se.X)
	}
	fieldBase := base
	base = func(e ast.Expr) string {
		// a local copy of a cleared field, made under the object's lock which is still held
		if id, ok := unparen(e).(*ast.Ident); ok {
			if ac := w.snap[w.obj(id)]; ac != nil && w.st.added[lockKey("snap:"+id.Name+"@"+ac.base)] {
				return ac.base
			}
			return ""
		}
		return fieldBase(e)
	}
	var walkNe, walkEq func(e ast.Expr)
	walkNe = func(e ast.Expr) {
		be, ok := unparen(e).(*ast.BinaryExpr)
		if !ok {
			return
		}
		switch be.Op {
		case token.LAND:
			walkNe(be.X)
			walkNe(be.Y)
		case token.NEQ:
			if isNilIdent(be.Y) {
				if b := base(be.X); b != "" {
					ne = append(ne, b)
				}
			}
		}
	}
	walkEq = func(e ast.Expr) {
		be, ok := unparen(e).(*ast.BinaryExpr)
		if !ok {
			return
		}
		switch be.Op {
		case token.LOR:
			walkEq(be.X)
			walkEq(be.Y)
		case token.EQL:
			if isNilIdent(be.Y) {
				if b := base(be.X); b != "" {
					eq = append(eq, b)
				}
			}
		}
	}
	walkNe(cond)
	walkEq(cond)
	return
}

// recvDoneBase recognises `case <-X.done:`
func recvDoneBase(s ast.Stmt) (string, bool) {
	es, ok := s.(*ast.ExprStmt)
	if !ok {
		return "", false
	}
	ue, ok := es.X.(*ast.UnaryExpr)
	if !ok || ue.Op != token.ARROW {
		return "", false
	}
	se, ok := ue.X.(*ast.SelectorExpr)
	if !ok || se.Sel.Name != "done" {
		return "", false
	}
	return types.ExprString(se.X), true
}

func (w *walker) obj(id *ast.Ident) types.Object {
	if o := w.a.info.Defs[id]; o != nil {
		return o
	}
	return w.a.info.Uses[id]
}

// canon prints an expression with a local alias at its root replaced by the variable it stands
// for (`r := runner` ... `r.refMu.Lock()` names the mutex of `runner`)
func (w *walker) canon(e ast.Expr) string {
	s := types.ExprString(e)
	x := unparen(e)
	for {
		switch y := x.(type) {
		case *ast.SelectorExpr:
			x = unparen(y.X)
			continue
		case *ast.StarExpr:
			x = unparen(y.X)
			continue
		}
		break
	}
	if id, ok := x.(*ast.Ident); ok && w.alias != nil {
		if c, ok := w.alias[w.obj(id)]; ok && (s == id.Name || strings.HasPrefix(s, id.Name+".")) {
			return c + s[len(id.Name):]
		}
	}
	return s
}

// clearedField: x.f with f a direct field that a teardown function sets to nil
func (w *walker) clearedField(se *ast.SelectorExpr) bool {
	sel := w.a.info.Selections[se]
	if sel == nil || sel.Kind() != types.FieldVal || len(sel.Index()) != 1 {
		return false
	}
	return w.a.cleared[namedOf(sel.Recv())+"."+se.Sel.Name]
}

// snapUse: a local holding a copy of a cleared field is used here (not just compared with nil)
func (w *walker) snapUse(id *ast.Ident) {
	if w.nilIdent[id] {
		return
	}
	if ac := w.snap[w.obj(id)]; ac != nil {
		ac.snapUses = append(ac.snapUses, w.st.clone())
	}
}

func (w *walker) canonName(o types.Object) string {
	if c, ok := w.alias[o]; ok {
		return c
	}
	return o.Name()
}

func unparen(e ast.Expr) ast.Expr {
	for {
		p, ok := e.(*ast.ParenExpr)
		if !ok {
			return e
		}
		e = p.X
	}
}

func (w *walker) isFreshExpr(e ast.Expr) bool {
	e = unparen(e)
	if u, ok := e.(*ast.UnaryExpr); ok && u.Op == token.AND {
		e = unparen(u.X)
	}
	switch e := e.(type) {
	case *ast.CompositeLit:
		return e.Type != nil && trackedTypes[typeExprString(e.Type)]
	case *ast.CallExpr:
		if id, ok := e.Fun.(*ast.Ident); ok && id.Name == "new" && len(e.Args) == 1 {
			return trackedTypes[typeExprString(e.Args[0])]
		}
	}
	return false
}

func (w *walker) assign(s *ast.AssignStmt) {
	rhsFor := func(i int) ast.Expr {
		if len(s.Rhs) == len(s.Lhs) {
			return s.Rhs[i]
		}
		if i == 0 {
			return s.Rhs[0]
		}
		return nil
	}
	type pend struct {
		obj                   types.Object
		fresh, holder, grChan bool
		origin                int
		alias                 string
		aliasOf               types.Object
		snap                  *access
	}
	var pends []pend
	for i := range s.Rhs {
		w.lastMapAcc = -1
		// `l := x.f` with f a field the teardown clears: the read is a copy; what matters is where l is used
		var snapSel *ast.SelectorExpr
		if len(s.Rhs) == len(s.Lhs) {
			if id, ok := s.Lhs[i].(*ast.Ident); ok && id.Name != "_" && !w.a.trackedGlobal(w.obj(id)) {
				if se, ok := unparen(s.Rhs[i]).(*ast.SelectorExpr); ok && w.clearedField(se) && !w.nilOperand[se] {
					snapSel = se
					w.nilOperand[se] = true
				}
			}
		}
		before := len(w.u.accesses)
		w.expr(s.Rhs[i])
		var snapAcc *access
		if snapSel != nil {
			delete(w.nilOperand, snapSel)
			for _, ac := range w.u.accesses[before:] {
				if w.a.cleared[ac.cls] && !ac.use {
					ac.snap = true
					snapAcc = ac
				}
			}
		}
		if len(s.Rhs) == len(s.Lhs) || i == 0 {
			if id, ok := s.Lhs[i].(*ast.Ident); ok && id.Name != "_" {
				p := pend{obj: w.obj(id), origin: -1, snap: snapAcc}
				r := unparen(rhsFor(i))
				p.fresh = w.isFreshExpr(r)
				if rid, ok := r.(*ast.Ident); ok && s.Tok == token.DEFINE {
					if ro := w.obj(rid); ro != nil && ro != p.obj {
						if _, isVar := ro.(*types.Var); isVar && trackedTypes[namedOf(ro.Type())] {
							if _, ptr := ro.Type().(*types.Pointer); ptr {
								p.alias, p.aliasOf = w.canonName(ro), ro
							}
						}
					}
				}
				if ix, ok := r.(*ast.IndexExpr); ok && w.lastMapAcc >= 0 {
					_ = ix
					p.origin = w.lastMapAcc
				}
				if c, ok := r.(*ast.CallExpr); ok {
					if se, ok := c.Fun.(*ast.SelectorExpr); ok && se.Sel.Name == "GetRunner" {
						p.grChan = true
					}
				}
				if ue, ok := r.(*ast.UnaryExpr); ok && ue.Op == token.ARROW {
					switch x := unparen(ue.X).(type) {
					case *ast.Ident:
						p.holder = w.grChans[w.obj(x)]
					case *ast.SelectorExpr:
						p.holder = x.Sel.Name == "successCh"
					}
				}
				pends = append(pends, p)
			}
		}
	}
	for _, l := range s.Lhs {
		w.lhs(l)
	}
	for _, p := range pends {
		if p.obj == nil {
			continue
		}
		delete(w.fresh, p.obj)
		delete(w.origin, p.obj)
		delete(w.holderVars, p.obj)
		delete(w.alias, p.obj)
		if old := w.snap[p.obj]; old != nil {
			delete(w.snap, p.obj)
			for k := range w.st.added {
				if c, _ := keyBase(k); c == "snap:"+p.obj.Name() {
					delete(w.st.added, k)
				}
			}
		}
		if p.snap != nil {
			w.snap[p.obj] = p.snap
			w.st.added[lockKey("snap:"+p.obj.Name()+"@"+p.snap.base)] = true
		}
		if p.alias != "" {
			// the alias inherits what is known about the variable it copies
			w.alias[p.obj] = p.alias
			if w.fresh[p.aliasOf] {
				p.fresh = true
			}
			if o, ok := w.origin[p.aliasOf]; ok && p.origin < 0 {
				w.origin[p.obj] = o
			}
			if w.holderVars[p.aliasOf] {
				p.holder = true
			}
		}
		if p.fresh {
			w.fresh[p.obj] = true
		}
		if p.origin >= 0 {
			w.origin[p.obj] = p.origin
			if w.u.accesses[p.origin].cls == registryClass {
				w.st.added[lockKey("live:@"+w.canonName(p.obj))] = true
			}
		}
		if p.holder {
			w.holderVars[p.obj] = true
		}
		if p.grChan {
			w.grChans[p.obj] = true
		}
	}
}

func (w *walker) lhs(e ast.Expr) {
	switch e := unparen(e).(type) {
	case *ast.Ident:
		if e.Name == "_" {
			return
		}
		if w.a.trackedGlobal(w.obj(e)) {
			w.record(e.Pos(), "global."+e.Name, "", "write", "", nil, false, false)
			return
		}
		// re-binding a variable invalidates locks named through it, and aliases of it
		if o := w.obj(e); o != nil {
			for ao, c := range w.alias {
				if c == e.Name || strings.HasPrefix(c, e.Name+".") {
					delete(w.alias, ao)
				}
			}
		}
		for k := range w.st.added {
			base := string(k)[strings.Index(string(k), "@")+1:]
			if base == e.Name || strings.HasPrefix(base, e.Name+".") {
				delete(w.st.added, k)
				w.a.note(e.Pos(), "%s: %s reassigned while %s held; lock dropped from the lockset", w.u.name, e.Name, k)
			}
		}
	case *ast.SelectorExpr:
		w.selector(e, "write")
	case *ast.IndexExpr:
		w.expr(e.Index)
		switch x := unparen(e.X).(type) {
		case *ast.SelectorExpr:
			w.selector(x, "elemwrite")
		case *ast.Ident:
			if w.a.trackedGlobal(w.obj(x)) {
				k := "write"
				if w.a.mapCls["global."+x.Name] {
					k = "mapInsert"
				}
				w.record(x.Pos(), "global."+x.Name, "", k, "", nil, false, false)
			}
		default:
			w.expr(e.X)
		}
	case *ast.StarExpr:
		w.expr(e.X)
		if t := w.a.info.TypeOf(e.X); t != nil {
			if n := namedOf(t); n != "" && trackedTypes[n] {
				w.a.note(e.Pos(), "%s: whole-struct assignment through *%s not decomposed into field writes", w.u.name, n)
			}
		}
	default:
		w.expr(e)
	}
}

func namedOf(t types.Type) string {
	if p, ok := t.(*types.Pointer); ok {
		t = p.Elem()
	}
	if n, ok := t.(*types.Named); ok {
		return n.Obj().Name()
	}
	return ""
}

func (a *analyzer) trackedGlobal(o types.Object) bool {
	v, ok := o.(*types.Var)
	return ok && v.Pkg() == a.pkg && v.Parent() == a.pkg.Scope() && trackedGlobals[v.Name()]
}

func (w *walker) rangeExpr(e ast.Expr) {
	switch x := unparen(e).(type) {
	case *ast.SelectorExpr:
		w.selector(x, "range")
	case *ast.Ident:
		if w.a.trackedGlobal(w.obj(x)) && w.a.mapCls["global."+x.Name] {
			w.record(x.Pos(), "global."+x.Name, "", "mapIter", "", nil, false, false)
			return
		}
		w.expr(e)
	default:
		w.expr(e)
	}
}

// selector handles X.f; mode: read write elemwrite range delete
func (w *walker) selector(e *ast.SelectorExpr, mode string) {
	sel := w.a.info.Selections[e]
	if sel == nil {
		if id, ok := e.X.(*ast.Ident); ok {
			if _, isPkg := w.a.info.Uses[id].(*types.PkgName); isPkg {
				return
			}
		}
		if t := w.a.info.TypeOf(e.X); t != nil {
			if n := namedOf(t); n != "" && trackedTypes[n] {
				w.a.note(e.Pos(), "%s: unresolved selector %s on %s (promoted through an external type?)", w.u.name, e.Sel.Name, n)
			}
		}
		w.expr(e.X)
		return
	}
	if sel.Kind() != types.FieldVal {
		// method value / method expression used as a value
		if fn, ok := sel.Obj().(*types.Func); ok && !w.a.aliasRHS[e] {
			if u := w.a.byFunc[fn]; u != nil {
				u.valueRef = true
			}
		}
		if !w.a.aliasRHS[e] {
			w.expr(e.X)
		}
		return
	}
	t := sel.Recv()
	idx := sel.Index()
	for i, ix := range idx {
		owner := namedOf(t)
		if p, ok := t.(*types.Pointer); ok {
			t = p.Elem()
		}
		st, ok := t.Underlying().(*types.Struct)
		if !ok {
			break
		}
		f := st.Field(ix)
		if trackedTypes[owner] {
			cls := owner + "." + f.Name()
			last := i == len(idx)-1
			kind := "read"
			isMap := w.a.mapCls[cls]
			switch {
			case !last:
				if _, ptr := f.Type().(*types.Pointer); !ptr && (mode == "write" || mode == "elemwrite") {
					kind = "write"
				}
			case mode == "write":
				kind = "write"
			case mode == "elemwrite":
				kind = "write"
				if isMap {
					kind = "mapInsert"
				}
			case mode == "delete":
				kind = "mapDelete"
			case mode == "range" && isMap:
				kind = "mapIter"
			case isMap:
				kind = "mapRead"
			}
			if w.a.mutexF[cls] {
				break // the mutex itself
			}
			var baseObj types.Object
			if id, ok := unparen(e.X).(*ast.Ident); ok {
				baseObj = w.obj(id)
			}
			w.curNil = w.nilOperand[e]
			w.record(e.Pos(), cls, owner, kind, w.canon(e.X), baseObj, false, w.a.atomicF[cls] && mode == "atomic")
			w.curNil = false
			break
		}
		t = f.Type()
	}
	// the base: an identifier used as a selector base does not escape
	if id, ok := unparen(e.X).(*ast.Ident); ok {
		w.snapUse(id)
		return
	}
	w.expr(e.X)
}

func (w *walker) record(pos token.Pos, cls, owner, kind, base string, baseObj types.Object, init, atomic bool) {
	ac := &access{u: w.u, line: w.a.fset.Position(pos).Line, cls: cls, owner: owner, kind: kind, base: base,
		st: w.st.clone(), init: init, atomic: atomic, origin: -1, use: !w.curNil}
	if w.curStmt != nil {
		ac.stmtPos = w.curStmt.Pos()
		ac.baseOK = baseObj != nil && baseObj.Pos() < ac.stmtPos
	}
	if baseObj != nil {
		if w.fresh[baseObj] {
			ac.init = true
		}
		if o, ok := w.origin[baseObj]; ok {
			ac.origin = o
		}
		if w.holderVars[baseObj] {
			ac.hb = append(ac.hb, "holder")
		}
	}
	if w.u.name == "runnerRef.unload" {
		ac.hb = append(ac.hb, "holder")
	}
	if owner != "" {
		for _, b := range w.commDone {
			if b == base {
				ac.hb = append(ac.hb, "doneclose")
			}
		}
		if kind == "write" && w.closeDone[base] {
			ac.hb = append(ac.hb, "doneclose")
		}
	}
	w.u.accesses = append(w.u.accesses, ac)
	if kind == "mapRead" || kind == "mapIter" {
		w.lastMapAcc = len(w.u.accesses) - 1
	}
}

func (w *walker) expr(e ast.Expr) {
	switch e := e.(type) {
	case nil:
	case *ast.Ident:
		o := w.obj(e)
		if o == nil {
			return
		}
		if w.fresh[o] {
			delete(w.fresh, o) // escapes
		}
		delete(w.paramFresh, o)
		w.snapUse(e)
		if w.a.trackedGlobal(o) {
			k := "read"
			if w.a.mapCls["global."+e.Name] {
				k = "mapRead"
			}
			w.record(e.Pos(), "global."+e.Name, "", k, "", nil, false, false)
		}
	case *ast.ParenExpr:
		w.expr(e.X)
	case *ast.SelectorExpr:
		w.selector(e, "read")
	case *ast.CallExpr:
		w.call(e, "call")
	case *ast.FuncLit:
		w.closure(e, "callback", nil)
	case *ast.CompositeLit:
		tn := ""
		if e.Type != nil {
			tn = typeExprString(e.Type)
		}
		for _, el := range e.Elts {
			if kv, ok := el.(*ast.KeyValueExpr); ok {
				if id, ok := kv.Key.(*ast.Ident); ok && trackedTypes[tn] {
					cls := tn + "." + id.Name
					if !w.a.mutexF[cls] {
						w.record(kv.Pos(), cls, tn, "write", "<new>", nil, true, false)
					}
				} else if !trackedTypes[tn] {
					w.expr(kv.Key)
				}
				w.expr(kv.Value)
			} else {
				w.expr(el)
			}
		}
	case *ast.UnaryExpr:
		if e.Op == token.AND {
			if se, ok := unparen(e.X).(*ast.SelectorExpr); ok {
				before := len(w.u.accesses)
				w.selector(se, "read")
				if len(w.u.accesses) > before {
					w.a.note(e.Pos(), "%s: address of %s taken; accesses through the pointer are not tracked", w.u.name, w.u.accesses[before].cls)
				}
				return
			}
		}
		w.expr(e.X)
	case *ast.BinaryExpr:
		if e.Op == token.EQL || e.Op == token.NEQ {
			if se, ok := unparen(e.X).(*ast.SelectorExpr); ok && isNilIdent(e.Y) {
				w.nilOperand[se] = true
			}
			if se, ok := unparen(e.Y).(*ast.SelectorExpr); ok && isNilIdent(e.X) {
				w.nilOperand[se] = true
			}
			if id, ok := unparen(e.X).(*ast.Ident); ok && isNilIdent(e.Y) {
				w.nilIdent[id] = true
			}
			if id, ok := unparen(e.Y).(*ast.Ident); ok && isNilIdent(e.X) {
				w.nilIdent[id] = true
			}
		}
		w.expr(e.X)
		w.expr(e.Y)
	case *ast.StarExpr:
		w.expr(e.X)
	case *ast.IndexExpr:
		w.expr(e.X)
		w.expr(e.Index)
	case *ast.SliceExpr:
		w.expr(e.X)
		w.expr(e.Low)
		w.expr(e.High)
		w.expr(e.Max)
	case *ast.TypeAssertExpr:
		w.expr(e.X)
	case *ast.KeyValueExpr:
		w.expr(e.Key)
		w.expr(e.Value)
	case *ast.BasicLit, *ast.ArrayType, *ast.MapType, *ast.ChanType, *ast.FuncType, *ast.InterfaceType, *ast.StructType, *ast.Ellipsis:
	case *ast.IndexListExpr:
		w.expr(e.X)
	default:
		w.a.note(e.Pos(), "%s: unhandled expression %T", w.u.name, e)
	}
}

func (w *walker) args(args []ast.Expr) {
	for _, x := range args {
		w.expr(x)
	}
}

func (w *walker) lockKeyOf(x ast.Expr) (lockKey, bool) {
	se, ok := unparen(x).(*ast.SelectorExpr)
	if !ok {
		return "", false
	}
	sel := w.a.info.Selections[se]
	if sel == nil || sel.Kind() != types.FieldVal || len(sel.Index()) != 1 {
		return "", false
	}
	owner := namedOf(sel.Recv())
	cls := owner + "." + se.Sel.Name
	if !w.a.mutexF[cls] {
		return "", false
	}
	base := w.canon(se.X)
	if singletonTypes[owner] {
		base = ""
	}
	// the base expression is evaluated (e.g. s.sched in s.sched.loadedMu)
	if _, isId := unparen(se.X).(*ast.Ident); !isId {
		w.expr(se.X)
	}
	return lockKey(cls + "@" + base), true
}

func (w *walker) lockOp(name string, x ast.Expr) bool {
	switch name {
	case "Lock", "RLock", "Unlock", "RUnlock":
	default:
		return false
	}
	k, ok := w.lockKeyOf(x)
	if !ok {
		return false
	}
	// a mutex held through RLock is shared: it is recorded under its own key and, in solve(), counts
	// as a common lock only for READ accesses (a write under RLock excludes nobody)
	switch name {
	case "Lock":
		w.acquire(k)
	case "RLock":
		w.acquire(sharedKey(k))
	case "Unlock":
		w.release(k)
	case "RUnlock":
		w.release(sharedKey(k))
	}
	return true
}

const sharedPrefix = "r!"

func sharedKey(k lockKey) lockKey { return lockKey(sharedPrefix + string(k)) }

func (w *walker) acquire(k lockKey) {
	// lock order: what is held when this mutex is taken (resolved in solve(), where the locks held by
	// the callers are known)
	aq := &acq{key: k, st: w.st.clone(), fresh: map[string]bool{}}
	if w.curStmt != nil {
		aq.line = w.a.fset.Position(w.curStmt.Pos()).Line
	}
	for o := range w.fresh {
		aq.fresh[o.Name()] = true
	}
	for o := range w.paramFresh {
		aq.fresh["param:"+o.Name()] = true
	}
	w.u.acqs = append(w.u.acqs, aq)
	w.st.added[k] = true
	delete(w.st.removed, k)
}

func (w *walker) release(k lockKey) {
	if w.st.added[k] {
		delete(w.st.added, k)
	} else {
		w.st.removed[k] = true
	}
	cls, base := keyBase(k)
	cls = strings.TrimPrefix(cls, sharedPrefix)
	for x := range w.st.added {
		xc, xb := keyBase(x)
		// pointers found in the registry stop being live when the registry lock goes;
		// a nil re-check stops counting when the object's lock goes
		if (cls == registryLock && xc == "live:") || (cls == objectLock && (xc == "valid:" || strings.HasPrefix(xc, "snap:")) && xb == base) {
			delete(w.st.added, x)
		}
	}
}

// calleeKey renames a lock key of a callee (its receiver / parameter names) into the caller's
// expressions; binds: caller expression -> callee name
func calleeKey(k lockKey, binds map[string]string) (lockKey, bool) {
	cls, base := keyBase(k)
	if base == "" {
		return k, true
	}
	for from, to := range binds {
		if base == to {
			return lockKey(cls + "@" + from), true
		}
		if strings.HasPrefix(base, to+".") {
			return lockKey(cls + "@" + from + base[len(to):]), true
		}
	}
	return "", false
}

// applySummary: the callee returns holding / having released these mutexes
func (w *walker) applySummary(u *unit, binds map[string]string, mode string) {
	sm, ok := w.a.summ[u.fn]
	if !ok || u.fn == nil {
		return
	}
	for k := range sm.removed {
		if ck, ok := calleeKey(k, binds); ok {
			if mode == "deferred" {
				w.deferUnl[ck] = true
			} else if mode == "call" {
				w.release(ck)
			}
		}
	}
	if mode != "call" {
		return
	}
	for k := range sm.added {
		if ck, ok := calleeKey(k, binds); ok {
			w.acquire(ck)
		}
	}
}

func (w *walker) bindsFor(callee *unit, recv ast.Expr, args []ast.Expr) map[string]string {
	b := map[string]string{}
	if recv != nil && callee.recvName != "" {
		b[w.canon(recv)] = callee.recvName
	}
	for i, x := range args {
		if i < len(callee.params) && callee.params[i] != "_" {
			switch unparen(x).(type) {
			case *ast.Ident, *ast.SelectorExpr:
				b[w.canon(x)] = callee.params[i]
			}
		}
	}
	return b
}

func (w *walker) addEdge(to *unit, mode string, binds map[string]string, sp *spawn, handoff []lockKey) {
	e := &edge{from: w.u, to: to, st: w.st.clone(), binds: binds, mode: mode, sp: sp, handoff: handoff, inLoop: len(w.loopEntry) > 0,
		freshParams: map[string]bool{}}
	for from, param := range binds {
		if w.freshAtCall[from] {
			e.freshParams[param] = true
		}
	}
	to.in = append(to.in, e)
}

// call handles a call expression; mode is "call", "deferred" or "spawn" (go statement)
func (w *walker) call(e *ast.CallExpr, mode string) {
	savedFresh := w.freshAtCall
	w.freshAtCall = map[string]bool{}
	for o := range w.fresh {
		w.freshAtCall[o.Name()] = true
	}
	defer func() { w.freshAtCall = savedFresh }()
	var sp *spawn
	if s, ok := w.a.spawnByNd[e]; ok {
		sp = s
	}
	fun := unparen(e.Fun)
	switch f := fun.(type) {
	case *ast.Ident:
		switch o := w.obj(f).(type) {
		case *types.Builtin:
			if f.Name == "delete" && len(e.Args) == 2 {
				switch m := unparen(e.Args[0]).(type) {
				case *ast.SelectorExpr:
					w.selector(m, "delete")
				case *ast.Ident:
					if w.a.trackedGlobal(w.obj(m)) {
						w.record(m.Pos(), "global."+m.Name, "", "mapDelete", "", nil, false, false)
					} else {
						w.expr(m)
					}
				default:
					w.expr(m)
				}
				w.expr(e.Args[1])
				return
			}
			w.args(e.Args)
		case *types.Func:
			if u := w.a.byFunc[o]; u != nil {
				b := w.bindsFor(u, nil, e.Args)
				w.argsTo(u, e.Args, b, mode)
				w.addEdge(u, mode, b, w.spawnOf(mode, e), nil)
				w.applySummary(u, b, mode)
			} else {
				w.args(e.Args)
			}
		case *types.TypeName:
			// conversion T(x): if T has methods (sort.Interface ...) the value is about to be
			// handed to code that calls them: treat as calls of every method from here
			w.args(e.Args)
			if n, ok := o.Type().(*types.Named); ok && o.Pkg() == w.a.pkg {
				for i := 0; i < n.NumMethods(); i++ {
					if u := w.a.byFunc[n.Method(i)]; u != nil {
						w.addEdge(u, "call", map[string]string{}, nil, nil)
					}
				}
			}
		default:
			if v, ok := o.(*types.Var); ok && mode == "call" && !w.u.isLit {
				if _, isSig := v.Type().Underlying().(*types.Signature); isSig {
					for i, pn := range w.u.params {
						if pn == f.Name && w.isParam(v) {
							w.a.paramCalls = append(w.a.paramCalls, paramCall{w.u, i, w.st.clone()})
						}
					}
				}
			}
			w.expr(f)
			w.args(e.Args)
		}
	case *ast.FuncLit:
		w.args(e.Args)
		m := "inline"
		if mode == "deferred" {
			m = "deferred"
		}
		w.closure(f, m, nil)
	case *ast.SelectorExpr:
		name := f.Sel.Name
		if mode == "call" && w.lockOp(name, f.X) {
			return
		}
		// atomic field method
		if xs, ok := unparen(f.X).(*ast.SelectorExpr); ok {
			if sel := w.a.info.Selections[xs]; sel != nil && sel.Kind() == types.FieldVal {
				if cls, owner, ok := w.fieldClass(sel); ok && w.a.atomicF[cls] {
					kind := "read"
					switch name {
					case "Add", "Store", "Swap", "CompareAndSwap", "And", "Or":
						kind = "write"
					}
					var baseObj types.Object
					if id, ok := unparen(xs.X).(*ast.Ident); ok {
						baseObj = w.obj(id)
					} else {
						w.expr(xs.X)
					}
					w.record(xs.Pos(), cls, owner, kind, w.canon(xs.X), baseObj, false, true)
					w.args(e.Args)
					return
				}
			}
		}
		// sync.Map global
		if id, ok := unparen(f.X).(*ast.Ident); ok && w.a.trackedGlobal(w.obj(id)) && w.a.syncMapG[id.Name] {
			kind := "write"
			if name == "Load" || name == "Range" {
				kind = "read"
			}
			w.record(id.Pos(), "global."+id.Name, "", kind, "", nil, false, true)
			w.args(e.Args)
			return
		}
		if sp != nil && (sp.kind == "egroup" || sp.kind == "timer") {
			w.expr(f.X)
			for _, x := range e.Args {
				if fl, ok := x.(*ast.FuncLit); ok {
					w.closure(fl, "spawn", sp)
				} else {
					w.expr(x)
				}
			}
			return
		}
		if sp != nil && sp.kind == "serve" {
			sp.class = "api"
			w.a.serveSp = sp
			// the state at the serve call is needed later for the external edges
			w.u.accesses = append(w.u.accesses, &access{u: w.u, line: -1, cls: "<serve>", st: w.st.clone(), origin: -1})
		}
		sel := w.a.info.Selections[f]
		if sel != nil && sel.Kind() == types.MethodVal {
			if fn, ok := sel.Obj().(*types.Func); ok {
				if u := w.a.byFunc[fn]; u != nil {
					w.expr(f.X)
					b := w.bindsFor(u, f.X, e.Args)
					w.argsTo(u, e.Args, b, mode)
					w.addEdge(u, mode, b, w.spawnOf(mode, e), nil)
					w.applySummary(u, b, mode)
					return
				}
			}
			w.expr(f.X)
			w.args(e.Args)
			return
		}
		if sel != nil && sel.Kind() == types.FieldVal {
			if cls, _, ok := w.fieldClass(sel); ok {
				if u := w.a.fieldFn[cls]; u != nil {
					w.selector(f, "read")
					w.args(e.Args)
					w.addEdge(u, mode, w.bindsFor(u, nil, e.Args), w.spawnOf(mode, e), nil)
					return
				}
			}
		}
		w.selector(f, "read")
		w.argsExt(e.Args)
	default:
		w.expr(fun)
		w.args(e.Args)
	}
}

// argsTo: arguments of a call of a function declared in the package.  A closure passed for a
// func-typed parameter runs where the callee calls that parameter (solve() adds the edge); if the
// callee never calls it directly it stays a callback on a thread of its own.
func (w *walker) argsTo(callee *unit, args []ast.Expr, binds map[string]string, mode string) {
	for i, x := range args {
		if fl, ok := unparen(x).(*ast.FuncLit); ok && mode == "call" && !callee.isLit && i < len(callee.params) {
			lu := w.closure(fl, "param", nil)
			w.a.litArgs = append(w.a.litArgs, litArg{callee, i, lu, binds})
			continue
		}
		w.expr(x)
	}
}

func (w *walker) isParam(v *types.Var) bool {
	if w.u.fn == nil {
		return false
	}
	sig, ok := w.u.fn.Type().(*types.Signature)
	if !ok {
		return false
	}
	for i := 0; i < sig.Params().Len(); i++ {
		if sig.Params().At(i) == v {
			return true
		}
	}
	return false
}

// argsExt: arguments of a call into another package.  `&x` of a fresh local handed to such a
// call (json Decode(&part)) fills the object; it is assumed not to publish it to another thread.
func (w *walker) argsExt(args []ast.Expr) {
	for _, x := range args {
		if u, ok := x.(*ast.UnaryExpr); ok && u.Op == token.AND {
			if id, ok := unparen(u.X).(*ast.Ident); ok && w.fresh[w.obj(id)] {
				continue
			}
		}
		w.expr(x)
	}
}

func (w *walker) spawnOf(mode string, e *ast.CallExpr) *spawn {
	if mode != "spawn" {
		return nil
	}
	for _, sp := range w.u.spawns {
		if g, ok := sp.node.(*ast.GoStmt); ok && g.Call == e {
			return sp
		}
	}
	return nil
}

func (w *walker) fieldClass(sel *types.Selection) (cls, owner string, ok bool) {
	t := sel.Recv()
	for i, ix := range sel.Index() {
		owner = namedOf(t)
		if p, ok := t.(*types.Pointer); ok {
			t = p.Elem()
		}
		st, ok := t.Underlying().(*types.Struct)
		if !ok {
			return "", "", false
		}
		f := st.Field(ix)
		if i == len(sel.Index())-1 {
			return owner + "." + f.Name(), owner, trackedTypes[owner]
		}
		t = f.Type()
	}
	return "", "", false
}

func (w *walker) closure(fl *ast.FuncLit, mode string, sp *spawn) *unit {
	w.a.litCount[w.u.name]++
	u := &unit{name: fmt.Sprintf("%s$%d", w.u.name, w.a.litCount[w.u.name]), body: fl.Body, isLit: true, params: paramNames(fl.Type)}
	w.a.units = append(w.a.units, u)
	w.a.queue = append(w.a.queue, u)
	var handoff []lockKey
	if mode == "spawn" && sp != nil && sp.kind == "go" {
		// lock hand-off: held here, unlocked by the goroutine
		unl := unlockedIn(w, fl.Body)
		for k := range w.st.added {
			if unl[k] {
				handoff = append(handoff, k)
			}
		}
		for _, k := range handoff {
			delete(w.st.added, k)
		}
	}
	e := &edge{from: w.u, to: u, st: w.st.clone(), mode: mode, sp: sp, handoff: handoff, inLoop: len(w.loopEntry) > 0}
	if len(handoff) > 0 {
		for _, k := range handoff {
			e.st.added[k] = true
		}
	}
	u.in = append(u.in, e)
	if sp != nil && sp.class == "" {
		sp.class = u.name
	}
	return u
}

func unlockedIn(w *walker, body *ast.BlockStmt) map[lockKey]bool {
	out := map[lockKey]bool{}
	ast.Inspect(body, func(n ast.Node) bool {
		if c, ok := n.(*ast.CallExpr); ok {
			if se, ok := c.Fun.(*ast.SelectorExpr); ok && (se.Sel.Name == "Unlock" || se.Sel.Name == "RUnlock") {
				tmp := &walker{a: w.a, u: &unit{name: "<scan>"}, st: newState(), fresh: map[types.Object]bool{}, origin: map[types.Object]int{},
					holderVars: map[types.Object]bool{}, grChans: map[types.Object]bool{}, closeDone: map[string]bool{}}
				if k, ok := tmp.lockKeyOf(se.X); ok {
					out[k] = true
				}
			}
		}
		return true
	})
	return out
}

func (w *walker) spawnStmt(s *ast.GoStmt) {
	sp := w.a.spawnByNd[s]
	if fl, ok := unparen(s.Call.Fun).(*ast.FuncLit); ok {
		w.args(s.Call.Args)
		w.closure(fl, "spawn", sp)
		return
	}
	before := len(w.a.units)
	_ = before
	w.call(s.Call, "spawn")
	if se, ok := unparen(s.Call.Fun).(*ast.SelectorExpr); ok && sp != nil {
		if t := w.a.info.TypeOf(se.X); t != nil && forkOwners[namedOf(t)] {
			sp.ownerRecv = true
		}
	}
	if sp != nil && sp.class == "" {
		sp.class = fmt.Sprintf("go:%s:%s", w.u.name, types.ExprString(s.Call.Fun))
	}
}

func (w *walker) deferStmt(s *ast.DeferStmt) {
	if se, ok := s.Call.Fun.(*ast.SelectorExpr); ok {
		switch se.Sel.Name {
		case "Unlock", "RUnlock":
			if k, ok := w.lockKeyOf(se.X); ok {
				if se.Sel.Name == "RUnlock" {
					k = sharedKey(k)
				}
				w.deferUnl[k] = true
				return // held until the function returns
			}
		}
	}
	w.call(s.Call, "deferred")
}
