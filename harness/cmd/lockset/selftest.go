package main

// Self-test stream for the L1 correspondence of the RULE: random access-fact tables, the
// translator's own evaluation (violating pairs, stale reads) on impl.txt, and the same table as
// an oracle command on ops.txt; the Lean oracle (oracle-c15) evaluates `violatingPairs` /
// `staleReads` from Model/Lockset.lean on it and the check compares line by line.

import (
	"bufio"
	"fmt"
	"os"
	"path/filepath"
	"strings"
)

type rng struct{ s uint64 }

func (r *rng) u64() uint64 {
	r.s += 0x9E3779B97F4A7C15
	z := r.s
	z = (z ^ (z >> 30)) * 0xBF58476D1CE4E5B9
	z = (z ^ (z >> 27)) * 0x94D049BB133111EB
	return z ^ (z >> 31)
}
func (r *rng) n(k int) int       { return int(r.u64() % uint64(k)) }
func (r *rng) chance(p int) bool { return r.n(100) < p }

var kindNames = []string{"read", "write", "mapRead", "mapIter", "mapInsert", "mapDelete"}

func b01(b bool) int {
	if b {
		return 1
	}
	return 0
}

func selftest(n int, seed uint64, dir string) error {
	ops, err := os.Create(filepath.Join(dir, "ops.txt"))
	if err != nil {
		return err
	}
	defer ops.Close()
	impl, err := os.Create(filepath.Join(dir, "impl.txt"))
	if err != nil {
		return err
	}
	defer impl.Close()
	wo, wi := bufio.NewWriter(ops), bufio.NewWriter(impl)
	defer wo.Flush()
	defer wi.Flush()
	r := &rng{s: seed*0x9E3779B97F4A7C15 + 77}
	lockNames := []string{registryLock, "other.mu", objectLock}
	stats := map[string]int{}
	for t := 0; t < n; t++ {
		res := &Result{PerClass: map[string]int{}, Inserts: map[string]int{}}
		nf := 2 + r.n(9)
		ncls := 1 + r.n(3)
		mapTable := r.chance(40)
		for i := 0; i < nf; i++ {
			f := Fact{Site: fmt.Sprintf("s%02d", i), Func: fmt.Sprintf("f%d", i), Cls: fmt.Sprintf("c%d", r.n(ncls)),
				Thread: fmt.Sprintf("t%d", r.n(3)), Locks: []string{}, Pre: []int{}, Post: []int{}, HB: []string{}}
			if mapTable {
				f.Kind = kindNames[r.n(6)]
			} else {
				f.Kind = kindNames[r.n(2)]
			}
			for _, l := range lockNames {
				if r.chance(35) {
					p := "g:"
					if r.chance(40) {
						p = "s:"
					}
					f.Locks = append(f.Locks, p+l)
				}
			}
			f.Single = r.chance(30)
			f.Init = r.chance(10)
			f.Racy = r.chance(10)
			f.Atomic = r.chance(10)
			for g := 1; g <= 2; g++ {
				if r.chance(12) {
					f.Pre = append(f.Pre, g)
				}
				if r.chance(12) {
					f.Post = append(f.Post, g)
				}
			}
			if r.chance(10) {
				f.HB = append(f.HB, "holder")
			}
			if r.chance(8) {
				f.HB = append(f.HB, "doneclose")
			}
			f.Use, f.Live, f.Valid = r.chance(70), r.chance(30), r.chance(30)
			res.Facts = append(res.Facts, f)
		}
		res.index()
		for _, c := range res.Classes {
			if r.chance(50) {
				res.Cleared = append(res.Cleared, c)
			}
		}
		res.check()
		// oracle command
		var sb strings.Builder
		fmt.Fprintf(&sb, "rule %d", len(res.Facts))
		for i, f := range res.Facts {
			fmt.Fprintf(&sb, " %d %d %d %d", i, idx(res.Classes, f.Cls), idx(kindNames, f.Kind), len(f.Locks))
			for _, l := range f.Locks {
				fmt.Fprintf(&sb, " %d %d", idx(lockNames, l[2:]), b01(l[0] == 's'))
			}
			fmt.Fprintf(&sb, " %d %d %d %d %d", idx(res.Threads, f.Thread), b01(f.Single), b01(f.Init), b01(f.Racy), b01(f.Atomic))
			fmt.Fprintf(&sb, " %d", len(f.Pre))
			for _, x := range f.Pre {
				fmt.Fprintf(&sb, " %d", x)
			}
			fmt.Fprintf(&sb, " %d", len(f.Post))
			for _, x := range f.Post {
				fmt.Fprintf(&sb, " %d", x)
			}
			fmt.Fprintf(&sb, " %d", len(f.HB))
			for _, x := range f.HB {
				fmt.Fprintf(&sb, " %d", hbIDs[x])
			}
			fmt.Fprintf(&sb, " %d %d %d", b01(f.Use), b01(f.Live), b01(f.Valid))
		}
		fmt.Fprintf(&sb, " %d", len(res.Cleared))
		for _, c := range res.Cleared {
			fmt.Fprintf(&sb, " %d", idx(res.Classes, c))
		}
		fmt.Fprintf(&sb, " %d %d", idx(lockNames, registryLock), idx(lockNames, objectLock))
		fmt.Fprintln(wo, sb.String())
		// the translator's answer
		var ib strings.Builder
		ib.WriteString("v")
		for _, v := range res.Violations {
			fmt.Fprintf(&ib, " %d,%d,%d", idx(res.Classes, v.Cls), v.A, v.B)
		}
		ib.WriteString(" s")
		for _, st := range res.Stale {
			fmt.Fprintf(&ib, " %d,%d", idx(res.Classes, st.Cls), idx(res.Sites, st.Site))
		}
		ib.WriteString(" b")
		for _, c := range res.BadClasses {
			fmt.Fprintf(&ib, " %d", idx(res.Classes, c))
		}
		fmt.Fprintln(wi, ib.String())
		res.branches(stats)
		stats["rule_tables"]++
		stats["rule_facts"] += len(res.Facts)
		stats["rule_violating_pairs"] += len(res.Violations)
		stats["rule_stale_reads"] += len(res.Stale)
		if len(res.Violations) == 0 {
			stats["rule_tables_clean"]++
		}
		if mapTable {
			stats["rule_tables_with_map_kinds"]++
		}
	}
	sf, err := os.Create(filepath.Join(dir, "stats.txt"))
	if err != nil {
		return err
	}
	defer sf.Close()
	for k, v := range stats {
		fmt.Fprintf(sf, "%s=%d\n", k, v)
	}
	return nil
}
