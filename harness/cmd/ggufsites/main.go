// ggufsites lists, from the CURRENT tree, the syntactic sites of fs/ggml that can panic or size an allocation from
// file-controlled data, inside everything reachable from the decoder entry points (functions named Decode) and the
// typed metadata accessor keyValue (C10, Tie 1).  The Lean model of the decoder has one outcome per such site it knows
// (Guards: eleven validations); this list is the completeness side: a NEW risky site in the decode path makes the
// regenerated counts exceed what the model accounts for and Tie.C10 fails closed.
//
// Kinds (counted over the reachable functions; reachability by callee NAME inside the package, generic instantiations
// included — an over-approximation, so extracting a helper does not hide a site):
//   make-unbounded    make(T, n...) with a size that is neither constant nor min(…, constant)
//   slice-nonconst    x[a:b] with a bound that is neither constant nor min(…, constant/cap/len)
//   index-nonconst    x[i] on something that is not a map of the package (kv, KV), i not a constant and not the loop
//                     variable of an enclosing `for i…; i < len(x)` / `for i := range x`
//   assert-unchecked  v.(T) outside `x, ok := v.(T)`, `if x, ok := …` and type switches
//   div-nonconst      a / b or a % b with a non-constant b
//   truncate          calls of a method named Truncate
//
// usage: GGUF_REPO=/repo go run main.go     output: `count <kind> <n>` lines, then `site <kind> <func> <file:line> <expr>`
package main

import (
	"bytes"
	"fmt"
	"go/ast"
	"go/parser"
	"go/printer"
	"go/token"
	"os"
	"path/filepath"
	"sort"
	"strings"
)

var fset = token.NewFileSet()

func text(n ast.Node) string {
	var b bytes.Buffer
	printer.Fprint(&b, fset, n)
	return strings.Join(strings.Fields(b.String()), " ")
}

func main() {
	repo := os.Getenv("GGUF_REPO")
	if repo == "" {
		repo = "/repo"
	}
	funcs := map[string][]*ast.FuncDecl{}
	consts := map[string]bool{}
	for _, fn := range []string{"gguf.go", "ggml.go", "type.go"} {
		f, err := parser.ParseFile(fset, filepath.Join(repo, "fs", "ggml", fn), nil, 0)
		if err != nil {
			fmt.Println("error", err)
			os.Exit(1)
		}
		for _, d := range f.Decls {
			switch d := d.(type) {
			case *ast.FuncDecl:
				if d.Body != nil {
					funcs[d.Name.Name] = append(funcs[d.Name.Name], d)
				}
			case *ast.GenDecl:
				if d.Tok == token.CONST {
					for _, s := range d.Specs {
						for _, n := range s.(*ast.ValueSpec).Names {
							consts[n.Name] = true
						}
					}
				}
			}
		}
	}
	// reachability from the entry points
	reach := map[string]bool{}
	var visit func(name string)
	calleeName := func(e ast.Expr) string {
		for {
			switch x := e.(type) {
			case *ast.ParenExpr:
				e = x.X
			case *ast.IndexExpr:
				e = x.X
			case *ast.IndexListExpr:
				e = x.X
			case *ast.Ident:
				return x.Name
			case *ast.SelectorExpr:
				return x.Sel.Name
			default:
				return ""
			}
		}
	}
	visit = func(name string) {
		if reach[name] || len(funcs[name]) == 0 {
			return
		}
		reach[name] = true
		for _, d := range funcs[name] {
			ast.Inspect(d.Body, func(n ast.Node) bool {
				if c, ok := n.(*ast.CallExpr); ok {
					visit(calleeName(c.Fun))
				}
				return true
			})
		}
	}
	for _, root := range []string{"Decode", "keyValue"} {
		visit(root)
	}
	var isConst func(e ast.Expr) bool
	isConst = func(e ast.Expr) bool {
		switch x := e.(type) {
		case nil:
			return true
		case *ast.BasicLit:
			return true
		case *ast.Ident:
			return consts[x.Name]
		case *ast.ParenExpr:
			return isConst(x.X)
		case *ast.BinaryExpr:
			return isConst(x.X) && isConst(x.Y)
		case *ast.CallExpr:
			name := calleeName(x.Fun)
			if (name == "len" || name == "cap") && len(x.Args) == 1 {
				return true // bounded by an existing object
			}
			if name == "min" {
				for _, a := range x.Args {
					if isConst(a) {
						return true
					}
				}
			}
			if len(x.Args) == 1 && (name == "int" || name == "int64" || name == "uint64" || name == "uint32") {
				return isConst(x.Args[0])
			}
		}
		return false
	}
	type site struct{ kind, fn, pos, expr string }
	var sites []site
	names := make([]string, 0, len(reach))
	for n := range reach {
		names = append(names, n)
	}
	sort.Strings(names)
	for _, name := range names {
		for _, d := range funcs[name] {
			checked := map[*ast.TypeAssertExpr]bool{}
			safeIdx := map[*ast.IndexExpr]bool{}
			// first pass: comma-ok assertions, loop-bounded indexes
			var stack []ast.Node
			ast.Inspect(d.Body, func(n ast.Node) bool {
				if n == nil {
					stack = stack[:len(stack)-1]
					return true
				}
				stack = append(stack, n)
				switch x := n.(type) {
				case *ast.AssignStmt:
					if len(x.Lhs) == 2 && len(x.Rhs) == 1 {
						if ta, ok := x.Rhs[0].(*ast.TypeAssertExpr); ok {
							checked[ta] = true
						}
					}
				case *ast.ValueSpec:
					if len(x.Names) == 2 && len(x.Values) == 1 {
						if ta, ok := x.Values[0].(*ast.TypeAssertExpr); ok {
							checked[ta] = true
						}
					}
				case *ast.IndexExpr:
					id, ok := x.Index.(*ast.Ident)
					if !ok {
						break
					}
					for _, anc := range stack {
						switch l := anc.(type) {
						case *ast.RangeStmt:
							if k, ok := l.Key.(*ast.Ident); ok && k.Name == id.Name && text(l.X) == text(x.X) {
								safeIdx[x] = true
							}
						case *ast.ForStmt:
							if c, ok := l.Cond.(*ast.BinaryExpr); ok && c.Op == token.LSS {
								if ci, ok := c.X.(*ast.Ident); ok && ci.Name == id.Name && text(c.Y) == "len("+text(x.X)+")" {
									safeIdx[x] = true
								}
							}
						}
					}
				}
				return true
			})
			ast.Inspect(d.Body, func(n ast.Node) bool {
				add := func(kind string, e ast.Node) {
					p := fset.Position(e.Pos())
					sites = append(sites, site{kind, name, fmt.Sprintf("%s:%d", filepath.Base(p.Filename), p.Line), text(e)})
				}
				switch x := n.(type) {
				case *ast.CallExpr:
					if id, ok := x.Fun.(*ast.Ident); ok && id.Name == "make" {
						for _, a := range x.Args[1:] {
							if !isConst(a) {
								add("make-unbounded", x)
								break
							}
						}
					}
					if sel, ok := x.Fun.(*ast.SelectorExpr); ok && sel.Sel.Name == "Truncate" {
						add("truncate", x)
					}
				case *ast.SliceExpr:
					if !isConst(x.Low) || !isConst(x.High) || !isConst(x.Max) {
						add("slice-nonconst", x)
					}
				case *ast.IndexExpr:
					base := text(x.X)
					isMap := base == "kv" || strings.HasSuffix(base, ".kv") || strings.HasSuffix(base, "KV()")
					_, generic := x.X.(*ast.Ident)
					if generic && len(funcs[base]) > 0 {
						break // generic instantiation f[T]
					}
					if !isMap && !isConst(x.Index) && !safeIdx[x] {
						add("index-nonconst", x)
					}
				case *ast.TypeAssertExpr:
					if x.Type != nil && !checked[x] {
						add("assert-unchecked", x)
					}
				case *ast.BinaryExpr:
					if (x.Op == token.QUO || x.Op == token.REM) && !isConst(x.Y) {
						add("div-nonconst", x)
					}
				}
				return true
			})
		}
	}
	counts := map[string]int{"make-unbounded": 0, "slice-nonconst": 0, "index-nonconst": 0, "assert-unchecked": 0, "div-nonconst": 0, "truncate": 0}
	for _, s := range sites {
		counts[s.kind]++
	}
	kinds := make([]string, 0, len(counts))
	for k := range counts {
		kinds = append(kinds, k)
	}
	sort.Strings(kinds)
	fmt.Println("reachable", strings.Join(names, ","))
	for _, k := range kinds {
		fmt.Printf("count %s %d\n", k, counts[k])
	}
	for _, s := range sites {
		fmt.Printf("site %s %s %s %s\n", s.kind, s.fn, s.pos, s.expr)
	}
}
