// schedfacts extracts, from the CURRENT server/sched.go, the two behaviours the scheduler model
// takes as parameters (lean/OllamaVerif/Model/Sched.lean `Variant`):
//
//	guardDelete  – in processCompleted every `delete(s.loaded, …)` is guarded by an enclosing
//	               `if s.loaded[…] == runner`
//	recheckGrant – useLoadedRunner returns early when `runner.llama == nil` before it increments
//	               refCount, AND processPending `continue`s when useLoadedRunner reports false
//
// plus the channel capacities and timing constants the model relies on.  go/ast only.
// usage: SCHED_GO=/repo/server/sched.go go run main.go
package main

import (
	"fmt"
	"go/ast"
	"go/parser"
	"go/printer"
	"go/token"
	"os"
	"strings"
)

var fset = token.NewFileSet()

func src(n ast.Node) string {
	var sb strings.Builder
	printer.Fprint(&sb, fset, n)
	return sb.String()
}

func funcDecl(f *ast.File, name string) *ast.FuncDecl {
	for _, d := range f.Decls {
		if fd, ok := d.(*ast.FuncDecl); ok && fd.Name.Name == name {
			return fd
		}
	}
	return nil
}

// guardedDeletes: number of delete(s.loaded, …) calls and how many sit inside an
// `if s.loaded[X] == runner` with the same key expression X
func guardedDeletes(fd *ast.FuncDecl) (total, guarded int) {
	var walk func(n ast.Node, guards []string)
	walk = func(n ast.Node, guards []string) {
		ast.Inspect(n, func(m ast.Node) bool {
			switch x := m.(type) {
			case *ast.IfStmt:
				g := guards
				if be, ok := x.Cond.(*ast.BinaryExpr); ok && be.Op == token.EQL {
					l, r := src(be.X), src(be.Y)
					if strings.HasPrefix(l, "s.loaded[") && r == "runner" {
						g = append(append([]string{}, guards...), strings.TrimSuffix(strings.TrimPrefix(l, "s.loaded["), "]"))
					}
				}
				if x.Init != nil {
					walk(x.Init, guards)
				}
				walk(x.Body, g)
				if x.Else != nil {
					walk(x.Else, guards)
				}
				return false
			case *ast.CallExpr:
				if id, ok := x.Fun.(*ast.Ident); ok && id.Name == "delete" && len(x.Args) == 2 && src(x.Args[0]) == "s.loaded" {
					total++
					key := src(x.Args[1])
					for _, g := range guards {
						if g == key {
							guarded++
							break
						}
					}
				}
			}
			return true
		})
	}
	walk(fd.Body, nil)
	return
}

// recheckInUse: a top-level `if runner.llama == nil { return false }` precedes `runner.refCount++`
func recheckInUse(fd *ast.FuncDecl) bool {
	seenCheck := false
	for _, st := range fd.Body.List {
		switch x := st.(type) {
		case *ast.IfStmt:
			if be, ok := x.Cond.(*ast.BinaryExpr); ok && be.Op == token.EQL && src(be.X) == "runner.llama" && src(be.Y) == "nil" {
				if len(x.Body.List) > 0 {
					if rs, ok := x.Body.List[len(x.Body.List)-1].(*ast.ReturnStmt); ok && len(rs.Results) == 1 && src(rs.Results[0]) == "false" {
						seenCheck = true
					}
				}
			}
		case *ast.IncDecStmt:
			if src(x.X) == "runner.refCount" && x.Tok == token.INC {
				return seenCheck
			}
		}
	}
	return false
}

// callerRetries: processPending contains `if !pending.useLoadedRunner(…) { …; continue }`
func callerRetries(fd *ast.FuncDecl) bool {
	found := false
	ast.Inspect(fd.Body, func(n ast.Node) bool {
		if is, ok := n.(*ast.IfStmt); ok {
			if ue, ok := is.Cond.(*ast.UnaryExpr); ok && ue.Op == token.NOT {
				if ce, ok := ue.X.(*ast.CallExpr); ok && strings.HasSuffix(src(ce.Fun), ".useLoadedRunner") {
					if n := len(is.Body.List); n > 0 {
						if bs, ok := is.Body.List[n-1].(*ast.BranchStmt); ok && bs.Tok == token.CONTINUE {
							found = true
						}
					}
				}
			}
		}
		return true
	})
	return found
}

// expiredCaseFacts looks at the top-level statements of processCompleted's `case runner := <-s.expiredCh:` clause:
//
//	atomic   – no `runner.refMu.Unlock()` between the `runner.refCount > 0` test and `runner.unload()`
//	           (the check and the unload are one critical section of refMu: no check-then-act window)
//	underMu  – `runner.unload()` and every delete on s.loaded sit between `s.loadedMu.Lock()` and the
//	           clause's top-level `s.loadedMu.Unlock()` (a new runner cannot be inserted while the old one shuts down)
func expiredCaseFacts(fd *ast.FuncDecl) (found, atomic, underMu bool) {
	var body []ast.Stmt
	ast.Inspect(fd.Body, func(n ast.Node) bool {
		if cc, ok := n.(*ast.CommClause); ok && cc.Comm != nil && strings.Contains(src(cc.Comm), "s.expiredCh") {
			body = cc.Body
			return false
		}
		return true
	})
	if body == nil {
		return false, false, false
	}
	idx := func(pred func(ast.Stmt) bool) []int {
		var out []int
		for i, st := range body {
			if pred(st) {
				out = append(out, i)
			}
		}
		return out
	}
	isCall := func(text string) func(ast.Stmt) bool {
		return func(st ast.Stmt) bool {
			es, ok := st.(*ast.ExprStmt)
			return ok && src(es.X) == text
		}
	}
	containsCall := func(text string) func(ast.Stmt) bool {
		return func(st ast.Stmt) bool {
			f := false
			ast.Inspect(st, func(n ast.Node) bool {
				if ce, ok := n.(*ast.CallExpr); ok && strings.HasPrefix(src(ce), text) {
					f = true
				}
				return !f
			})
			return f
		}
	}
	check := idx(func(st ast.Stmt) bool {
		is, ok := st.(*ast.IfStmt)
		return ok && strings.Contains(src(is.Cond), "runner.refCount")
	})
	unload := idx(isCall("runner.unload()"))
	refUnlock := idx(isCall("runner.refMu.Unlock()"))
	muLock := idx(isCall("s.loadedMu.Lock()"))
	muUnlock := idx(isCall("s.loadedMu.Unlock()"))
	deletes := idx(containsCall("delete(s.loaded"))
	if len(check) != 1 || len(unload) != 1 || len(muLock) != 1 || len(muUnlock) != 1 {
		return true, false, false
	}
	atomic = check[0] < unload[0]
	for _, u := range refUnlock {
		if u > check[0] && u < unload[0] {
			atomic = false
		}
	}
	underMu = muLock[0] < unload[0] && unload[0] < muUnlock[0]
	for _, d := range deletes {
		if !(muLock[0] < d && d < muUnlock[0]) {
			underMu = false
		}
	}
	return true, atomic, underMu
}

// evictFacts looks at processPending's make-room block (the statements following `runnerToExpire.refMu.Lock()`
// in the same block):
//
//	atomic – `runnerToExpire.sessionDuration = 0`, the `runnerToExpire.refCount <= 0` test and the send on
//	         s.expiredCh all sit between that Lock and the next top-level `runnerToExpire.refMu.Unlock()` (marking
//	         the victim and deciding whether it is idle are one critical section: a victim whose last user finishes
//	         in between is expired by whoever sees refCount reach 0 with sessionDuration 0)
func evictFacts(fd *ast.FuncDecl) (found, atomic bool) {
	ast.Inspect(fd.Body, func(n ast.Node) bool {
		bs, ok := n.(*ast.BlockStmt)
		if !ok || found {
			return !found
		}
		lock := -1
		for i, st := range bs.List {
			if es, ok := st.(*ast.ExprStmt); ok && src(es.X) == "runnerToExpire.refMu.Lock()" {
				lock = i
				break
			}
		}
		if lock < 0 {
			return true
		}
		found = true
		unlock := -1
		for i := lock + 1; i < len(bs.List); i++ {
			if es, ok := bs.List[i].(*ast.ExprStmt); ok && src(es.X) == "runnerToExpire.refMu.Unlock()" {
				unlock = i
				break
			}
		}
		if unlock < 0 {
			return false
		}
		mark, test, send := false, false, false
		for _, st := range bs.List[lock+1 : unlock] {
			t := src(st)
			if as, ok := st.(*ast.AssignStmt); ok && len(as.Lhs) == 1 && src(as.Lhs[0]) == "runnerToExpire.sessionDuration" && src(as.Rhs[0]) == "0" {
				mark = true
			}
			if is, ok := st.(*ast.IfStmt); ok && strings.Contains(src(is.Cond), "runnerToExpire.refCount") {
				test = true
				if strings.Contains(t, "s.expiredCh <- runnerToExpire") {
					send = true
				}
			}
		}
		// and no other send of the victim on expiredCh / no other refCount test of it outside the section
		outside := 0
		for i, st := range bs.List {
			if i > lock && i < unlock {
				continue
			}
			t := src(st)
			if strings.Contains(t, "s.expiredCh <- runnerToExpire") || strings.Contains(t, "runnerToExpire.refCount") && !strings.Contains(t, "slog.") {
				outside++
			}
		}
		atomic = mark && test && send && outside == 0
		return false
	})
	return
}

// enqueueFacts: GetRunner hands the request to the pending loop with a NON-BLOCKING send
// (`select { case s.pendingReqCh <- req: default: req.errCh <- ErrMaxQueue }`) and nowhere else
func enqueueFacts(f *ast.File) (nonBlocking bool) {
	fd := funcDecl(f, "GetRunner")
	if fd == nil {
		return false
	}
	sends, inSelectWithDefault := 0, 0
	ast.Inspect(fd.Body, func(n ast.Node) bool {
		switch x := n.(type) {
		case *ast.SelectStmt:
			hasDefault, hasSend := false, false
			for _, c := range x.Body.List {
				cc := c.(*ast.CommClause)
				if cc.Comm == nil {
					hasDefault = strings.Contains(src(cc), "ErrMaxQueue")
				} else if ss, ok := cc.Comm.(*ast.SendStmt); ok && src(ss.Chan) == "s.pendingReqCh" {
					hasSend = true
				}
			}
			if hasDefault && hasSend {
				inSelectWithDefault++
			}
		case *ast.SendStmt:
			if src(x.Chan) == "s.pendingReqCh" {
				sends++
			}
		}
		return true
	})
	return sends == 1 && inSelectWithDefault == 1
}

// waitUnloadFacts: the `case <-s.unloadedCh:` arms of processPending only log and continue (they do not touch
// s.loaded or a runner: the entry of a runner that is still busy must stay)
func waitUnloadFacts(fd *ast.FuncDecl) (pure bool) {
	pure = true
	n := 0
	ast.Inspect(fd.Body, func(m ast.Node) bool {
		if cc, ok := m.(*ast.CommClause); ok && cc.Comm != nil && strings.Contains(src(cc.Comm), "s.unloadedCh") {
			n++
			for _, st := range cc.Body {
				t := src(st)
				if bs, ok := st.(*ast.BranchStmt); ok && bs.Tok == token.CONTINUE {
					continue
				}
				if strings.HasPrefix(t, "slog.") {
					continue
				}
				pure = false
			}
		}
		return true
	})
	return pure && n >= 1
}

func main() {
	f, err := parser.ParseFile(fset, os.Getenv("SCHED_GO"), nil, 0)
	if err != nil {
		fmt.Println("error", err)
		os.Exit(1)
	}
	pc, ul, pp := funcDecl(f, "processCompleted"), funcDecl(f, "useLoadedRunner"), funcDecl(f, "processPending")
	if pc == nil || ul == nil || pp == nil {
		fmt.Println("error anchors-not-found")
		os.Exit(1)
	}
	total, guarded := guardedDeletes(pc)
	fmt.Printf("deletes=%d guardedDeletes=%d\n", total, guarded)
	fmt.Printf("guardDelete=%v\n", total > 0 && total == guarded)
	fmt.Printf("recheckGrant=%v\n", recheckInUse(ul) && callerRetries(pp))
	// other delete sites of s.loaded anywhere else in the file would escape the model
	others := 0
	for _, d := range f.Decls {
		if fd, ok := d.(*ast.FuncDecl); ok && fd.Name.Name != "processCompleted" && fd.Body != nil {
			t, _ := guardedDeletes(fd)
			others += t
		}
	}
	fmt.Printf("deletesElsewhere=%d\n", others)
	found, atomic, underMu := expiredCaseFacts(pc)
	fmt.Printf("expiredCaseFound=%v\nexpiredAtomic=%v\nunloadUnderLoadedMu=%v\n", found, atomic, underMu)
	ef, ea := evictFacts(pp)
	fmt.Printf("evictBlockFound=%v\nevictAtomic=%v\n", ef, ea)
	fmt.Printf("enqueueNonBlocking=%v\n", enqueueFacts(f))
	fmt.Printf("waitUnloadPure=%v\n", waitUnloadFacts(pp))
}
