// schedfacts extracts, from the CURRENT server/sched.go, the structural facts the scheduler model
// (lean/OllamaVerif/Model/Sched.lean) relies on and that cannot be obtained by running the code
// (atomicity of lock-protected regions), plus a SYNTACTIC OPINION on the two behaviours the model takes
// as parameters (`Variant`), which the check combines with a behavioural probe of the real scheduler on
// the F12a / F12b witness schedules (vlib/checks/sched_common.py):
//
//	guardDeleteAst  guarded | unguarded | unknown
//	    guarded    every `delete(s.loaded, K)` of the file is dominated, inside one critical section of
//	               loadedMu, by a condition that IMPLIES `s.loaded[K] == X` with K = X.modelPath, X the runner
//	               being shut down: `if s.loaded[K] == X`, operands in either order, as one conjunct of a `&&`,
//	               through a local (`cur := s.loaded[K]`, `cur, ok := s.loaded[K]`, `key := X.modelPath`), in the
//	               else-branch of / after an early exit on the negation (`if s.loaded[K] != X { …; continue }`)
//	    unguarded  some delete is not dominated by ANY condition that mentions `s.loaded` (upstream's form)
//	    unknown    anything else (the behavioural probe decides)
//	recheckGrantAst present | absent | unknown
//	    present    useLoadedRunner increments refCount only where `X.llama != nil` is implied (early `return false`
//	               on `X.llama == nil`, either operand order, or an enclosing `if X.llama != nil`) AND processPending
//	               `continue`s when useLoadedRunner reports false (`if !p.useLoadedRunner(…)`, or through a local)
//	    absent     no condition on `.llama` precedes the increment, or the caller discards the result
//	    unknown    anything else
//
// Before any matcher runs the functions are NORMALISED so that semantics-preserving rewrites do not change the
// answers: receivers renamed to their canonical names, calls (in statement position) of helper functions that
// are new in the file inlined (two levels, parameters substituted, `defer`s moved to the end of the inlined
// body), the names of the locals the matchers talk about taken from the code (the variable bound by
// `case X := <-s.expiredCh`, the victim variable of the make-room block).  go/ast only.
// usage: SCHED_GO=/repo/server/sched.go go run main.go
package main

import (
	"fmt"
	"go/ast"
	"go/parser"
	"go/printer"
	"go/scanner"
	"go/token"
	"os"
	"sort"
	"strings"
)

var fset = token.NewFileSet()

func src(n ast.Node) string {
	if n == nil {
		return ""
	}
	var sb strings.Builder
	printer.Fprint(&sb, fset, n)
	return sb.String()
}

// the functions of sched.go the model's actions are anchored in: never inlined (the matchers look for calls of them)
var anchors = map[string]bool{
	"InitScheduler": true, "GetRunner": true, "Run": true, "processPending": true, "processCompleted": true,
	"useLoadedRunner": true, "load": true, "updateFreeSpace": true, "filterGPUsWithoutLoadingModels": true,
	"unload": true, "needsReload": true, "waitForVRAMRecovery": true, "Len": true, "Swap": true, "Less": true,
	"pickBestFullFitByLibrary": true, "pickBestPartialFitByLibrary": true, "findRunnerToUnload": true,
	"unloadAllRunners": true, "expireRunner": true, "maybeFindCPURunnerToUnload": true,
}

var canonRecv = map[string]string{"Scheduler": "s", "LlmRequest": "pending", "runnerRef": "runner"}

var funcs = map[string]*ast.FuncDecl{}

// ---------------------------------------------------------------------------------------------
// token-level identifier substitution + re-parse

func substitute(text string, sub map[string]string) string {
	if len(sub) == 0 {
		return text
	}
	var s scanner.Scanner
	file := token.NewFileSet().AddFile("", -1, len(text))
	s.Init(file, []byte(text), nil, scanner.ScanComments)
	var sb strings.Builder
	last := 0
	prev := token.ILLEGAL
	for {
		pos, tok, lit := s.Scan()
		if tok == token.EOF {
			break
		}
		off := file.Offset(pos)
		if tok == token.IDENT && prev != token.PERIOD {
			if to, ok := sub[lit]; ok {
				sb.WriteString(text[last:off])
				sb.WriteString(to)
				last = off + len(lit)
			}
		}
		if tok != token.COMMENT {
			prev = tok
		}
	}
	sb.WriteString(text[last:])
	return sb.String()
}

func parseBody(text string) *ast.BlockStmt {
	f, err := parser.ParseFile(fset, "", "package p\nfunc _() "+text, 0)
	if err != nil {
		return nil
	}
	return f.Decls[0].(*ast.FuncDecl).Body
}

func recvOf(fd *ast.FuncDecl) (name, typ string) {
	if fd.Recv == nil || len(fd.Recv.List) == 0 {
		return "", ""
	}
	f := fd.Recv.List[0]
	t := f.Type
	if st, ok := t.(*ast.StarExpr); ok {
		t = st.X
	}
	if id, ok := t.(*ast.Ident); ok {
		typ = id.Name
	}
	if len(f.Names) > 0 {
		name = f.Names[0].Name
	}
	return
}

// simple: an expression that may be substituted for a parameter (evaluating it twice changes nothing)
func simple(e ast.Expr) bool {
	switch x := e.(type) {
	case *ast.Ident, *ast.BasicLit:
		return true
	case *ast.SelectorExpr:
		return simple(x.X)
	case *ast.ParenExpr:
		return simple(x.X)
	case *ast.UnaryExpr:
		return x.Op == token.AND && simple(x.X)
	}
	return false
}

// callee returns the helper a statement-level call refers to (nil: not a call of a helper defined in the file)
func callee(ce *ast.CallExpr) (*ast.FuncDecl, ast.Expr) {
	switch f := ce.Fun.(type) {
	case *ast.Ident:
		if fd := funcs[f.Name]; fd != nil && fd.Recv == nil && !anchors[f.Name] {
			return fd, nil
		}
	case *ast.SelectorExpr:
		if fd := funcs[f.Sel.Name]; fd != nil && fd.Recv != nil && !anchors[f.Sel.Name] && simple(f.X) {
			return fd, f.X
		}
	}
	return nil, nil
}

var absorbed = map[string]bool{} // helpers that were inlined somewhere

// expand returns the statements a statement-level call of a helper stands for, or nil
func expand(ce *ast.CallExpr, depth int) []ast.Stmt {
	fd, recv := callee(ce)
	if fd == nil || fd.Body == nil || depth <= 0 {
		return nil
	}
	sub := map[string]string{}
	if recv != nil {
		if n, _ := recvOf(fd); n != "" && n != "_" {
			sub[n] = src(recv)
		}
	}
	i := 0
	for _, p := range fd.Type.Params.List {
		for _, n := range p.Names {
			if i >= len(ce.Args) || !simple(ce.Args[i]) {
				return nil
			}
			if n.Name != "_" {
				sub[n.Name] = src(ce.Args[i])
			}
			i++
		}
	}
	if i != len(ce.Args) {
		return nil
	}
	body := parseBody(substitute(src(fd.Body), sub))
	if body == nil {
		return nil
	}
	absorbed[fd.Name.Name] = true
	// top-level defers run when the helper returns: move them to the end (last deferred first)
	var list, deferred []ast.Stmt
	for _, st := range body.List {
		if d, ok := st.(*ast.DeferStmt); ok {
			deferred = append([]ast.Stmt{&ast.ExprStmt{X: d.Call}}, deferred...)
			continue
		}
		list = append(list, st)
	}
	list = append(list, deferred...)
	return inlineList(list, depth-1)
}

func inlineList(list []ast.Stmt, depth int) []ast.Stmt {
	var out []ast.Stmt
	for _, st := range list {
		if es, ok := st.(*ast.ExprStmt); ok {
			if ce, ok := es.X.(*ast.CallExpr); ok {
				if ex := expand(ce, depth); ex != nil {
					out = append(out, ex...)
					continue
				}
			}
		}
		inlineIn(st, depth)
		out = append(out, st)
	}
	return out
}

// inlineIn rewrites every statement list below n in place
func inlineIn(n ast.Node, depth int) {
	ast.Inspect(n, func(m ast.Node) bool {
		switch x := m.(type) {
		case *ast.BlockStmt:
			x.List = inlineList(x.List, depth)
			return false
		case *ast.CaseClause:
			x.Body = inlineList(x.Body, depth)
			return false
		case *ast.CommClause:
			x.Body = inlineList(x.Body, depth)
			return false
		}
		return true
	})
}

// normalised copy of a function: canonical receiver name, helpers inlined
func normalise(fd *ast.FuncDecl) *ast.FuncDecl {
	if fd == nil || fd.Body == nil {
		return fd
	}
	sub := map[string]string{}
	if n, t := recvOf(fd); n != "" && canonRecv[t] != "" && n != canonRecv[t] {
		sub[n] = canonRecv[t]
	}
	body := parseBody(substitute(src(fd.Body), sub))
	if body == nil {
		return fd
	}
	body.List = inlineList(body.List, 2)
	cp := *fd
	cp.Body = body
	return &cp
}

// ---------------------------------------------------------------------------------------------
// a small "what does this condition imply" engine

type fact struct {
	eq   bool
	a, b string
}

type env struct {
	facts   []fact
	alias   map[string]string // local -> the expression it was defined from
	sawCond map[string]bool   // substrings of interest mentioned by an enclosing / dominating condition
}

func (e env) clone() env {
	n := env{facts: append([]fact{}, e.facts...), alias: map[string]string{}, sawCond: map[string]bool{}}
	for k, v := range e.alias {
		n.alias[k] = v
	}
	for k, v := range e.sawCond {
		n.sawCond[k] = v
	}
	return n
}

func unparen(x ast.Expr) ast.Expr {
	for {
		p, ok := x.(*ast.ParenExpr)
		if !ok {
			return x
		}
		x = p.X
	}
}

// norm prints an expression with aliased locals replaced by their definitions
func (e env) norm(x ast.Expr) string {
	return substitute(src(unparen(x)), e.alias)
}

// implied: the facts that hold when cond evaluates to `val`
func (e env) implied(cond ast.Expr, val bool) []fact {
	cond = unparen(cond)
	switch x := cond.(type) {
	case *ast.UnaryExpr:
		if x.Op == token.NOT {
			return e.implied(x.X, !val)
		}
	case *ast.BinaryExpr:
		switch {
		case x.Op == token.LAND && val, x.Op == token.LOR && !val:
			return append(e.implied(x.X, val), e.implied(x.Y, val)...)
		case x.Op == token.EQL, x.Op == token.NEQ:
			return []fact{{eq: (x.Op == token.EQL) == val, a: e.norm(x.X), b: e.norm(x.Y)}}
		}
	}
	return nil
}

func (e *env) note(cond ast.Expr) {
	t := e.norm(cond)
	for _, k := range []string{"s.loaded", ".llama"} {
		if strings.Contains(t, k) {
			e.sawCond[k] = true
		}
	}
}

func (e env) has(eq bool, a, b string) bool {
	for _, f := range e.facts {
		if f.eq == eq && (f.a == a && f.b == b || f.a == b && f.b == a) {
			return true
		}
	}
	return false
}

func terminates(b *ast.BlockStmt) bool {
	if b == nil || len(b.List) == 0 {
		return false
	}
	switch x := b.List[len(b.List)-1].(type) {
	case *ast.ReturnStmt:
		return true
	case *ast.BranchStmt:
		return x.Tok == token.CONTINUE || x.Tok == token.BREAK || x.Tok == token.GOTO
	case *ast.ExprStmt:
		if ce, ok := x.X.(*ast.CallExpr); ok {
			return src(ce.Fun) == "panic"
		}
	}
	return false
}

// walk visits the statements in execution order with the facts known at each; visit is called for every simple statement
func walk(list []ast.Stmt, e env, visit func(st ast.Stmt, e env)) env {
	for _, st := range list {
		switch x := st.(type) {
		case *ast.IfStmt:
			ie := e.clone()
			if x.Init != nil {
				ie = walk([]ast.Stmt{x.Init}, ie, visit)
			}
			te := ie.clone()
			te.note(x.Cond)
			te.facts = append(te.facts, ie.implied(x.Cond, true)...)
			walk(x.Body.List, te, visit)
			ee := ie.clone()
			ee.note(x.Cond)
			ee.facts = append(ee.facts, ie.implied(x.Cond, false)...)
			switch el := x.Else.(type) {
			case *ast.BlockStmt:
				walk(el.List, ee, visit)
			case *ast.IfStmt:
				walk([]ast.Stmt{el}, ee, visit)
			}
			if x.Else == nil && terminates(x.Body) {
				// early exit: the rest of the block runs only when the condition was false
				e.note(x.Cond)
				e.facts = append(e.facts, ie.implied(x.Cond, false)...)
				for k, v := range ie.alias {
					if _, ok := e.alias[k]; !ok && x.Init == nil {
						e.alias[k] = v
					}
				}
			}
		case *ast.AssignStmt:
			visit(st, e)
			for i, l := range x.Lhs {
				id, ok := l.(*ast.Ident)
				if !ok {
					if strings.HasPrefix(src(l), "s.loaded[") {
						e.facts = nil // the map changed
					}
					continue
				}
				delete(e.alias, id.Name)
				var rhs ast.Expr
				if len(x.Rhs) == len(x.Lhs) {
					rhs = x.Rhs[i]
				} else if i == 0 && len(x.Rhs) == 1 {
					rhs = x.Rhs[0] // v, ok := s.loaded[k]
				}
				if rhs != nil && x.Tok == token.DEFINE {
					switch r := unparen(rhs).(type) {
					case *ast.IndexExpr, *ast.SelectorExpr, *ast.Ident:
						if id.Name != "_" {
							e.alias[id.Name] = e.norm(r)
						}
					}
				}
			}
		case *ast.BlockStmt:
			e = walk(x.List, e, visit)
		case *ast.ForStmt:
			walk(x.Body.List, e.clone(), visit)
		case *ast.RangeStmt:
			walk(x.Body.List, e.clone(), visit)
		case *ast.SwitchStmt:
			for _, c := range x.Body.List {
				walk(c.(*ast.CaseClause).Body, e.clone(), visit)
			}
		case *ast.TypeSwitchStmt:
			for _, c := range x.Body.List {
				walk(c.(*ast.CaseClause).Body, e.clone(), visit)
			}
		case *ast.SelectStmt:
			for _, c := range x.Body.List {
				cc := c.(*ast.CommClause)
				ce := e.clone()
				if cc.Comm != nil {
					ce = walk([]ast.Stmt{cc.Comm}, ce, visit)
				}
				walk(cc.Body, ce, visit)
			}
		case *ast.LabeledStmt:
			e = walk([]ast.Stmt{x.Stmt}, e, visit)
		case *ast.GoStmt, *ast.DeferStmt:
			// another goroutine / a later time: nothing known there
			var fl *ast.FuncLit
			if g, ok := st.(*ast.GoStmt); ok {
				fl, _ = g.Call.Fun.(*ast.FuncLit)
			} else {
				fl, _ = st.(*ast.DeferStmt).Call.Fun.(*ast.FuncLit)
			}
			if fl != nil {
				walk(fl.Body.List, env{alias: map[string]string{}, sawCond: map[string]bool{}}, visit)
			}
			visit(st, e)
		default:
			visit(st, e)
			if t := src(st); t == "s.loadedMu.Unlock()" {
				e.facts = nil // what was tested about `loaded` no longer holds
				e.sawCond["s.loaded"] = false
			}
			// function literals in expression position (time.AfterFunc(d, func() {…}))
			ast.Inspect(st, func(n ast.Node) bool {
				if fl, ok := n.(*ast.FuncLit); ok {
					walk(fl.Body.List, env{alias: map[string]string{}, sawCond: map[string]bool{}}, visit)
					return false
				}
				return true
			})
		}
	}
	return e
}

func newEnv() env { return env{alias: map[string]string{}, sawCond: map[string]bool{}} }

// deleteSites classifies every delete(s.loaded, K) of a function
func deleteSites(fd *ast.FuncDecl) (total, guarded, bare int) {
	if fd == nil || fd.Body == nil {
		return
	}
	walk(fd.Body.List, newEnv(), func(st ast.Stmt, e env) {
		es, ok := st.(*ast.ExprStmt)
		if !ok {
			return
		}
		ce, ok := es.X.(*ast.CallExpr)
		if !ok || src(ce.Fun) != "delete" || len(ce.Args) != 2 || src(ce.Args[0]) != "s.loaded" {
			return
		}
		total++
		key := e.norm(ce.Args[1])
		ok = false
		for _, f := range e.facts {
			if !f.eq {
				continue
			}
			for _, p := range [][2]string{{f.a, f.b}, {f.b, f.a}} {
				if p[0] == "s.loaded["+key+"]" && p[1] != "nil" && key == p[1]+".modelPath" {
					ok = true
				}
			}
		}
		if ok {
			guarded++
		} else if !e.sawCond["s.loaded"] {
			bare++
		}
	})
	return
}

// recheckInUse: is `X.refCount++` of useLoadedRunner reached only where X.llama != nil is implied?
func recheckInUse(fd *ast.FuncDecl) string {
	if fd == nil || fd.Body == nil {
		return "unknown"
	}
	incs, okInc, bare := 0, 0, 0
	retFalse := false
	ast.Inspect(fd.Body, func(n ast.Node) bool {
		if rs, ok := n.(*ast.ReturnStmt); ok && len(rs.Results) == 1 && src(rs.Results[0]) == "false" {
			retFalse = true
		}
		return true
	})
	walk(fd.Body.List, newEnv(), func(st ast.Stmt, e env) {
		x := ""
		switch s := st.(type) {
		case *ast.IncDecStmt:
			if s.Tok == token.INC && strings.HasSuffix(src(s.X), ".refCount") {
				x = strings.TrimSuffix(e.norm(s.X), ".refCount")
			}
		case *ast.AssignStmt:
			if len(s.Lhs) == 1 && strings.HasSuffix(src(s.Lhs[0]), ".refCount") && (s.Tok == token.ADD_ASSIGN || s.Tok == token.ASSIGN && strings.Contains(src(s.Rhs[0]), "+")) {
				x = strings.TrimSuffix(e.norm(s.Lhs[0]), ".refCount")
			}
		}
		if x == "" {
			return
		}
		incs++
		if e.has(false, x+".llama", "nil") {
			okInc++
		} else if !e.sawCond[".llama"] {
			bare++
		}
	})
	switch {
	case incs > 0 && okInc == incs && retFalse:
		return "present"
	case bare > 0 || !retFalse:
		return "absent"
	}
	return "unknown"
}

// callerRetries: processPending `continue`s when useLoadedRunner reports false
func callerRetries(fd *ast.FuncDecl) string {
	calls, discarded, retried := 0, 0, 0
	okVars := map[string]bool{}
	ast.Inspect(fd.Body, func(n ast.Node) bool {
		switch x := n.(type) {
		case *ast.ExprStmt:
			if ce, ok := x.X.(*ast.CallExpr); ok && strings.HasSuffix(src(ce.Fun), ".useLoadedRunner") {
				discarded++
			}
		case *ast.AssignStmt:
			if len(x.Rhs) == 1 && len(x.Lhs) == 1 {
				if ce, ok := x.Rhs[0].(*ast.CallExpr); ok && strings.HasSuffix(src(ce.Fun), ".useLoadedRunner") {
					if src(x.Lhs[0]) == "_" {
						discarded++
					} else {
						okVars[src(x.Lhs[0])] = true
					}
				}
			}
		case *ast.CallExpr:
			if strings.HasSuffix(src(x.Fun), ".useLoadedRunner") {
				calls++
			}
		}
		return true
	})
	isUse := func(e ast.Expr) bool {
		e = unparen(e)
		if ce, ok := e.(*ast.CallExpr); ok {
			return strings.HasSuffix(src(ce.Fun), ".useLoadedRunner")
		}
		return okVars[src(e)]
	}
	endsContinue := func(b *ast.BlockStmt) bool {
		if b == nil || len(b.List) == 0 {
			return false
		}
		bs, ok := b.List[len(b.List)-1].(*ast.BranchStmt)
		return ok && bs.Tok == token.CONTINUE
	}
	ast.Inspect(fd.Body, func(n ast.Node) bool {
		is, ok := n.(*ast.IfStmt)
		if !ok {
			return true
		}
		c := unparen(is.Cond)
		if ue, ok := c.(*ast.UnaryExpr); ok && ue.Op == token.NOT && isUse(ue.X) && endsContinue(is.Body) {
			retried++
		}
		if be, ok := c.(*ast.BinaryExpr); ok && be.Op == token.EQL && isUse(be.X) && src(be.Y) == "false" && endsContinue(is.Body) {
			retried++
		}
		if isUse(c) {
			if eb, ok := is.Else.(*ast.BlockStmt); ok && endsContinue(eb) {
				retried++
			}
		}
		return true
	})
	switch {
	case calls > 0 && retried > 0 && discarded == 0:
		return "present"
	case discarded > 0 || calls == 0:
		return "absent"
	}
	return "unknown"
}

// ---------------------------------------------------------------------------------------------
// atomicity of regions (cannot be probed: needs preemption inside a region)

func commClause(fd *ast.FuncDecl, ch string) *ast.CommClause {
	var found *ast.CommClause
	ast.Inspect(fd.Body, func(n ast.Node) bool {
		if cc, ok := n.(*ast.CommClause); ok && cc.Comm != nil && found == nil && strings.Contains(src(cc.Comm), "<-"+ch) {
			if _, isSend := cc.Comm.(*ast.SendStmt); !isSend {
				found = cc
				return false
			}
		}
		return true
	})
	return found
}

// expiredCaseFacts looks at the top-level statements of processCompleted's `case X := <-s.expiredCh:` clause:
//
//	atomic   – no `X.refMu.Unlock()` between the `X.refCount > 0` test and `X.unload()`
//	           (the check and the unload are one critical section of refMu: no check-then-act window)
//	underMu  – `X.unload()` and every delete on s.loaded sit between `s.loadedMu.Lock()` and the
//	           clause's top-level `s.loadedMu.Unlock()` (a new runner cannot be inserted while the old one shuts down)
func expiredCaseFacts(fd *ast.FuncDecl) (found, atomic, underMu bool) {
	cc := commClause(fd, "s.expiredCh")
	if cc == nil {
		return false, false, false
	}
	x := "runner"
	if as, ok := cc.Comm.(*ast.AssignStmt); ok && len(as.Lhs) == 1 {
		x = src(as.Lhs[0])
	}
	body := cc.Body
	idx := func(pred func(ast.Stmt) bool) []int {
		var out []int
		for i, st := range body {
			if pred(st) {
				out = append(out, i)
			}
		}
		return out
	}
	isCall := func(text string) func(ast.Stmt) bool {
		return func(st ast.Stmt) bool {
			es, ok := st.(*ast.ExprStmt)
			return ok && src(es.X) == text
		}
	}
	containsCall := func(text string) func(ast.Stmt) bool {
		return func(st ast.Stmt) bool {
			f := false
			ast.Inspect(st, func(n ast.Node) bool {
				if ce, ok := n.(*ast.CallExpr); ok && strings.HasPrefix(src(ce), text) {
					f = true
				}
				return !f
			})
			return f
		}
	}
	check := idx(func(st ast.Stmt) bool {
		is, ok := st.(*ast.IfStmt)
		return ok && strings.Contains(src(is.Cond), x+".refCount")
	})
	unload := idx(isCall(x + ".unload()"))
	refUnlock := idx(isCall(x + ".refMu.Unlock()"))
	muLock := idx(isCall("s.loadedMu.Lock()"))
	muUnlock := idx(isCall("s.loadedMu.Unlock()"))
	deletes := idx(containsCall("delete(s.loaded"))
	if len(check) != 1 || len(unload) != 1 || len(muLock) != 1 || len(muUnlock) != 1 {
		return true, false, false
	}
	atomic = check[0] < unload[0]
	for _, u := range refUnlock {
		if u > check[0] && u < unload[0] {
			atomic = false
		}
	}
	underMu = muLock[0] < unload[0] && unload[0] < muUnlock[0]
	for _, d := range deletes {
		if !(muLock[0] < d && d < muUnlock[0]) {
			underMu = false
		}
	}
	return true, atomic, underMu
}

// evictFacts looks at processPending's make-room block: the block that locks a runner V's refMu and sets
// `V.sessionDuration = 0` (the statements following `V.refMu.Lock()` in the same block):
//
//	atomic – `V.sessionDuration = 0`, the `V.refCount <= 0` test and the send on s.expiredCh all sit between that
//	         Lock and the next top-level `V.refMu.Unlock()` (marking the victim and deciding whether it is idle are
//	         one critical section: a victim whose last user finishes in between is expired by whoever sees refCount
//	         reach 0 with sessionDuration 0)
func evictFacts(fd *ast.FuncDecl) (found, atomic bool) {
	ast.Inspect(fd.Body, func(n ast.Node) bool {
		bs, ok := n.(*ast.BlockStmt)
		if !ok || found {
			return !found
		}
		lock, v := -1, ""
		for i, st := range bs.List {
			if es, ok := st.(*ast.ExprStmt); ok && strings.HasSuffix(src(es.X), ".refMu.Lock()") {
				cand := strings.TrimSuffix(src(es.X), ".refMu.Lock()")
				marks := false
				for _, st2 := range bs.List {
					if as, ok := st2.(*ast.AssignStmt); ok && len(as.Lhs) == 1 && src(as.Lhs[0]) == cand+".sessionDuration" {
						marks = true
					}
				}
				if marks {
					lock, v = i, cand
					break
				}
			}
		}
		if lock < 0 {
			return true
		}
		found = true
		unlock := -1
		for i := lock + 1; i < len(bs.List); i++ {
			if es, ok := bs.List[i].(*ast.ExprStmt); ok && src(es.X) == v+".refMu.Unlock()" {
				unlock = i
				break
			}
		}
		if unlock < 0 {
			return false
		}
		mark, test, send := false, false, false
		for _, st := range bs.List[lock+1 : unlock] {
			t := src(st)
			if as, ok := st.(*ast.AssignStmt); ok && len(as.Lhs) == 1 && src(as.Lhs[0]) == v+".sessionDuration" && src(as.Rhs[0]) == "0" {
				mark = true
			}
			if is, ok := st.(*ast.IfStmt); ok && strings.Contains(src(is.Cond), v+".refCount") {
				test = true
				if strings.Contains(t, "s.expiredCh <- "+v) {
					send = true
				}
			}
		}
		// and no other send of the victim on expiredCh / no other refCount test of it outside the section
		outside := 0
		for i, st := range bs.List {
			if i > lock && i < unlock {
				continue
			}
			t := src(st)
			if strings.Contains(t, "s.expiredCh <- "+v) || strings.Contains(t, v+".refCount") && !strings.Contains(t, "slog.") {
				outside++
			}
		}
		atomic = mark && test && send && outside == 0
		return false
	})
	return
}

// enqueueFacts: GetRunner hands the request to the pending loop with a NON-BLOCKING send
// (`select { case s.pendingReqCh <- req: default: … ErrMaxQueue }`) and nowhere else
func enqueueFacts(fd *ast.FuncDecl) (nonBlocking bool) {
	if fd == nil {
		return false
	}
	sends, inSelectWithDefault := 0, 0
	ast.Inspect(fd.Body, func(n ast.Node) bool {
		switch x := n.(type) {
		case *ast.SelectStmt:
			hasDefault, hasSend := false, false
			for _, c := range x.Body.List {
				cc := c.(*ast.CommClause)
				if cc.Comm == nil {
					hasDefault = strings.Contains(src(cc), "ErrMaxQueue")
				} else if ss, ok := cc.Comm.(*ast.SendStmt); ok && src(ss.Chan) == "s.pendingReqCh" {
					hasSend = true
				}
			}
			if hasDefault && hasSend {
				inSelectWithDefault++
			}
		case *ast.SendStmt:
			if src(x.Chan) == "s.pendingReqCh" {
				sends++
			}
		}
		return true
	})
	return sends == 1 && inSelectWithDefault == 1
}

// waitUnloadFacts: the `case <-s.unloadedCh:` arms of processPending only log and continue (they do not touch
// s.loaded or a runner: the entry of a runner that is still busy must stay)
func waitUnloadFacts(fd *ast.FuncDecl) (pure bool, arms int) {
	pure = true
	ast.Inspect(fd.Body, func(m ast.Node) bool {
		if cc, ok := m.(*ast.CommClause); ok && cc.Comm != nil && strings.Contains(src(cc.Comm), "<-s.unloadedCh") {
			if _, isSend := cc.Comm.(*ast.SendStmt); isSend {
				return true
			}
			arms++
			for _, st := range cc.Body {
				t := src(st)
				if bs, ok := st.(*ast.BranchStmt); ok && bs.Tok == token.CONTINUE {
					continue
				}
				if strings.HasPrefix(t, "slog.") {
					continue
				}
				pure = false
			}
		}
		return true
	})
	return pure && arms >= 1, arms
}

// chanFacts: how the four scheduler channels are made in InitScheduler (`make(chan T, <cap expr>)`), and every send
// site of the three event channels with the mutexes (textually) held there, for the model's bounded-channel /
// lock-order layer (Model/SchedChan.lean)
func chanCaps(fd *ast.FuncDecl) map[string]string {
	out := map[string]string{}
	if fd == nil {
		return out
	}
	alias := map[string]string{}
	ast.Inspect(fd.Body, func(n ast.Node) bool {
		switch x := n.(type) {
		case *ast.AssignStmt:
			if len(x.Lhs) == 1 && len(x.Rhs) == 1 && x.Tok == token.DEFINE {
				alias[src(x.Lhs[0])] = src(x.Rhs[0])
			}
		case *ast.KeyValueExpr:
			if ce, ok := x.Value.(*ast.CallExpr); ok && src(ce.Fun) == "make" && len(ce.Args) >= 1 {
				if _, isChan := ce.Args[0].(*ast.ChanType); isChan {
					c := "0"
					if len(ce.Args) == 2 {
						c = src(ce.Args[1])
						if a, ok := alias[c]; ok {
							c = a
						}
					}
					out[src(x.Key)] = c
				}
			}
		}
		return true
	})
	return out
}

// ---------------------------------------------------------------------------------------------
// send sites: which mutexes are (textually) held at every BLOCKING send on one of the scheduler's channels
// (the bounded model's `profile`, Model/SchedChan.lean).  Lock names are normalised (`X.refMu` -> refMu,
// `s.loadedMu` -> loadedMu), function names dropped: the result is a SET of (channel, held mutexes).

func lockName(x string) string {
	switch {
	case strings.HasSuffix(x, ".loadedMu"):
		return "loadedMu"
	case strings.HasSuffix(x, ".refMu"):
		return "refMu"
	}
	return x
}

func lockCall(st ast.Stmt) (name string, lock, ok bool) {
	var ce *ast.CallExpr
	switch x := st.(type) {
	case *ast.ExprStmt:
		ce, _ = x.X.(*ast.CallExpr)
	case *ast.DeferStmt:
		ce = x.Call
	}
	if ce == nil {
		return
	}
	t := src(ce.Fun)
	switch {
	case strings.HasSuffix(t, ".Lock"):
		return lockName(strings.TrimSuffix(t, ".Lock")), true, true
	case strings.HasSuffix(t, ".Unlock"):
		return lockName(strings.TrimSuffix(t, ".Unlock")), false, true
	}
	return
}

func without(l []string, x string) []string {
	var out []string
	done := false
	for _, y := range l {
		if y == x && !done {
			done = true
			continue
		}
		out = append(out, y)
	}
	return out
}

func litEntryLocks(fl *ast.FuncLit) []string {
	var held, locked []string
	for _, st := range fl.Body.List {
		if n, lock, ok := lockCall(st); ok {
			if lock {
				locked = append(locked, n)
			} else if _, isDefer := st.(*ast.DeferStmt); isDefer {
				has := false
				for _, l := range locked {
					has = has || l == n
				}
				if !has {
					held = append(held, n) // deferred unlock of a mutex the literal never locks: held on entry
				}
			}
		}
	}
	return held
}

func sendSites(list []ast.Stmt, held []string, out map[string]bool) []string {
	record := func(ch ast.Expr) {
		c := src(ch)
		if !strings.HasPrefix(c, "s.") {
			return
		}
		h := append([]string{}, held...)
		sort.Strings(h)
		out[strings.TrimPrefix(c, "s.")+":"+strings.Join(h, "+")] = true
	}
	lits := func(n ast.Node) {
		ast.Inspect(n, func(m ast.Node) bool {
			if fl, ok := m.(*ast.FuncLit); ok {
				sendSites(fl.Body.List, litEntryLocks(fl), out)
				return false
			}
			return true
		})
	}
	for _, st := range list {
		switch x := st.(type) {
		case *ast.SendStmt:
			record(x.Chan)
		case *ast.ExprStmt, *ast.DeferStmt, *ast.GoStmt, *ast.AssignStmt, *ast.ReturnStmt:
			if n, lock, ok := lockCall(st); ok {
				if _, isDefer := st.(*ast.DeferStmt); !isDefer {
					if lock {
						held = append(append([]string{}, held...), n)
					} else {
						held = without(held, n)
					}
				}
				continue
			}
			lits(st)
		case *ast.IfStmt:
			sendSites(x.Body.List, held, out)
			switch el := x.Else.(type) {
			case *ast.BlockStmt:
				sendSites(el.List, held, out)
			case *ast.IfStmt:
				sendSites([]ast.Stmt{el}, held, out)
			}
		case *ast.BlockStmt:
			held = sendSites(x.List, held, out)
		case *ast.ForStmt:
			sendSites(x.Body.List, held, out)
		case *ast.RangeStmt:
			sendSites(x.Body.List, held, out)
		case *ast.SwitchStmt:
			for _, c := range x.Body.List {
				sendSites(c.(*ast.CaseClause).Body, held, out)
			}
		case *ast.SelectStmt:
			hasDefault := false
			for _, c := range x.Body.List {
				if c.(*ast.CommClause).Comm == nil {
					hasDefault = true
				}
			}
			for _, c := range x.Body.List {
				cc := c.(*ast.CommClause)
				if ss, ok := cc.Comm.(*ast.SendStmt); ok && !hasDefault {
					record(ss.Chan)
				}
				sendSites(cc.Body, held, out)
			}
		case *ast.LabeledStmt:
			held = sendSites([]ast.Stmt{x.Stmt}, held, out)
		}
	}
	return held
}

// expiredOrder: in the expired case, is `s.loadedMu.Lock()` taken before `X.refMu.Lock()`?
func expiredOrder(fd *ast.FuncDecl) bool {
	cc := commClause(fd, "s.expiredCh")
	if cc == nil {
		return false
	}
	mu, ref := -1, -1
	for i, st := range cc.Body {
		if n, lock, ok := lockCall(st); ok && lock {
			if n == "loadedMu" && mu < 0 {
				mu = i
			}
			if n == "refMu" && ref < 0 {
				ref = i
			}
		}
	}
	return mu >= 0 && ref >= 0 && mu < ref
}

// idleDrains: the outermost select of processPending has a receive arm on s.unloadedCh
func idleDrains(fd *ast.FuncDecl) bool {
	var sel *ast.SelectStmt
	ast.Inspect(fd.Body, func(n ast.Node) bool {
		if s, ok := n.(*ast.SelectStmt); ok && sel == nil {
			sel = s
		}
		return sel == nil
	})
	if sel == nil {
		return false
	}
	for _, c := range sel.Body.List {
		cc := c.(*ast.CommClause)
		if cc.Comm != nil && strings.Contains(src(cc.Comm), "<-s.unloadedCh") {
			if _, isSend := cc.Comm.(*ast.SendStmt); !isSend {
				return true
			}
		}
	}
	return false
}

// unloadClosesOnce: in unload() every `X.llama.Close()` is dominated by `X.llama != nil` and X.llama is set to nil
// afterwards in the same function (a second unload() of the same runner is a no-op: the model's `if x.closed then …`
// of `cExp`); the only other Close() of a runner's server in the file is unloadAllRunners (shutdown)
func unloadClosesOnce(f *ast.File) bool {
	ok := true
	sites := 0
	for _, d := range f.Decls {
		fd, isFn := d.(*ast.FuncDecl)
		if !isFn || fd.Body == nil || absorbed[fd.Name.Name] {
			continue
		}
		n := normalise(fd)
		closes, guarded := 0, 0
		var xs []string
		walk(n.Body.List, newEnv(), func(st ast.Stmt, e env) {
			es, isExpr := st.(*ast.ExprStmt)
			if !isExpr {
				return
			}
			ce, isCall := es.X.(*ast.CallExpr)
			if !isCall || !strings.HasSuffix(src(ce.Fun), ".llama.Close") {
				return
			}
			closes++
			x := strings.TrimSuffix(e.norm(ce.Fun), ".llama.Close")
			if e.has(false, x+".llama", "nil") {
				guarded++
				xs = append(xs, x)
			}
		})
		if closes == 0 {
			continue
		}
		sites += closes
		switch fd.Name.Name {
		case "unloadAllRunners":
			// shutdown: outside the model
		case "unload":
			if guarded != closes {
				ok = false
			}
			for _, x := range xs {
				niled := false
				for _, st := range n.Body.List {
					if as, isAs := st.(*ast.AssignStmt); isAs && len(as.Lhs) == 1 && src(as.Lhs[0]) == x+".llama" && src(as.Rhs[0]) == "nil" {
						niled = true
					}
				}
				if !niled {
					ok = false
				}
			}
		default:
			ok = false // a Close() site the model does not know
		}
	}
	return ok && sites > 0
}

func main() {
	f, err := parser.ParseFile(fset, os.Getenv("SCHED_GO"), nil, 0)
	if err != nil {
		fmt.Println("error", err)
		os.Exit(1)
	}
	for _, d := range f.Decls {
		if fd, ok := d.(*ast.FuncDecl); ok {
			funcs[fd.Name.Name] = fd
		}
	}
	pc, ul, pp := normalise(funcs["processCompleted"]), normalise(funcs["useLoadedRunner"]), normalise(funcs["processPending"])
	if pc == nil || ul == nil || pp == nil {
		fmt.Println("error anchors-not-found")
		os.Exit(1)
	}
	total, guarded, bare := deleteSites(pc)
	// delete sites of s.loaded in functions that are not part of processCompleted (not inlined into it) would escape the model
	others := 0
	var names []string
	for n := range funcs {
		names = append(names, n)
	}
	sort.Strings(names)
	for _, n := range names {
		if n == "processCompleted" || absorbed[n] {
			continue
		}
		t, g, b := deleteSites(normalise(funcs[n]))
		others += t
		total, guarded, bare = total+t, guarded+g, bare+b
	}
	gd := "unknown"
	switch {
	case total > 0 && guarded == total:
		gd = "guarded"
	case bare > 0:
		gd = "unguarded"
	}
	fmt.Printf("deletes=%d guardedDeletes=%d bareDeletes=%d\n", total, guarded, bare)
	fmt.Printf("guardDeleteAst=%s\n", gd)
	ru, cr := recheckInUse(ul), callerRetries(pp)
	rg := "unknown"
	switch {
	case ru == "present" && cr == "present":
		rg = "present"
	case ru == "absent" || cr == "absent":
		rg = "absent"
	}
	fmt.Printf("recheckInUse=%s callerRetries=%s\n", ru, cr)
	fmt.Printf("recheckGrantAst=%s\n", rg)
	fmt.Printf("deletesElsewhere=%d\n", others)
	found, atomic, underMu := expiredCaseFacts(pc)
	fmt.Printf("expiredCaseFound=%v\nexpiredAtomic=%v\nunloadUnderLoadedMu=%v\n", found, atomic, underMu)
	ef, ea := evictFacts(pp)
	fmt.Printf("evictBlockFound=%v\nevictAtomic=%v\n", ef, ea)
	fmt.Printf("enqueueNonBlocking=%v\n", enqueueFacts(normalise(funcs["GetRunner"])))
	wp, arms := waitUnloadFacts(pp)
	fmt.Printf("waitUnloadPure=%v\nunloadedChRecvArms=%d\n", wp, arms)
	caps := chanCaps(funcs["InitScheduler"])
	for _, c := range []string{"pendingReqCh", "finishedReqCh", "expiredCh", "unloadedCh"} {
		v, ok := caps[c]
		if !ok {
			v = "?"
		}
		fmt.Printf("cap_%s=%s\n", c, strings.Map(func(r rune) rune {
			if r >= 'a' && r <= 'z' || r >= 'A' && r <= 'Z' || r >= '0' && r <= '9' {
				return r
			}
			return -1
		}, v))
	}
	fmt.Printf("expiredOrderFixed=%v\nidleDrains=%v\n", expiredOrder(pc), idleDrains(pp))
	fmt.Printf("unloadClosesOnce=%v\n", unloadClosesOnce(f))
	sites := map[string]bool{}
	for _, n := range names {
		if absorbed[n] {
			continue
		}
		if fd := normalise(funcs[n]); fd != nil && fd.Body != nil {
			sendSites(fd.Body.List, nil, sites)
		}
	}
	var sl []string
	for k := range sites {
		sl = append(sl, k)
	}
	sort.Strings(sl)
	fmt.Printf("sendSites=%s\n", strings.Join(sl, ","))
	var ab []string
	for n := range absorbed {
		ab = append(ab, n)
	}
	sort.Strings(ab)
	fmt.Printf("inlinedHelpers=%s\n", strings.Join(ab, ","))
}
