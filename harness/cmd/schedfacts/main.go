// schedfacts extracts, from the CURRENT server/sched.go, the two behaviours the scheduler model
// takes as parameters (lean/OllamaVerif/Model/Sched.lean `Variant`):
//
//	guardDelete  – in processCompleted every `delete(s.loaded, …)` is guarded by an enclosing
//	               `if s.loaded[…] == runner`
//	recheckGrant – useLoadedRunner returns early when `runner.llama == nil` before it increments
//	               refCount, AND processPending `continue`s when useLoadedRunner reports false
//
// plus the channel capacities and timing constants the model relies on.  go/ast only.
// usage: SCHED_GO=/repo/server/sched.go go run main.go
package main

import (
	"fmt"
	"go/ast"
	"go/parser"
	"go/printer"
	"go/token"
	"os"
	"strings"
)

var fset = token.NewFileSet()

func src(n ast.Node) string {
	var sb strings.Builder
	printer.Fprint(&sb, fset, n)
	return sb.String()
}

func funcDecl(f *ast.File, name string) *ast.FuncDecl {
	for _, d := range f.Decls {
		if fd, ok := d.(*ast.FuncDecl); ok && fd.Name.Name == name {
			return fd
		}
	}
	return nil
}

// guardedDeletes: number of delete(s.loaded, …) calls and how many sit inside an
// `if s.loaded[X] == runner` with the same key expression X
func guardedDeletes(fd *ast.FuncDecl) (total, guarded int) {
	var walk func(n ast.Node, guards []string)
	walk = func(n ast.Node, guards []string) {
		ast.Inspect(n, func(m ast.Node) bool {
			switch x := m.(type) {
			case *ast.IfStmt:
				g := guards
				if be, ok := x.Cond.(*ast.BinaryExpr); ok && be.Op == token.EQL {
					l, r := src(be.X), src(be.Y)
					if strings.HasPrefix(l, "s.loaded[") && r == "runner" {
						g = append(append([]string{}, guards...), strings.TrimSuffix(strings.TrimPrefix(l, "s.loaded["), "]"))
					}
				}
				if x.Init != nil {
					walk(x.Init, guards)
				}
				walk(x.Body, g)
				if x.Else != nil {
					walk(x.Else, guards)
				}
				return false
			case *ast.CallExpr:
				if id, ok := x.Fun.(*ast.Ident); ok && id.Name == "delete" && len(x.Args) == 2 && src(x.Args[0]) == "s.loaded" {
					total++
					key := src(x.Args[1])
					for _, g := range guards {
						if g == key {
							guarded++
							break
						}
					}
				}
			}
			return true
		})
	}
	walk(fd.Body, nil)
	return
}

// recheckInUse: a top-level `if runner.llama == nil { return false }` precedes `runner.refCount++`
func recheckInUse(fd *ast.FuncDecl) bool {
	seenCheck := false
	for _, st := range fd.Body.List {
		switch x := st.(type) {
		case *ast.IfStmt:
			if be, ok := x.Cond.(*ast.BinaryExpr); ok && be.Op == token.EQL && src(be.X) == "runner.llama" && src(be.Y) == "nil" {
				if len(x.Body.List) > 0 {
					if rs, ok := x.Body.List[len(x.Body.List)-1].(*ast.ReturnStmt); ok && len(rs.Results) == 1 && src(rs.Results[0]) == "false" {
						seenCheck = true
					}
				}
			}
		case *ast.IncDecStmt:
			if src(x.X) == "runner.refCount" && x.Tok == token.INC {
				return seenCheck
			}
		}
	}
	return false
}

// callerRetries: processPending contains `if !pending.useLoadedRunner(…) { …; continue }`
func callerRetries(fd *ast.FuncDecl) bool {
	found := false
	ast.Inspect(fd.Body, func(n ast.Node) bool {
		if is, ok := n.(*ast.IfStmt); ok {
			if ue, ok := is.Cond.(*ast.UnaryExpr); ok && ue.Op == token.NOT {
				if ce, ok := ue.X.(*ast.CallExpr); ok && strings.HasSuffix(src(ce.Fun), ".useLoadedRunner") {
					if n := len(is.Body.List); n > 0 {
						if bs, ok := is.Body.List[n-1].(*ast.BranchStmt); ok && bs.Tok == token.CONTINUE {
							found = true
						}
					}
				}
			}
		}
		return true
	})
	return found
}

func main() {
	f, err := parser.ParseFile(fset, os.Getenv("SCHED_GO"), nil, 0)
	if err != nil {
		fmt.Println("error", err)
		os.Exit(1)
	}
	pc, ul, pp := funcDecl(f, "processCompleted"), funcDecl(f, "useLoadedRunner"), funcDecl(f, "processPending")
	if pc == nil || ul == nil || pp == nil {
		fmt.Println("error anchors-not-found")
		os.Exit(1)
	}
	total, guarded := guardedDeletes(pc)
	fmt.Printf("deletes=%d guardedDeletes=%d\n", total, guarded)
	fmt.Printf("guardDelete=%v\n", total > 0 && total == guarded)
	fmt.Printf("recheckGrant=%v\n", recheckInUse(ul) && callerRetries(pp))
	// other delete sites of s.loaded anywhere else in the file would escape the model
	others := 0
	for _, d := range f.Decls {
		if fd, ok := d.(*ast.FuncDecl); ok && fd.Name.Name != "processCompleted" && fd.Body != nil {
			t, _ := guardedDeletes(fd)
			others += t
		}
	}
	fmt.Printf("deletesElsewhere=%d\n", others)
}
