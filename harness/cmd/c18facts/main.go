// c18facts extracts, from the CURRENT tree, how the request options reach the sampler (C18, Tie 1).
//
// The sampler package is tied to its model behaviourally (positional `NewSampler(temp, k, p, minP, seed, nil)`
// against the model's `newParams` / `newRng`), but the one production call site lives in
// runner/ollamarunner, a cgo-heavy package no C18 driver can afford to execute.  What the property needs
// from it is a wiring fact: the i-th argument of every `sample.NewSampler(...)` call carries the request
// option of that role (Temperature, TopK, TopP, MinP, Seed), and the sampler it builds is owned by one
// sequence (a local handed to the sequence, not a shared package-level value: the seeded generator is the
// sampler's only state, so sharing it would interleave the streams of concurrent requests).
//
// Arguments are resolved SEMANTICALLY enough for harmless rewrites not to matter: the trailing selector of
// the expression (`req.Options.TopK`, `opts.TopK`, `o.TopK` all give `TopK`), through parentheses, `*`/`&`,
// one-argument conversions (`float32(x)`, `int(x)`) and up to three levels of single-assignment locals
// (`k := req.Options.TopK`).  Anything else is reported verbatim as `?<kind>` and fails the Lean fact closed.
//
// usage: C18_REPO=/repo go run main.go
// output: one line per call site:  site <file>:<func> args=<a1>,<a2>,<a3>,<a4>,<a5> nargs=<n> owner=<local|other>
package main

import (
	"fmt"
	"go/ast"
	"go/parser"
	"go/token"
	"os"
	"path/filepath"
	"sort"
	"strings"
)

// defsOf collects, for one function body, the single-assignment definitions `name := expr` / `var name = expr`.
func defsOf(body *ast.BlockStmt) map[string]ast.Expr {
	count := map[string]int{}
	defs := map[string]ast.Expr{}
	ast.Inspect(body, func(n ast.Node) bool {
		switch s := n.(type) {
		case *ast.AssignStmt:
			if len(s.Lhs) == len(s.Rhs) {
				for i, l := range s.Lhs {
					if id, ok := l.(*ast.Ident); ok {
						count[id.Name]++
						defs[id.Name] = s.Rhs[i]
					}
				}
			} else {
				for _, l := range s.Lhs {
					if id, ok := l.(*ast.Ident); ok {
						count[id.Name] += 2 // multi-value: not resolvable
					}
				}
			}
		case *ast.ValueSpec:
			for i, id := range s.Names {
				count[id.Name]++
				if i < len(s.Values) {
					defs[id.Name] = s.Values[i]
				} else {
					count[id.Name]++
				}
			}
		case *ast.IncDecStmt:
			if id, ok := s.X.(*ast.Ident); ok {
				count[id.Name] += 2
			}
		}
		return true
	})
	for k, c := range count {
		if c != 1 {
			delete(defs, k)
		}
	}
	return defs
}

func resolve(e ast.Expr, defs map[string]ast.Expr, depth int) string {
	switch x := e.(type) {
	case *ast.SelectorExpr:
		return x.Sel.Name
	case *ast.ParenExpr:
		return resolve(x.X, defs, depth)
	case *ast.StarExpr:
		return resolve(x.X, defs, depth)
	case *ast.UnaryExpr:
		if x.Op == token.AND {
			return resolve(x.X, defs, depth)
		}
		return "?unary"
	case *ast.CallExpr:
		if len(x.Args) == 1 {
			if id, ok := x.Fun.(*ast.Ident); ok {
				switch id.Name {
				case "float32", "float64", "int", "int32", "int64":
					return resolve(x.Args[0], defs, depth)
				}
			}
		}
		return "?call"
	case *ast.Ident:
		if d, ok := defs[x.Name]; ok && depth < 3 {
			return resolve(d, defs, depth+1)
		}
		return "?ident:" + x.Name
	case *ast.BasicLit:
		return "?literal:" + x.Value
	}
	return fmt.Sprintf("?%T", e)
}

func isNewSampler(c *ast.CallExpr) bool {
	switch f := c.Fun.(type) {
	case *ast.SelectorExpr:
		if p, ok := f.X.(*ast.Ident); ok && p.Name == "sample" && f.Sel.Name == "NewSampler" {
			return true
		}
	}
	return false
}

func main() {
	repo := os.Getenv("C18_REPO")
	if repo == "" {
		repo = "/repo"
	}
	var lines []string
	fset := token.NewFileSet()
	filepath.Walk(repo, func(path string, info os.FileInfo, err error) error {
		if err != nil {
			return nil
		}
		if info.IsDir() {
			n := info.Name()
			if n == ".git" || n == "node_modules" || n == "vendor" || (path != repo && strings.HasPrefix(n, ".")) {
				return filepath.SkipDir
			}
			return nil
		}
		if !strings.HasSuffix(path, ".go") || strings.HasSuffix(path, "_test.go") {
			return nil
		}
		src, err := os.ReadFile(path)
		if err != nil || !strings.Contains(string(src), "NewSampler(") {
			return nil
		}
		f, err := parser.ParseFile(fset, path, src, 0)
		if err != nil {
			lines = append(lines, fmt.Sprintf("parse-error %s", path))
			return nil
		}
		rel, _ := filepath.Rel(repo, path)
		for _, d := range f.Decls {
			fd, ok := d.(*ast.FuncDecl)
			if !ok || fd.Body == nil {
				continue
			}
			defs := defsOf(fd.Body)
			// the statement that holds each call: `x := sample.NewSampler(...)` inside the function = a local
			owner := map[*ast.CallExpr]string{}
			ast.Inspect(fd.Body, func(n ast.Node) bool {
				if as, ok := n.(*ast.AssignStmt); ok && as.Tok == token.DEFINE && len(as.Rhs) == 1 {
					if c, ok := as.Rhs[0].(*ast.CallExpr); ok && isNewSampler(c) {
						owner[c] = "local"
					}
				}
				if cl, ok := n.(*ast.CompositeLit); ok { // handed straight to the sequence's parameters
					for _, el := range cl.Elts {
						if kv, ok := el.(*ast.KeyValueExpr); ok {
							if c, ok := kv.Value.(*ast.CallExpr); ok && isNewSampler(c) {
								owner[c] = "local"
							}
						}
					}
				}
				return true
			})
			ast.Inspect(fd.Body, func(n ast.Node) bool {
				c, ok := n.(*ast.CallExpr)
				if !ok || !isNewSampler(c) {
					return true
				}
				var args []string
				for i, a := range c.Args {
					if i >= 5 {
						break
					}
					args = append(args, resolve(a, defs, 0))
				}
				ow := owner[c]
				if ow == "" {
					ow = "other"
				}
				lines = append(lines, fmt.Sprintf("site %s:%s args=%s nargs=%d owner=%s", rel, fd.Name.Name, strings.Join(args, ","), len(c.Args), ow))
				return true
			})
		}
		return nil
	})
	sort.Strings(lines)
	for _, l := range lines {
		fmt.Println(l)
	}
}
