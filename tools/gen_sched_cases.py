#!/usr/bin/env python3
"""Generate one preservation lemma per scheduler action for an invariant structure.
usage: gen_sched_cases.py <InvName> <nfields> [variant-expr] [grind-hints] [extra-hyps]"""
import sys
ACTS = [("submit","m o se"),("done","q"),("loadDone","r ok"),("timerFire","r"),("explicitUnload","m"),("setPing","r ok"),("setPingBlock","r"),("pingDone","r ok"),
 ("pTake",""),("pDrainUnloaded",""),("pLookup","fit"),("pNeedsReload",""),("pUse",""),("pExpire",""),("pWaitUnload",""),
 ("pLoad","ok"),("cTakeFinished",""),("cFin",""),("cTakeExpired",""),("cExp",""),("cVram",""),("requeue","r"),
 ("delayedRequeue","q"),("finishSend","q"),("timerCb","r"),("unloadRun","r"),("unloadBind","m"),("setPingOpen","r")]
inv, n = sys.argv[1], int(sys.argv[2])
variant = sys.argv[3] if len(sys.argv) > 3 and sys.argv[3] != "-" else None
hints = sys.argv[4] if len(sys.argv) > 4 and sys.argv[4] != "-" else ""
extra = sys.argv[5] if len(sys.argv) > 5 else ""
pre = sys.argv[6] if len(sys.argv) > 6 and not sys.argv[6].startswith("--") else ""
hs = ", ".join(f"h{i+1}" for i in range(n))
vb = "{v : Variant} " if not variant else ""
vv = "v" if not variant else variant
gr = f"grind [{hints}]" if hints else "grind"
vsimp = ", Variant.good" if variant else ""
manual = "--manual-cfin" in sys.argv
steponly = "--step-only" in sys.argv
if not manual and not steponly:
  print(f"""theorem {inv.lower()}_releaseHold {{s : State}} {{q : ReqId}} {extra} (h : {inv} s) : {inv} (releaseHold s q) := by
  obtain ⟨{hs}⟩ := h
{pre}  unfold releaseHold
  split
  · exact ⟨{hs}⟩
  · constructor <;> (sched_unfold; {gr})

theorem {inv.lower()}_finishOn {{s : State}} {{r : Rid}} {extra} (h : {inv} s) : {inv} (finishOn s r) := by
  obtain ⟨{hs}⟩ := h
{pre}  unfold finishOn
  simp only []
  (repeat' split) <;> (constructor <;> (sched_unfold; {gr}))
""")
for a, ps in ACTS:
    if steponly:
        break
    if a == "cFin" and "--manual-cfin" in sys.argv:
        continue
    if a == "cFin":
        print(f"""theorem {inv.lower()}_cFin {vb}{{s s' : State}} {extra} (h : {inv} s) (hs : step {vv} s .cFin = some s') : {inv} s' := by
  simp only [step] at hs
  (repeat' split at hs) <;> (try cases hs)
  exact {inv.lower()}_finishOn ({inv.lower()}_releaseHold h)
""")
        continue
    binders = " ".join(f"{{{p}}}" for p in ps.split()) if ps else ""
    app = f"(.{a} {ps})" if ps else f".{a}"
    print(f"""theorem {inv.lower()}_{a} {vb}{{s s' : State}} {binders} {extra} (h : {inv} s) (hs : step {vv} s {app} = some s') : {inv} s' := by
  obtain ⟨{hs}⟩ := h
{pre}  simp only [step, triggerExpire{vsimp}] at hs
  (repeat' split at hs) <;> (try cases hs)
  all_goals (first | exact ⟨{hs}⟩ | (constructor <;> (sched_unfold; {gr})))
""")
if "--no-step" in sys.argv:
    sys.exit(0)
ex_names = " ".join(w.split(":")[0].strip("( ") for w in extra.split(")") if ":" in w)
print(f"""theorem {inv.lower()}_step {vb}{{s s' : State}} (a : Act) {extra} (h : {inv} s) (hs : step {vv} s a = some s') : {inv} s' := by
  cases a""")
for a, ps in ACTS:
    print(f"  · exact {inv.lower()}_{a} {ex_names} h hs")
