#!/usr/bin/env python3
"""Final gate before committing: every evidence/CXX.json is schema-valid, describes /repo at its current HEAD with
no uncommitted change, has discharged == obligations >= 1, zero violations, tier quick, and MANIFEST.json validates."""
import json, subprocess, sys, os
ROOT = os.path.dirname(os.path.dirname(os.path.abspath(__file__)))
head = subprocess.run(["git", "-C", "/repo", "rev-parse", "--short", "HEAD"], stdout=subprocess.PIPE, text=True).stdout.strip()
bad = 0
try:
    import jsonschema
    schema = json.load(open("/root/.vp/EVIDENCE.schema.json"))
except Exception:
    jsonschema = None
for i in range(1, 21):
    p = f"C{i:02d}"
    try:
        d = json.load(open(os.path.join(ROOT, "evidence", p + ".json")))
    except Exception as e:
        print(p, "MISSING", e); bad += 1; continue
    c = d["coverage"]; t = c.get("tree", {})
    probs = []
    if jsonschema:
        try:
            jsonschema.validate(d, schema)
        except Exception as e:
            probs.append("schema: " + str(e)[:80])
    if c.get("discharged") != c.get("obligations") or not c.get("obligations"): probs.append(f"discharged {c.get('discharged')}/{c.get('obligations')}")
    if d.get("violations"): probs.append(f"violations {d['violations']}")
    if t.get("repo_path") != "/repo": probs.append(f"tree {t.get('repo_path')}")
    if t.get("repo_head") != head: probs.append(f"repo_head {t.get('repo_head')} != {head}")
    if t.get("repo_dirty_files"): probs.append("repo dirty")
    if d.get("tier") != "quick" or d.get("seed") != 1: probs.append(f"tier/seed {d.get('tier')}/{d.get('seed')}")
    print(p, "ok" if not probs else "PROBLEM: " + "; ".join(probs))
    bad += bool(probs)
sys.exit(1 if bad else 0)
