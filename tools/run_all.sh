#!/bin/sh
# tools/run_all.sh [quick|thorough]  — every registered check on /repo, four lanes (checks of different
# properties are independent; C01/C02/C11 share generated facts and stay in one lane). Summary on stdout.
cd "$(dirname "$0")/.."
tier=${1:-quick}
out=$(mktemp -d /tmp/verif-runall-XXXXXX)
lane() { for p in "$@"; do ./check $p $tier > $out/$p.log 2>&1; echo "$p rc=$? $(grep -c '^VIOLATION' $out/$p.log) violation(s) $(grep -c '^KNOWN-FINDING' $out/$p.log) known $(tail -1 $out/$p.log | sed 's/.*wall=/wall=/')"; done; }
lane C01 C02 C11 C15 &
lane C03 C04 C12 C09 C08 &
lane C05 C10 C06 C07 C14 C13 &
lane C16 C17 C18 C19 C20 &
wait
echo "logs in $out"
