#!/usr/bin/env python3
"""Evaluate one seeded change produced by a mutant sub-agent.

usage: tools/eval_mutant.py <CXX> <A|B> [--pkg <package dir for the demo>] [--tier quick|thorough] [--keep]

In a scratch worktree of /repo's HEAD (outside /repo and /verif):
  1. demo passes on the unchanged tree
  2. patch applies, `go build ./...` ok, the existing tests of the touched packages pass
  3. demo fails with the change
  4. `VERIF_REPO=<worktree> ./check CXX <tier>` -> expect exit 1 + VIOLATION line
Writes /verif/seeded/<CXX>-<A|B>/{patch.diff, demo files, meta.json} when 1-3 are confirmed.
"""
import glob
import json
import os
import re
import shutil
import subprocess
import sys

ROOT = os.path.dirname(os.path.dirname(os.path.abspath(__file__)))
ENV = dict(os.environ, GOFLAGS="-mod=mod", GOPROXY="off")


def sh(cmd, cwd, timeout=1800, env=None):
    p = subprocess.run(cmd, cwd=cwd, shell=True, stdout=subprocess.PIPE, stderr=subprocess.STDOUT, text=True,
                       timeout=timeout, env=env or ENV)
    return p.returncode, p.stdout


def main():
    args = sys.argv[1:]
    pid, which = args[0].upper(), args[1]
    pkg = args[args.index("--pkg") + 1] if "--pkg" in args else None
    tier = args[args.index("--tier") + 1] if "--tier" in args else "quick"
    src = os.path.join(ROOT, "seeded", f"{pid}-{which}")
    for cand in (f"/tmp/mut-c{pid[1:]}-out/{which}", f"/tmp/mut2-c{pid[1:]}-out/{which}", f"/tmp/mut3-c{pid[1:]}-out/{which}", f"/tmp/mut4-c{pid[1:]}-out/{which}", f"/tmp/mut5-c{pid[1:]}-out/{which}", f"/tmp/mut6-c{pid[1:]}-out/{which}"):
        if os.path.exists(os.path.join(cand, "patch.diff")):
            src = cand
            break
    wt = f"/tmp/wt-eval-{pid.lower()}-{which.lower()}"
    sh(f"git -C /repo worktree remove --force {wt}", "/")
    rc, out = sh(f"git -C /repo worktree add --detach {wt} HEAD", "/")
    assert rc == 0, out
    res = {"property": pid, "mutant": which, "repo_head": sh("git rev-parse --short HEAD", wt)[1].strip()}
    try:
        meta = json.load(open(os.path.join(src, "meta.json"))) if os.path.exists(os.path.join(src, "meta.json")) else {}
        demos = [f for f in glob.glob(os.path.join(src, "*")) if re.search(r"(_test\.go|\.go)$", f)]
        demo_txt = open(os.path.join(src, "demo.txt")).read() if os.path.exists(os.path.join(src, "demo.txt")) else ""
        if not pkg:
            m = re.search(r"go test[^\n]*?\s(\./[\w/\.\-]+)", demo_txt)
            pkg = m.group(1) if m else None
        if not pkg:
            m = re.search(r"(?:placed? (?:in|into)|copy to|package dir(?:ectory)?:?)\s+`?([\w/\.\-]+)", demo_txt)
            pkg = m.group(1) if m else None
        assert pkg, "cannot infer demo package; pass --pkg"
        pkg = pkg.rstrip("/").replace("/...", "")
        pkgdir = os.path.join(wt, pkg.lstrip("./"))
        res["demo_pkg"] = pkg
        m = re.search(r"(go test[^\n]*)", demo_txt)
        demo_cmd = m.group(1).strip().strip("`") if m else f"go test -count=1 -run 'Mut|Demo' {pkg}"
        if "-count" not in demo_cmd:
            demo_cmd = demo_cmd.replace("go test", "go test -count=1", 1)
        res["demo_cmd"] = demo_cmd

        # demos delivered in sub-directories named after their package (fs_ggml/ -> fs/ggml/)
        subdemos = []
        for sd in glob.glob(os.path.join(src, "*/")):
            name = os.path.basename(sd.rstrip("/"))
            for cand in (name, name.replace("_", "/")):
                if os.path.isdir(os.path.join(wt, cand)):
                    for f in glob.glob(os.path.join(sd, "*.go")):
                        subdemos.append((f, os.path.join(wt, cand)))
                    break

        def place():
            for d in demos:
                shutil.copy(d, pkgdir)
            for f, dst in subdemos:
                shutil.copy(f, dst)

        def unplace():
            for d in demos:
                p = os.path.join(pkgdir, os.path.basename(d))
                if os.path.exists(p):
                    os.remove(p)
            for f, dst in subdemos:
                p = os.path.join(dst, os.path.basename(f))
                if os.path.exists(p):
                    os.remove(p)

        # 1. demo on the unchanged tree
        place()
        rc, out = sh(demo_cmd, wt)
        res["demo_passes_without"] = rc == 0
        res["demo_without_tail"] = out[-400:]
        unplace()
        # 2. patch, build, existing tests
        rc, out = sh(f"git apply {os.path.join(src, 'patch.diff')}", wt)
        res["patch_applies"] = rc == 0
        if rc != 0:
            res["apply_error"] = out[-400:]
            return res
        rc, out = sh("go build ./...", wt)
        res["builds"] = rc == 0
        touched = sorted({"./" + os.path.dirname(f) + "/" for f in sh("git diff --name-only", wt)[1].split() if f.endswith(".go")})
        res["touched_packages"] = touched
        rc, out = sh("go test -vet=off -count=1 " + " ".join(touched), wt)
        fails = [l for l in out.splitlines() if l.startswith("--- FAIL") and "TestSentencePieceEncode" not in l]
        res["existing_tests_pass"] = not fails and ("FAIL" not in out or "TestSentencePieceEncode" in out)
        res["existing_tests_tail"] = "\n".join(fails)[:400] or out[-200:]
        # 3. demo with the change
        place()
        rc, out = sh(demo_cmd, wt)
        res["demo_fails_with"] = rc != 0
        res["demo_with_tail"] = out[-500:]
        unplace()
        # 4. our check
        env = dict(os.environ, VERIF_REPO=wt)
        rc, out = sh(f"./check {pid} {tier}", ROOT, timeout=3600, env=env)
        res["check_rc"] = rc
        res["check_lines"] = [l[:300] for l in out.splitlines() if l.startswith(("VIOLATION", "KNOWN-FINDING", f"[{pid}]"))][:12]
        res["detected"] = rc == 1 and any(l.startswith("VIOLATION") for l in out.splitlines())
        res["detected_with_input"] = any(l.startswith("VIOLATION") and "no-failing-input-found" not in l for l in out.splitlines())
        # replay summaries
        res["replays"] = []
        for l in out.splitlines():
            m = re.match(r"VIOLATION property=\S+ replay=(\S+)", l)
            if m and os.path.exists(m.group(1)):
                d = json.load(open(m.group(1)))
                res["replays"].append({"kind": d.get("kind"), "no_input": d.get("no_failing_input_found"),
                                       "detail": str(d.get("detail"))[:300], "case": str(d.get("case"))[:200]})
        confirmed = res["demo_passes_without"] and res["builds"] and res["existing_tests_pass"] and res["demo_fails_with"]
        res["confirmed"] = confirmed
        if confirmed:
            dst = os.path.join(ROOT, "seeded", f"{pid}-{which}")
            os.makedirs(dst, exist_ok=True)
            prev = {}
            try:
                prev = json.load(open(os.path.join(dst, "meta.json")))   # before the copy below overwrites it
            except Exception:
                pass
            if os.path.abspath(src) != os.path.abspath(dst):
                for f in glob.glob(os.path.join(src, "*")):
                    if os.path.isfile(f):
                        shutil.copy(f, dst)
                    elif os.path.isdir(f):
                        shutil.copytree(f, os.path.join(dst, os.path.basename(f)), dirs_exist_ok=True)
            for keep in ("first_check_result", "strengthening"):
                if keep in prev:
                    meta[keep] = prev[keep]
            meta.update({"property": pid, "confirmed_by_lead": {k: res[k] for k in
                         ("repo_head", "demo_cmd", "demo_pkg", "demo_passes_without", "builds", "touched_packages",
                          "existing_tests_pass", "demo_fails_with")},
                         "check_result": {k: res[k] for k in ("check_rc", "detected", "detected_with_input", "check_lines", "replays")},
                         "check_tier": tier})
            meta.setdefault("first_check_result", meta["check_result"])
            with open(os.path.join(dst, "meta.json"), "w") as f:
                json.dump(meta, f, indent=1)
                f.write("\n")
        return res
    finally:
        if "--keep" not in args:
            sh(f"git -C /repo worktree remove --force {wt}", "/")
            shutil.rmtree(wt, ignore_errors=True)


if __name__ == "__main__":
    r = main()
    short = {k: v for k, v in r.items() if not k.endswith("_tail")}
    print(json.dumps(short, indent=1))
    # re-run the check on /repo afterwards is the caller's job (evidence must describe /repo)
