#!/usr/bin/env python3
"""./tools/add_finding.py '<json object>'  — append one line to KNOWN_FINDINGS.jsonl under a lock.
Replaces an existing line with the same (property, id)."""
import fcntl, json, os, sys
ROOT = os.path.dirname(os.path.dirname(os.path.abspath(__file__)))
d = json.loads(sys.argv[1])
for k in ("property", "id", "status", "what"):
    assert k in d, f"missing {k}"
assert d["status"] in ("known", "fixed")
if d["status"] == "known":
    assert d.get("signature"), "known findings need a signature"
path = os.path.join(ROOT, "KNOWN_FINDINGS.jsonl")
with open(path + ".lock", "w") as lk:
    fcntl.flock(lk, fcntl.LOCK_EX)
    lines = [l for l in open(path).read().splitlines() if l.strip()] if os.path.exists(path) else []
    out = []
    for l in lines:
        try:
            e = json.loads(l)
        except Exception:
            out.append(l); continue
        if e.get("property") == d["property"] and e.get("id") == d["id"]:
            continue
        out.append(l)
    out.append(json.dumps(d, sort_keys=True))
    with open(path, "w") as f:
        f.write("\n".join(out) + "\n")
print("ok")
