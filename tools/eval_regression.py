#!/usr/bin/env python3
"""Does the check report a FIXED finding again when its repair is taken out?

usage: tools/eval_regression.py <CXX> [<finding-id> ...] [--tier quick|thorough]

For every `fixed` entry of KNOWN_FINDINGS.jsonl for the property (or the ids given): in a scratch
worktree of /repo's HEAD (outside /repo and /verif) `git revert --no-commit <commit>`; if the revert
conflicts with later commits the entry is recorded as `revert_conflict` (nothing is concluded); else
`go build ./...`, then `VERIF_REPO=<worktree> ./check CXX <tier>` must exit 1 with a VIOLATION line
(a fixed entry suppresses nothing).  Results: /verif/regressions/<CXX>.json (one record per finding).
Several findings repaired by the same commit are evaluated once.  Never run while another check of
the same property is running; re-run `./check CXX quick` on /repo afterwards.
"""
import json
import os
import shutil
import subprocess
import sys

ROOT = os.path.dirname(os.path.dirname(os.path.abspath(__file__)))
ENV = dict(os.environ, GOFLAGS="-mod=mod", GOPROXY="off")


def sh(cmd, cwd, timeout=3600, env=None):
    p = subprocess.run(cmd, cwd=cwd, shell=True, stdout=subprocess.PIPE, stderr=subprocess.STDOUT, text=True,
                       timeout=timeout, env=env or ENV)
    return p.returncode, p.stdout


def main():
    args = sys.argv[1:]
    tier = "quick"
    if "--tier" in args:
        i = args.index("--tier")
        tier = args[i + 1]
        del args[i:i + 2]
    pid = args[0].upper()
    only = set(args[1:])
    fixed = []
    for l in open(os.path.join(ROOT, "KNOWN_FINDINGS.jsonl")):
        l = l.strip()
        if l:
            d = json.loads(l)
            if d["property"] == pid and d["status"] == "fixed" and d.get("commit") and (not only or d["id"] in only):
                fixed.append(d)
    os.makedirs(os.path.join(ROOT, "regressions"), exist_ok=True)
    outp = os.path.join(ROOT, "regressions", f"{pid}.json")
    results = json.load(open(outp)) if os.path.exists(outp) else {}
    by_commit = {}
    for d in fixed:
        by_commit.setdefault(d["commit"], []).append(d["id"])
    for commit, ids in by_commit.items():
        wt = f"/tmp/wt-regr-{pid.lower()}-{commit[:9]}"
        sh(f"git -C /repo worktree remove --force {wt}", "/")
        rc, out = sh(f"git -C /repo worktree add --detach {wt} HEAD", "/")
        assert rc == 0, out
        res = {"commit": commit, "findings": ids, "tier": tier, "repo_head": sh("git rev-parse --short HEAD", wt)[1].strip()}
        try:
            rc, out = sh(f"git revert --no-commit {commit}", wt)
            if rc != 0:
                res["revert_conflict"] = True
                res["revert_tail"] = out[-300:]
            else:
                rc, out = sh("go build ./...", wt)
                res["builds"] = rc == 0
                if rc == 0:
                    env = dict(os.environ, VERIF_REPO=wt)
                    rc, out = sh(f"./check {pid} {tier}", ROOT, env=env)
                    res["check_rc"] = rc
                    lines = out.splitlines()
                    res["check_lines"] = [l[:300] for l in lines if l.startswith(("VIOLATION", "KNOWN-FINDING", f"[{pid}]"))][:10]
                    res["reported"] = rc == 1 and any(l.startswith("VIOLATION") for l in lines)
                    res["reported_with_input"] = any(l.startswith("VIOLATION") and "no-failing-input-found" not in l for l in lines)
                    for l in lines:
                        if l.startswith("VIOLATION"):
                            p = l.split("replay=")[-1].split()[0]
                            if os.path.exists(p):
                                d = json.load(open(p))
                                res.setdefault("replays", []).append({"kind": d.get("kind"), "detail": str(d.get("detail"))[:300]})
                                os.remove(p)
        finally:
            sh(f"git -C /repo worktree remove --force {wt}", "/")
            shutil.rmtree(wt, ignore_errors=True)
        for i in ids:
            prev = results.get(i, {})
            r = dict(res)
            if "first_result" in prev:
                r["first_result"] = prev["first_result"]
            elif prev and "reported" in prev:
                r["first_result"] = {k: prev.get(k) for k in ("reported", "reported_with_input", "check_lines")}
            if "strengthening" in prev:
                r["strengthening"] = prev["strengthening"]
            results[i] = r
        with open(outp, "w") as f:
            json.dump(results, f, indent=1, sort_keys=True)
            f.write("\n")
        print(json.dumps({k: res.get(k) for k in ("commit", "findings", "revert_conflict", "builds", "check_rc", "reported", "reported_with_input")}))


if __name__ == "__main__":
    main()
