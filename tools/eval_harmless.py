#!/usr/bin/env python3
"""Evaluate one behaviour-preserving rewrite against a property's check (false-alarm test).

usage: tools/eval_harmless.py <CXX> <R1|R2|...> [--tier quick|thorough]

Looks for /verif/harmless/<CXX>-<Rn>/patch.diff (copied there from /tmp/rf-out/<CXX>/<Rn>/ if it is
not there yet).  In a scratch worktree of /repo's HEAD (outside /repo and /verif): the patch applies,
`go build ./...` succeeds, the existing tests of the touched packages pass, then
`VERIF_REPO=<worktree> ./check CXX <tier>` must exit 0 with no VIOLATION line.  Writes
/verif/harmless/<CXX>-<Rn>/result.json.  The caller re-runs `./check CXX quick` on /repo afterwards
(generated Lean facts and evidence must describe /repo).  Never run while another check of the same
property is running.
"""
import json
import os
import shutil
import subprocess
import sys

ROOT = os.path.dirname(os.path.dirname(os.path.abspath(__file__)))
ENV = dict(os.environ, GOFLAGS="-mod=mod", GOPROXY="off")


def sh(cmd, cwd, timeout=3600, env=None):
    p = subprocess.run(cmd, cwd=cwd, shell=True, stdout=subprocess.PIPE, stderr=subprocess.STDOUT, text=True,
                       timeout=timeout, env=env or ENV)
    return p.returncode, p.stdout


def main():
    args = sys.argv[1:]
    pid, which = args[0].upper(), args[1].upper()
    tier = args[args.index("--tier") + 1] if "--tier" in args else "quick"
    dst = os.path.join(ROOT, "harmless", f"{pid}-{which}")
    src = f"/tmp/rf-out/{pid}/{which}"
    if not os.path.exists(os.path.join(dst, "patch.diff")):
        assert os.path.exists(os.path.join(src, "patch.diff")), f"no patch in {dst} or {src}"
        os.makedirs(dst, exist_ok=True)
        for f in ("patch.diff", "why.txt"):
            if os.path.exists(os.path.join(src, f)):
                shutil.copy(os.path.join(src, f), dst)
    wt = f"/tmp/wt-harmless-{pid.lower()}-{which.lower()}"
    sh(f"git -C /repo worktree remove --force {wt}", "/")
    rc, out = sh(f"git -C /repo worktree add --detach {wt} HEAD", "/")
    assert rc == 0, out
    res = {"property": pid, "rewrite": which, "tier": tier, "repo_head": sh("git rev-parse --short HEAD", wt)[1].strip()}
    try:
        rc, out = sh(f"git apply {os.path.join(dst, 'patch.diff')}", wt)
        res["patch_applies"] = rc == 0
        if rc != 0:
            res["apply_error"] = out[-400:]
            return res
        rc, out = sh("go build ./...", wt)
        res["builds"] = rc == 0
        touched = sorted({"./" + os.path.dirname(f) + "/" for f in sh("git diff --name-only", wt)[1].split() if f.endswith(".go")})
        res["touched_packages"] = touched
        rc, out = sh("go test -vet=off -count=1 " + " ".join(touched), wt)
        fails = [l for l in out.splitlines() if l.startswith("--- FAIL") and "TestSentencePieceEncode" not in l]
        res["existing_tests_pass"] = not fails and ("FAIL" not in out or "TestSentencePieceEncode" in out)
        env = dict(os.environ, VERIF_REPO=wt)
        rc, out = sh(f"./check {pid} {tier}", ROOT, env=env)
        res["check_rc"] = rc
        res["check_lines"] = [l[:300] for l in out.splitlines() if l.startswith(("VIOLATION", f"[{pid}]"))][:8]
        res["false_alarm"] = rc != 0 or any(l.startswith("VIOLATION") for l in out.splitlines())
        for l in out.splitlines():
            if l.startswith("VIOLATION"):
                p = l.split("replay=")[-1].split()[0]
                if os.path.exists(p):
                    d = json.load(open(p))
                    res.setdefault("alarms", []).append({"kind": d.get("kind"), "detail": str(d.get("detail"))[:400],
                                                         "case": str(d.get("case"))[:200]})
                    os.remove(p)     # a replay of a false alarm is not kept
        return res
    finally:
        sh(f"git -C /repo worktree remove --force {wt}", "/")
        shutil.rmtree(wt, ignore_errors=True)
        prev = {}
        try:
            prev = json.load(open(os.path.join(dst, "result.json")))
        except Exception:
            pass
        if "first_result" in prev:
            res["first_result"] = prev["first_result"]
        elif prev:
            res["first_result"] = {k: prev.get(k) for k in ("check_rc", "false_alarm", "check_lines", "alarms")}
        for keep in ("correction",):
            if keep in prev:
                res[keep] = prev[keep]
        with open(os.path.join(dst, "result.json"), "w") as f:
            json.dump(res, f, indent=1)
            f.write("\n")


if __name__ == "__main__":
    print(json.dumps(main(), indent=1))
