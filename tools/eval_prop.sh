#!/bin/sh
# tools/eval_prop.sh CXX [labels]  — evaluate the seeded changes <labels> (default "A B") of one property sequentially,
# then restore evidence for /repo
cd "$(dirname "$0")/.."
P="$1"; shift
L="${*:-A B}"
mkdir -p /tmp/lw/eval
for w in $L; do
  python3 tools/eval_mutant.py "$P" $w > /tmp/lw/eval/$P-$w.json 2>&1
done
./check "$P" quick > /tmp/lw/eval/$P-restore.txt 2>&1
python3 - "$P" $L <<'PY'
import json,sys
p=sys.argv[1]
for w in sys.argv[2:]:
    try:
        d=json.load(open(f'/tmp/lw/eval/{p}-{w}.json'))
        print(p,w,{k:d.get(k) for k in ('confirmed','demo_passes_without','existing_tests_pass','demo_fails_with','detected','detected_with_input','check_rc')})
        for r in d.get('replays',[])[:3]: print('    ',r['kind'],'no_input=',r['no_input'],'|',r['detail'][:160])
    except Exception as e:
        print(p,w,'ERR',open(f'/tmp/lw/eval/{p}-{w}.json').read()[-600:])
print(open(f'/tmp/lw/eval/{p}-restore.txt').read().splitlines()[-1][:160])
PY
