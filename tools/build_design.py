#!/usr/bin/env python3
"""Assemble /verif/DESIGN.md from docs/*.md, notes/AS_BUILT.md, KNOWN_FINDINGS.jsonl and seeded/*/meta.json."""
import glob
import json
import os
import re

ROOT = os.path.dirname(os.path.dirname(os.path.abspath(__file__)))
SEP = "\n---------------------------------------------------------------------------------------\n\n"


def read(p):
    return open(os.path.join(ROOT, p)).read().rstrip() + "\n"


def findings():
    rows = []
    for l in open(os.path.join(ROOT, "KNOWN_FINDINGS.jsonl")):
        l = l.strip()
        if not l:
            continue
        d = json.loads(l)
        what = re.sub(r"^fixed: property=\S+ \S+ ", "", d["what"])
        what = what.replace("|", "\\|").replace("\n", " ")
        if len(what) > 330:
            what = what[:327] + "…"
        rows.append((d["property"], d["id"], d["status"], d.get("commit", ""), what))
    rows.sort()
    out = ["## 6. Findings register", "",
           "Genuine defects of /repo confirmed by a check on the real code. `fixed` = repaired by a minimal `fix:` commit in",
           "/repo (the check passes on the repaired tree and reports the violation again if it returns); `known` = recorded,",
           "identified by a signature on the failing input (a different violation of the same property is still reported).",
           f"{sum(1 for r in rows if r[2] == 'fixed')} fixed, {sum(1 for r in rows if r[2] == 'known')} known.", "",
           "| property | id | status | commit | what fails |", "|---|---|---|---|---|"]
    for r in rows:
        out.append(f"| {r[0]} | {r[1]} | {r[2]} | {r[3]} | {r[4]} |")
    return "\n".join(out) + "\n"


def seeded():
    out = ["## 7. Seeded changes: which checks catch which", "",
           f"{len(glob.glob(os.path.join(ROOT, 'seeded', '*', 'meta.json')))} changes, in waves (A/B, C/D, E/F, G/H, I/J, and in round 7 K/L for every property plus M for six; waves C–J were",
           "told what the earlier ones had done and asked for different mechanisms), written by fresh sub-agents that saw only",
           "the text of one property and a scratch worktree (nothing",
           "from /verif). Each breaks its property, compiles, passes the repository's tests, needs something specific to",
           "manifest, and comes with a demonstration that fails with the change and passes without it; all of that was",
           "re-confirmed by `tools/eval_mutant.py` in a fresh worktree before the change was kept under `seeded/<id>/`",
           "(`patch.diff`, demo, `meta.json` incl. what was run). `first` = outcome of the check as it was when the change",
           "arrived; `now` = after the strengthening listed. `input` = VIOLATION with a concrete failing input;",
           "`no-input` = VIOLATION … no-failing-input-found (a Tie theorem or the L1 correspondence broke).", "",
           "| change | what it breaks / needs | first | now | caught by |", "|---|---|---|---|---|"]
    for d in sorted(glob.glob(os.path.join(ROOT, "seeded", "*", "meta.json"))):
        m = json.load(open(d))
        name = os.path.basename(os.path.dirname(d))
        cr = m.get("check_result", {})

        def verdict(c):
            if not c:
                return "?"
            if c.get("detected_with_input"):
                return "input"
            if c.get("detected"):
                return "no-input"
            return "**missed**"
        first = verdict(m.get("first_check_result", cr))
        now = verdict(cr)
        kinds = ", ".join(sorted({str(r.get("kind")) for r in cr.get("replays", [])}))[:120]
        what = (m.get("what_breaks", "") + " — needs: " + m.get("needs_to_manifest", "")).replace("|", "\\|").replace("\n", " ")
        if len(what) > 230:
            what = what[:227] + "…"
        note = m.get("strengthening", "").replace("|", "\\|").replace("\n", " ")
        if len(note) > 330:
            note = note[:327] + "… (full text: seeded/" + name + "/meta.json)"
        out.append(f"| {name} | {what} | {first} | {now} | {kinds}{(' — ' + note) if note else ''} |")
    return "\n".join(out) + "\n"


def harmless():
    out = ["## 7b. Behaviour-preserving rewrites: which checks stay quiet", "",
           "Semantics-preserving rewrites of the anchored code (renames, extracted helpers, De Morgan, loop forms,",
           "reordered independent statements), written by fresh sub-agents that saw only the property text (`<id>-R<n>`) or by",
           "the property's builder (other labels), each with `why.txt` arguing that nothing observable changes. Evaluated by",
           "`tools/eval_harmless.py`: patch applies, builds, the touched packages' tests pass, then `VERIF_REPO=<worktree> ./check <id> quick`",
           "must exit 0. `first` = the check as it was when the rewrite arrived; `now` = after the correction listed.", "",
           "| rewrite | first | now | correction |", "|---|---|---|---|"]
    n = 0
    for d in sorted(glob.glob(os.path.join(ROOT, "harmless", "*", "result.json"))):
        m = json.load(open(d))
        name = os.path.basename(os.path.dirname(d))
        fr = m.get("first_result") or m
        v = lambda c: "?" if c.get("false_alarm") is None else ("**alarm**" if c.get("false_alarm") else "quiet")
        corr = str(m.get("correction", "")).replace("|", "\\|").replace("\n", " ")[:300]
        out.append(f"| {name} | {v(fr)} | {v(m)} | {corr} |")
        n += 1
    loose = sorted(glob.glob(os.path.join(ROOT, "harmless", "*.diff")))
    if loose:
        out += ["", "Rewrites kept as plain patches (evaluated by hand, see the property's notes): " +
                ", ".join(os.path.basename(x) for x in loose) + "."]
    return "\n".join(out) + "\n"


def regressions():
    out = ["## 7c. Reverted repairs: is a fixed finding reported again?", "",
           "For every `fixed` entry of `KNOWN_FINDINGS.jsonl`, `tools/eval_regression.py` reverts the fix commit in a scratch",
           "worktree of /repo's HEAD and runs the property's quick check there: it must exit 1 with a VIOLATION line (`input` = with a",
           "concrete failing input). `conflict` = the revert no longer applies on top of later repairs (nothing concluded).", "",
           "| property | finding | fix commit | first | now | strengthening |", "|---|---|---|---|---|---|"]
    for d in sorted(glob.glob(os.path.join(ROOT, "regressions", "C*.json"))):
        pid = os.path.basename(d)[:-5]
        for fid, m in sorted(json.load(open(d)).items()):
            def v(c):
                if c.get("revert_conflict"):
                    return "conflict"
                if c.get("reported_with_input"):
                    return "input"
                if c.get("reported"):
                    return "no-input"
                if "reported" in c:
                    return "**missed**"
                return "?"
            fr = m.get("first_result") or m
            note = str(m.get("strengthening", "")).replace("|", "\\|").replace("\n", " ")[:300]
            out.append(f"| {pid} | {fid} | {m.get('commit', '')} | {v(fr)} | {v(m)} | {note} |")
    return "\n".join(out) + "\n"


def false_alarms():
    """docs/80_false_alarms.md + the rows of notes/false_alarms/*.md (one file per owner, table rows only)."""
    base = read("docs/80_false_alarms.md")
    rows = []
    for x in sorted(glob.glob(os.path.join(ROOT, "notes", "false_alarms", "*.md"))):
        rows += [l.rstrip() for l in open(x) if l.startswith("|")]
    marker = "\nNo check was loosened"
    if rows and marker in base:
        i = base.index(marker)
        base = base[:i].rstrip("\n") + "\n" + "\n".join(rows) + "\n" + base[i:]
    return base

def main():
    # notes/AS_BUILT.md is assembled from notes/as_built/{00_head,C01..C20,ZZ_tail}.md (each section has one owner)
    secs = sorted(glob.glob(os.path.join(ROOT, "notes", "as_built", "*.md")))
    asbuilt = "\n".join(open(x).read().rstrip() + "\n" for x in secs)
    with open(os.path.join(ROOT, "notes", "AS_BUILT.md"), "w") as f:
        f.write(asbuilt)
    asbuilt = re.sub(r"^# .*\n", "## 5. Per-property machinery (as built)\n", asbuilt, count=1)
    parts = [read("docs/00_head.md").rstrip() + "\n\n" + "## 1. What the technique decides here, and what it cannot\n\n" +
             read("docs/10_technique.md").split("\n", 2)[2] if read("docs/10_technique.md").startswith("## 1") else read("docs/00_head.md") + read("docs/10_technique.md"),
             read("docs/20_architecture.md"), read("docs/30_decision.md"), read("docs/40_trusted.md"), asbuilt,
             findings(), seeded(), harmless(), regressions(), false_alarms(), read("docs/90_limits.md"), read("docs/95_appendix_probes.md")]
    with open(os.path.join(ROOT, "DESIGN.md"), "w") as f:
        f.write(SEP.join(p.rstrip() + "\n" for p in parts))
    print("DESIGN.md", sum(len(p) for p in parts), "bytes")


if __name__ == "__main__":
    main()
